"""pysym parts: symbolic execution of the real Python runtime (_binary.py, _ndjson.py) under CPython.

Each function returns the part dict of lib/vcommon.new_part.  Run one alone:
    python3-vt /verif/parts/py_kernels.py c01_py_kernels quick
"""
import json, os, sys, time

VERIF = os.path.dirname(os.path.dirname(os.path.abspath(__file__)))
if VERIF not in sys.path:
    sys.path.insert(0, VERIF)
from lib import vcommon
from engine.pysym import env as E

K = "harness.py.kernels:"
NPROC = int(os.environ.get("VERIF_NPROC", "16"))

STUBS = [
    "pysym: underlying binary stream = SymSink/SymSource (write appends; readinto follows the io.BufferedIOBase contract: mode full = fills the view unless the data ends, mode short = any 1<=k<=len(view) while data remains, 0 only at end)",
    "pysym: struct.Struct shim for '<' formats of ? b B h H i I q Q f d (range check -> struct.error, little-endian bytes; float payloads opaque IEEE bit patterns)",
    "pysym: module-global shims int/len/bytearray/memoryview/isinstance/range/str/struct/bool/float/complex inside the yardl modules only",
    "pysym: SymInt hashes to one bucket (dict/set decide key equality with the solver); under enum.py it is unhashable, selecting Enum's linear member search",
]
ASSUME = [
    "pysym: Python int modelled as 80-bit signed bit-vector; obligation int80-exact (no overflow of any +,-,*,<<,neg) is discharged on every path, so BV80 == Z there",
    "pysym: CodedOutputStream class invariant 0 <= _offset <= len(_buffer), buffer contents arbitrary; buffer_size >= 16 (largest atomic write, '<dd'); production size 65536 only through size-independence of the step",
    "pysym: CodedInputStream states are reached through the public API only (fresh stream, p junk bytes consumed by read_view(p), 0<=p<=N)",
    "pysym: bytearray slice assignment modelled as memmove (CPython copies overlapping ranges correctly here)",
    "pysym: float32 inputs exclude signalling NaNs (CPython widens float32 through the FPU, which quiets them)",
    "pysym: interval pre-check of comparisons uses only the declared input ranges (which are path-condition assumptions)",
]


def _finish(part, t0):
    part["wall_s"] = round(time.time() - t0, 2)
    return part


def _run(name, prop, jobs, bounds, expected=(), extra_assume=()):
    t0 = time.time()
    part = vcommon.new_part(name, "pysym")
    part["bounds"] = bounds
    part["stubs"] = list(STUBS)
    part["assumptions"] = ASSUME + list(extra_assume)
    results = E.run_jobs(jobs, NPROC)
    E.merge(part, results, prop, expected)
    part["jobs"] = [{"label": r.get("label"), "paths": r.get("paths"), "queries": r.get("queries"), "wall_s": round(r.get("wall_s", 0), 1),
                     "outcomes": r.get("outcomes")} for r in results]
    return _finish(part, t0)


def _job(h, label, budget, **params):
    return {"harness": K + h, "label": label, "params": params, "limits": {"budget_s": budget}}


PRIMS = ["uvarint", "svarint", "byte", "bool", "int8", "uint8", "fixed_int32", "f32", "f64", "c32", "c64"]

# serializer type family: full-width integers as scalars; containers over narrow leaves (every varint
# leaf multiplies the path count by its byte length, which the code under test forks on anyway)
SCALARS = [["int8"], ["uint8"], ["int16"], ["uint16"], ["int32"], ["uint32"], ["int64"], ["uint64"], ["size"], ["bool"],
           ["f32"], ["f64"], ["c32"], ["c64"], ["string"], ["date"], ["time"], ["datetime"]]
COMPOSITES = [
    ["optional", ["int32"]],
    ["optional", ["string", ["", "hé"]]],
    ["union", [["int16"], ["bool"]]],
    ["union", [None, ["uint8"], ["string", ["", "ab"]]]],
    ["vector", ["uint8"]],
    ["vector", ["int16"]],
    ["vector", ["optional", ["bool"]]],
    ["fixedvector", ["int8"], 3],
    ["fixedvector", ["uint16"], 2],
    ["map", ["uint8"], ["bool"]],
    ["map", ["string", ["a", "b", "€"]], ["int8"]],
    ["enum", ["int32"], [0, 1, 5]],
    ["enum", ["uint8"], [0, 2]],
    ["record", [["int16"], ["optional", ["uint8"]]]],
    ["record", [["union", [None, ["bool"]]], ["vector", ["int8"]]]],
]
STREAMS = [(["stream", ["uint8"]], v) for v in ("list", "generator", "iter")] + [(["stream", ["optional", ["int16"]]], v) for v in ("list", "generator")]


def tname(t):
    if t is None:
        return "null"
    if isinstance(t, list) and t and isinstance(t[0], str):
        args = []
        for a in t[1:]:
            if isinstance(a, list) and a and (a[0] is None or isinstance(a[0], list)):
                args.append("|".join(tname(x) for x in a))
            elif isinstance(a, list) and a and isinstance(a[0], str) and t[0] not in ("string",):
                args.append(tname(a))
            elif t[0] in ("string", "enum") :
                continue
            else:
                args.append(str(a))
        return t[0] + ("<" + ",".join(args) + ">" if args else "")
    return str(t)


def c01_py_kernels(prop="C01", tier="quick", seed=0, **kw):
    quick = tier != "thorough"
    Ns = [16] if quick else [16, 24]
    modes = ["full", "short"]
    maxlen = 2 if quick else 3
    b = 25 if quick else 240
    jobs = []
    for N in Ns:
        for k in PRIMS:
            jobs.append(_job("h_prim_write", "prim.write:%s:N%d" % (k, N), b, kind=k, N=N))
            for m in modes:
                jobs.append(_job("h_prim_read", "prim.read:%s:N%d:%s" % (k, N, m), b, kind=k, N=N, mode=m))
        jobs.append(_job("h_bytes", "bytes:N%d:full" % N, b, N=N, mode="full"))
        jobs.append(_job("h_bytes", "bytes:N%d:short" % N, b, N=N, mode="short"))
        jobs.append(_job("h_bytes", "bytes.direct:N%d" % N, b, N=N, mode="full", direct=True))
    N = 16
    for t in SCALARS + COMPOSITES:
        jobs.append(_job("h_ser_write", "ser.write:%s" % tname(t), b, t=t, N=N, maxlen=maxlen))
        if t[0] in ("time", "datetime"):
            continue   # read side builds numpy datetime64/timedelta64 from the decoded int: not symbolic (see limitations)
        for m in (modes if not quick or t in SCALARS[:10] else ["full"]):
            jobs.append(_job("h_ser_read", "ser.read:%s:%s" % (tname(t), m), b, t=t, N=N, mode=m, maxlen=maxlen))
    for t, v in STREAMS:
        jobs.append(_job("h_ser_write", "ser.write:%s/%s" % (tname(t), v), b, t=t, N=N, maxlen=maxlen, variant=v))
        jobs.append(_job("h_ser_read", "ser.read:%s/%s:full" % (tname(t), v), b, t=t, N=N, mode="full", maxlen=maxlen, variant=v))
    expected = ["prim.write-no-exception", "prim.bytes==reference", "prim.offset-invariant", "prim.read-no-exception", "prim.read==written",
                "prim.consumed==produced", "prim.reader-invariant", "bytes.no-exception", "bytes.bytes==reference", "bytes.read-no-exception",
                "bytes.read==written", "bytes.consumed==produced", "ser.write-no-unexpected-exception", "ser.range-error-only-if-out-of-range",
                "ser.out-of-range-is-rejected", "ser.bytes==reference", "ser.read-no-exception", "ser.read==written", "ser.consumed==produced",
                "int80-exact"]
    bounds = {"buffer_size_N": Ns, "refill_modes": modes, "container_len_max": maxlen, "varint_unwinding": "10 bytes (+1 unwinding assertion via loop cap)",
              "int_leaf_domain": "[-2^64, 2^65]", "strings": "concrete pools incl. empty, multi-byte UTF-8, longer than N", "job_budget_s": b}
    return _run("c01_py_kernels", prop, jobs, bounds, expected)


FUNCS = {"c01_py_kernels": c01_py_kernels}


def main():
    name = sys.argv[1]
    tier = sys.argv[2] if len(sys.argv) > 2 else "quick"
    prop = {"c01": "C01", "c03": "C03", "c16": "C16", "c17": "C17", "c15": "C15", "c02": "C02"}[name[:3]]
    res = FUNCS[name](prop=prop, tier=tier, seed=int(os.environ.get("VERIF_SEED", "0")))
    print(json.dumps(res, indent=1, default=str))


if __name__ == "__main__":
    main()
