"""pysym parts: symbolic execution of the real Python runtime (_binary.py, _ndjson.py) under CPython.

Each function returns the part dict of lib/vcommon.new_part.  Run one alone:
    python3-vt /verif/parts/py_kernels.py c01_py_kernels quick
"""
import os
import json, os, sys, time

VERIF = os.path.dirname(os.path.dirname(os.path.abspath(__file__)))
if VERIF not in sys.path:
    sys.path.insert(0, VERIF)
from lib import vcommon
from engine.pysym import env as E

K = "harness.py.kernels:"
NPROC = int(os.environ.get("VERIF_NPROC", "16"))

STUBS = [
    "pysym: underlying binary stream = SymSink/SymSource (write appends; readinto follows the io.BufferedIOBase contract: mode full = fills the view unless the data ends, mode short = any 1<=k<=len(view) while data remains, 0 only at end)",
    "pysym: struct.Struct shim for '<' formats of ? b B h H i I q Q f d (range check -> struct.error, little-endian bytes; float payloads opaque IEEE bit patterns)",
    "pysym: module-global shims int/len/bytearray/memoryview/isinstance/range/str/struct/bool/float/complex inside the yardl modules only",
    "pysym: np.frombuffer on a symbolic buffer yields a window onto that buffer object (no copy, as numpy; reshape/shape/dtype only); natively the real numpy runs",
    "pysym: SymInt hashes to one bucket (dict/set decide key equality with the solver); under enum.py it is unhashable, selecting Enum's linear member search",
]
ASSUME = [
    "pysym: Python int modelled as 80-bit signed bit-vector; obligation int80-exact (no overflow of any +,-,*,<<,neg) is discharged on every path, so BV80 == Z there",
    "pysym: CodedOutputStream class invariant 0 <= _offset <= len(_buffer), buffer contents arbitrary; buffer_size >= 16 (largest atomic write, '<dd'); production size 65536 only through size-independence of the step",
    "pysym: CodedInputStream states are reached through the public API only (fresh stream, p junk bytes consumed by read_view(p), 0<=p<=N)",
    "pysym: bytearray slice assignment modelled as memmove (CPython copies overlapping ranges correctly here)",
    "pysym: float32 inputs exclude signalling NaNs (CPython widens float32 through the FPU, which quiets them)",
    "pysym: interval pre-check of comparisons uses only the declared input ranges (which are path-condition assumptions)",
]


def _finish(part, t0):
    part["wall_s"] = round(time.time() - t0, 2)
    return part


def _run(name, prop, jobs, bounds, expected=(), extra_assume=()):
    t0 = time.time()
    part = vcommon.new_part(name, "pysym")
    part["bounds"] = bounds
    part["stubs"] = list(STUBS)
    part["assumptions"] = ASSUME + list(extra_assume)
    results = E.run_jobs(jobs, NPROC)
    E.merge(part, results, prop, expected)
    part["jobs"] = [{"label": r.get("label"), "paths": r.get("paths"), "queries": r.get("queries"), "wall_s": round(r.get("wall_s", 0), 1),
                     "outcomes": r.get("outcomes")} for r in results]
    return _finish(part, t0)


def _job(h, label, budget, **params):
    thorough = budget > 60
    # the path budget is the real bound; the clock is only a safety net and must not fire on a slow / loaded machine
    lim = {"budget_s": budget if thorough else 8 * budget, "max_paths": 40000 if thorough else 4000}
    if thorough:
        lim["xcheck_every"] = 40      # two-solver diff on every 40th property query (z3 4.8.12 and cvc5 binaries)
    return {"harness": K + h, "label": label, "params": params, "limits": lim}


PRIMS = ["uvarint", "svarint", "byte", "bool", "int8", "uint8", "fixed_int32", "f32", "f64", "c32", "c64"]

# serializer type family: full-width integers as scalars; containers over narrow leaves (every varint
# leaf multiplies the path count by its byte length, which the code under test forks on anyway)
SCALARS = [["int8"], ["uint8"], ["int16"], ["uint16"], ["int32"], ["uint32"], ["int64"], ["uint64"], ["size"], ["bool"],
           ["f32"], ["f64"], ["c32"], ["c64"], ["string"], ["date"], ["time"], ["datetime"]]
# a union with more than 127 cases: the tag index no longer fits in a one-byte varint (docs/reference/binary.md: "The index is
# written as an unsigned varint")
WIDE_UNION = ["union", [["bool"]] * 130]
COMPOSITES = [
    ["optional", ["int32"]],
    ["optional", ["string", ["", "hé"]]],
    ["union", [["int16"], ["bool"]]],
    ["union", [None, ["uint8"], ["string", ["", "ab"]]]],
    WIDE_UNION,
    ["vector", ["uint8"]],
    ["vector", ["int16"]],
    ["vector", ["optional", ["bool"]]],
    ["fixedvector", ["int8"], 3],
    ["fixedvector", ["uint16"], 2],
    ["map", ["uint8"], ["bool"]],
    ["map", ["string", ["a", "b", "€"]], ["int8"]],
    ["map", ["time"], ["bool"]], ["map", ["datetime"], ["int8"]], ["map", ["date"], ["bool"]],
    ["enum", ["int32"], [0, 1, 5]],
    ["enum", ["uint8"], [0, 2]],
    ["record", [["int16"], ["optional", ["uint8"]]]],
    ["record", [["union", [None, ["bool"]]], ["vector", ["int8"]]]],
]
STREAMS = [(["stream", ["uint8"]], v) for v in ("list", "generator", "iter")] + [(["stream", ["optional", ["int16"]]], v) for v in ("list", "generator")]


def tname(t):
    if t is None:
        return "null"
    if isinstance(t, list) and t and t[0] == "union" and len(t[1]) > 8:
        return "union<%d x %s>" % (len(t[1]), tname(t[1][-1]))
    if isinstance(t, list) and t and isinstance(t[0], str):
        args = []
        for a in t[1:]:
            if isinstance(a, list) and a and (a[0] is None or isinstance(a[0], list)):
                args.append("|".join(tname(x) for x in a))
            elif isinstance(a, list) and a and isinstance(a[0], str) and t[0] not in ("string",):
                args.append(tname(a))
            elif t[0] in ("string", "enum") :
                continue
            else:
                args.append(str(a))
        return t[0] + ("<" + ",".join(args) + ">" if args else "")
    return str(t)


def c01_py_kernels(prop="C01", tier="quick", seed=0, **kw):
    quick = tier != "thorough"
    Ns = [16] if quick else [16, 24]
    # refill mode "short" (readinto returning fewer bytes than asked while data remains) is outside the
    # io.BufferedReader contract the runtime is written against; it is available via VERIF_PY_SHORT_READS=1
    modes = ["full", "short"] if os.environ.get("VERIF_PY_SHORT_READS") == "1" else ["full"]
    maxlen = 2 if quick else 3
    b = 25 if quick else 240
    jobs = []
    for N in Ns:
        for k in PRIMS:
            jobs.append(_job("h_prim_write", "prim.write:%s:N%d" % (k, N), b, kind=k, N=N))
            for m in modes:
                kk = k
                if m == "short" and k in ("uvarint", "svarint"):
                    # arbitrary schedules multiply the paths per refill: quick uses <= 3-byte varints, thorough
                    # <= 5-byte ones; the full 10-byte range is covered under refill mode 'full'
                    kk = k + ("16" if quick else "32")
                jobs.append(_job("h_prim_read", "prim.read:%s:N%d:%s" % (kk, N, m), b, kind=kk, N=N, mode=m))
        jobs.append(_job("h_bytes", "bytes:N%d:full" % N, b, N=N, mode="full"))
        if "short" in modes:
            jobs.append(_job("h_bytes", "bytes:N%d:short" % N, b, N=N, mode="short"))
        jobs.append(_job("h_bytes", "bytes.direct:N%d" % N, b, N=N, mode="full", direct=True))
    N = 16
    for t in SCALARS + COMPOSITES:
        jobs.append(_job("h_ser_write", "ser.write:%s" % tname(t), b, t=t, N=N, maxlen=maxlen))
        if t[0] in ("time", "datetime") or (t[0] == "map" and t[1][0] in ("time", "datetime")):
            continue   # read side builds numpy datetime64/timedelta64 from the decoded int: not symbolic (see limitations);
            #            dictionaries keyed by the runtime Time/DateTime classes are built by the write job and by c02_py_converters
        narrow = ("int8", "uint8", "int16", "uint16", "bool") if quick else ("int8", "uint8", "int16", "uint16", "int32", "uint32", "bool", "f32", "f64",
                                                                               "c32", "c64", "string", "date", "optional", "union", "enum", "fixedvector", "record")
        for m in (modes if t[0] in narrow else ["full"]):
            jobs.append(_job("h_ser_read", "ser.read:%s:%s" % (tname(t), m), b, t=t, N=N, mode=m, maxlen=maxlen))
    for t, v in STREAMS:
        jobs.append(_job("h_ser_write", "ser.write:%s/%s" % (tname(t), v), b, t=t, N=N, maxlen=maxlen, variant=v))
        jobs.append(_job("h_ser_read", "ser.read:%s/%s:full" % (tname(t), v), b, t=t, N=N, mode="full", maxlen=maxlen, variant=v))
    expected = ["prim.write-no-exception", "prim.bytes==reference", "prim.offset-invariant", "prim.read-no-exception", "prim.read==written",
                "prim.consumed==produced", "prim.reader-invariant", "bytes.no-exception", "bytes.bytes==reference", "bytes.read-no-exception",
                "bytes.read==written", "bytes.consumed==produced", "ser.write-no-unexpected-exception", "ser.range-error-only-if-out-of-range",
                "ser.out-of-range-is-rejected", "ser.bytes==reference", "ser.read-no-exception", "ser.read==written", "ser.consumed==produced",
                "int80-exact"]
    bounds = {"buffer_size_N": Ns, "refill_modes": modes, "container_len_max": maxlen, "varint_unwinding": "10 bytes (+1 unwinding assertion via loop cap)",
              "int_leaf_domain": "[-2^64, 2^65]", "strings": "concrete pools incl. empty, multi-byte UTF-8, longer than N", "job_budget_s": b}
    return _run("c01_py_kernels", prop, jobs, bounds, expected)


def c03_py_capacity(prop="C03", tier="quick", seed=0, **kw):
    quick = tier != "thorough"
    Ns = [16] if quick else [16, 24, 32]
    b = 25 if quick else 200
    maxlen = 2 if quick else 3
    cases = ["end_stream", "uvarint", "svarint", "optional_numpy", "optional", "optional_str", "union", "union_null", "stream", "stream/generator",
             "stream_opt/generator", "vector", "map", "string", "record"] + ["struct:" + k for k in ("bool", "int8", "uint8", "fixed_int32", "f32", "f64", "c32", "c64")]
    jobs = []
    for N in Ns:
        for c in cases:
            j = _job("h_c03", "c03:%s:N%d" % (c, N), b, case=c, N=N, maxlen=maxlen)
            j["hooks"] = K + "install_c03_hooks"
            jobs.append(j)
    # one obligation per call site of write_byte_no_check in the current working tree (syntactic
    # enumeration of the sites only; each obligation itself is the semantic 0 <= _offset < len(_buffer))
    from harness.py import kernels as HK
    sites = E._scan_sites(os.path.join(E.STATIC, "_binary.py"))
    expected = [HK.PACK_OBL, "c03.offset-invariant", "c03.harness-completed"]
    for q, calls in sorted(sites.items()):
        for name, ln, end, k in calls:
            if name == "write_byte_no_check":
                expected.append(HK.c03_ids("%s#%d" % (q, k))[0])
    bounds = {"buffer_size_N": Ns, "container_len_max": maxlen, "job_budget_s": b}
    return _run("c03_py_capacity", prop, jobs, bounds, expected)


TRUNC_SEQS = [
    [["prim", "uvarint"]], [["prim", "svarint"]], [["prim", "byte"]], [["prim", "bool"]], [["prim", "fixed_int32"]], [["prim", "f64"]], [["prim", "c64"]],
    [["int16"]], [["uint64"]], [["string", ["", "a", "0123456789abcdefXYZ"]]], [["optional", ["int16"]]], [["union", [None, ["uint8"], ["bool"]]]],
    [["vector", ["uint8"]]], [["fixedvector", ["int8"], 3]], [["map", ["uint8"], ["bool"]]], [["enum", ["int32"], [0, 1, 5]]],
    [["record", [["int16"], ["optional", ["uint8"]]]]], [["stream", ["uint8"]]], [["stream", ["optional", ["int8"]]]], [["date"]],
    [["int16"], ["f32"], ["string", ["", "ab"]]], [["prim", "fixed_int32"], ["prim", "fixed_int32"]], [["vector", ["uint8"]], ["optional", ["int16"]]],
    [["stream", ["uint8"]], ["uint8"]], [["bool"], ["uint32"], ["int8"]],
]


def c16_py_truncation(prop="C16", tier="quick", seed=0, **kw):
    quick = tier != "thorough"
    Ns = [16] if quick else [16, 24]
    modes = ["full", "short"] if (not quick and os.environ.get("VERIF_PY_SHORT_READS") == "1") else ["full"]
    b = 40 if quick else 300
    maxlen = 2 if quick else 3
    jobs = []
    for N in Ns:
        for m in modes:
            for ts in TRUNC_SEQS:
                if m == "short":
                    # arbitrary schedules multiply the paths by the schedule choices per refill: 10-byte
                    # varints are replaced by their <= 3-byte variants (same code), long sequences skipped
                    if len(ts) > 2:
                        continue
                    ts = [["prim", t[1] + "16"] if t[0] == "prim" and t[1] in ("uvarint", "svarint") else (["uint16"] if t == ["uint64"] else t) for t in ts]
                jobs.append(_job("h_trunc", "trunc:%s:N%d:%s" % ("+".join(tname(t) if t[0] != "prim" else "prim." + t[1] for t in ts), N, m), b, ts=ts, N=N, mode=m, maxlen=maxlen if m == "full" else 2))
            for which in ("read_view", "read_bytearray"):
                jobs.append(_job("h_trunc_bulk", "trunc.bulk:%s:N%d:%s" % (which, N, m), b, N=N, mode=m, which=which))
    expected = ["trunc.outcome-is-an-exception", "trunc.no-error-before-the-cut", "trunc.normal-return-only-if-complete",
                "trunc.delivered==written", "trunc.bulk-read-returns-only-bytes-present", "int80-exact"]
    bounds = {"buffer_size_N": Ns, "refill_modes": modes, "values_per_stream": "1-3", "container_len_max": maxlen, "cut": "symbolic 0 <= c < total",
              "bulk_reads": "read_view/read_bytearray(count), count = 1..2N+2 (decided by forking), symbolic content, symbolic cut < count, reader offset symbolic",
              "unwinding": "readinto calls <= 40, symbolic loops <= 64 (reaching a cap = inconclusive)", "job_budget_s": b}
    part = _run("c16_py_truncation", prop, jobs, bounds, expected)
    # 'all-values-delivered' must be unreachable: it is a marker behind failed checks only
    return part


def _ref_lemmas(part):
    """Reference-codec self-consistency, decided directly by z3 (no code under test involved): the
    reference decoder inverts the reference encoder, so equal reference encodings <=> equal items."""
    import z3
    from spec import refcodec
    t0 = time.time()
    ob = {"id": "ref.lemma decode(encode(x))==x", "paths": 1, "queries": 0, "unsat": 0, "sat": 0, "unknown": 0}
    for w in (8, 16, 32, 64):
        x = z3.BitVec("x", w)
        n, bs = refcodec.uvarint(x)
        v, m, okk = refcodec.decode_uvarint(lambda i: bs[i] if i < len(bs) else z3.BitVecVal(0, 8), w, len(bs))
        s = z3.Solver()
        s.add(z3.Not(z3.And(v == x, m == n, okk)))
        r = s.check()
        ob["queries"] += 1
        ob[str(r) if str(r) in ("sat", "unsat") else "unknown"] += 1
        y = z3.BitVec("y", w)
        s = z3.Solver()
        s.add(refcodec.unzigzag(refcodec.zigzag(y)) != y)
        r = s.check()
        ob["queries"] += 1
        ob[str(r) if str(r) in ("sat", "unsat") else "unknown"] += 1
    ob["status"] = "holds" if ob["sat"] == 0 and ob["unknown"] == 0 else "inconclusive"
    ob["note"] = "uvarint/zigzag at widths 8,16,32,64"
    part["obligations"].append(ob)
    for k in ("queries", "unsat", "sat", "unknown"):
        part[k] += ob[k]
    part["solver_s"] = round(part["solver_s"] + time.time() - t0, 3)


BATCH_ITEMS = [["uint8"], ["int16"], ["optional", ["uint8"]], ["vector", ["uint8"]], ["union", [None, ["bool"], ["int8"]]], ["map", ["uint8"], ["bool"]]]


# item independence: item types whose readers hand out bulk memory (arrays of trivially serializable elements go
# through read_bytearray + np.frombuffer, strings through read_view) alone and inside containers; 3 items of 5-9
# bytes do not fit the N=16 buffer, so later items refill it while the earlier ones are kept
INDEP_ITEMS = [["fixedarray", ["uint8"], [5]], ["fixedarray", ["f32"], [2]], ["fixedarray", ["int8"], [2, 3]], ["fixedarray", ["uint8"], [18]],
               ["ndarray", ["uint8"], 1, [0, 6]], ["dynarray", ["int8"], [1, 2], [2]],
               ["string", ["", "abcdefgh"]], ["vector", ["uint8"]],
               ["record", [["uint8"], ["fixedarray", ["uint8"], [6]]]], ["optional", ["fixedarray", ["uint8"], [7]]],
               ["union", [["fixedarray", ["int8"], [6]], ["string", ["abcdefgh"]]]]]
INDEP_ITEMS_THOROUGH = [["fixedarray", ["f64"], [2]], ["fixedarray", ["c32"], [1]], ["ndarray", ["f32"], 2, [1, 2]], ["vector", ["fixedarray", ["uint8"], [4]]],
                        ["map", ["uint8"], ["fixedarray", ["uint8"], [3]]], ["string", ["", "a", "abcdefg", "hé€xyz"]],
                        ["union", [None, ["fixedarray", ["int8"], [6]], ["string", ["", "abcdefgh"]]]]]


def c17_py_batching(prop="C17", tier="quick", seed=0, **kw):
    quick = tier != "thorough"
    nmax = 3 if quick else 4
    N = 16
    b = 60 if quick else 400
    modes = ["full"]   # arbitrary short-read schedules over multi-block streams explode (and only re-find C01's short-read finding)
    jobs = []
    items = BATCH_ITEMS[:4] if quick else BATCH_ITEMS
    for t in items:
        # every varint leaf multiplies the paths by its byte length: 2-byte-and-more leaves get one item less
        nm = nmax - 1 if t[0] in ("int16", "vector", "map", "union") else nmax
        for v in ("list", "generator", "iter", "tuple", "batches"):
            jobs.append(_job("h_batch_write", "batch.write:%s/%s" % (tname(t), v), b, t_item=t, N=N, nmax=nm, variant=v))
        for m in modes:
            jobs.append(_job("h_batch_read", "batch.read:%s:%s" % (tname(t), m), b, t_item=t, N=N, mode=m, nmax=nm))
    for t in (INDEP_ITEMS if quick else INDEP_ITEMS + INDEP_ITEMS_THOROUGH):
        big = t[0] == "fixedarray" and t[2][0] > N
        fixed_size = t[0] in ("fixedarray", "record") and not big     # every further variable-size item multiplies the shapes
        j = _job("h_item_indep", "indep:%s" % json.dumps(t)[:50], b, t_item=t, N=N, nmax=3 if (fixed_size and not quick) else 2)
        j["limits"]["budget_s"] = 3 * b     # 20-170 paths per job: the path count is the real bound, the clock only a safety net on a loaded machine
        jobs.append(j)
    expected = ["batch.write-no-exception", "batch.bytes==reference(partition)", "batch.read-no-exception", "batch.items==written",
                "batch.consumed==produced", "batch.items-are-fresh-objects", "indep.read-no-exception", "indep.item==written-when-returned",
                "indep.kept-items-unchanged-by-later-reads", "indep.items-share-no-memory-with-reader-buffer", "int80-exact"]
    bounds = {"buffer_size_N": [N], "items_max": "%d (%d for int16/vector/map/union items)" % (nmax, nmax - 1), "partitions": "every composition of n items (solver-chosen)", "refill_modes": modes, "job_budget_s": b,
              "item_independence": "2 (thorough: 3 for fixed-size item types) kept items of array / string / container types with symbolic content, reader offset symbolic, N symbolic trailing bytes read afterwards"}
    part = _run("c17_py_batching", prop, jobs, bounds, expected)
    _ref_lemmas(part)
    return part


def c15_py_header(prop="C15", tier="quick", seed=0, **kw):
    quick = tier != "thorough"
    b = 60 if quick else 300
    # refill mode 'full' only: robustness against short reads is C01's subject (it fails there, see
    # key ...:short-read-schedule) and would only repeat that finding here
    jobs = [_job("h_header_binary", "header.binary:full", b, mode="full"), _job("h_header_ndjson", "header.ndjson", b)]
    for j in jobs:
        j["limits"]["max_readinto"] = 80
    expected = ["header.accept-only-if-valid", "header.cursor==header-length", "header.schema-recorded", "header.refusal-is-RuntimeError",
                "header.refuse-only-if-invalid", "header.refused-before-any-step-byte", "ndjson-header.accept-only-if-valid",
                "ndjson-header.one-line-consumed", "ndjson-header.refusal-is-ValueError", "ndjson-header.refuse-only-if-invalid",
                "ndjson-header.refused-before-any-step-line"]
    bounds = {"header_prefix": "9 symbolic bytes (magic 5 + version 4)", "schemas": "{own, same-length variant differing in one field type, longer variant, empty}",
              "expected_schema": "{own, other, None, ''}", "buffer_size": 65536, "ndjson": "header object shape by forking (6 shapes), version symbolic int32, schema in {own, other, longer, missing}"}
    return _run("c15_py_header", prop, jobs, bounds, expected,
                extra_assume=["pysym C15/NDJSON: json.loads of the header line is stubbed (returns the solver-chosen object); natively the line is the JSON text of that object",
                              "pysym C15: schema strings are concrete (finite domain), the 9-byte prefix is fully symbolic"])


CONV_TYPES = [[k] for k in ("int8", "uint8", "int16", "uint16", "int32", "uint32", "int64", "uint64", "size", "bool", "float32", "float64",
                              "complexfloat32", "complexfloat64", "date", "time", "datetime")] + [
    ["string", ["", "a", "hé€"]],
    ["optional", ["int32"]], ["optional", ["string", ["", "x"]]], ["optional", ["bool"]],
    ["vector", ["int16"]], ["vector", ["optional", ["bool"]]], ["fixedvector", ["uint8"], 2],
    ["map", ["string", ["a", "b"]], ["int8"]], ["map", ["uint8"], ["bool"]], ["map", ["int16"], ["optional", ["uint8"]]],
    ["map", ["date"], ["int8"]], ["map", ["time"], ["bool"]], ["map", ["datetime"], ["int8"]],
    ["enum", ["int32"], [0, 1, 5]], ["enum", ["int32"], [3]], ["flags", [1, 2, 4]], ["flags", [0, 1, 8]],
    ["union", [["int32"], ["bool"]], True], ["union", [None, ["int32"], ["string", ["", "s"]]], True], ["union", [["int32"], ["float64"]], False],
    ["union", [None, ["bool"], ["vector", ["uint8"]]], False], ["union", [["string", ["a"]], ["vector", ["bool"]], ["uint8"]], True],
    ["optional", ["union", [["int8"], ["bool"]], False]], ["vector", ["union", [None, ["int8"], ["bool"]], True]],
]


def c02_py_converters(prop="C02", tier="quick", seed=0, **kw):
    quick = tier != "thorough"
    b = 60 if quick else 300
    maxlen = 2 if quick else 3
    jobs = [_job("h_conv", "conv:%s" % json.dumps(t, ensure_ascii=True)[:60], b, t=t, maxlen=maxlen) for t in CONV_TYPES]
    jobs.append(_job("h_json_kinds", "json_kinds", b))
    for pat in (("VSV", "VSSV", "SSS") if quick else ("VSV", "VSSV", "SSS", "SSV", "VSVS", "VSSSV")):
        jobs.append(_job("h_ndjson_lines", "lines:" + pat, b, nmax=2 if quick or len(pat) > 4 else 3, pattern=pat))
    expected = ["conv.to_json-no-unexpected-exception", "conv.range-error-only-if-out-of-range", "conv.out-of-range-is-rejected",
                "conv.from_json-no-exception", "conv.from_json(to_json(v))==v", "conv.tagged-nullable-union-reads-both-null-forms", "conv.json-kinds-extracted", "conv.kind-table-matches-runtime", "conv.map-kind==object-iff-string-key",
                "lines.no-exception", "lines.values==written", "lines.all-lines-consumed-once"]
    bounds = {"container_len_max": maxlen, "int_leaf_domain": "[-2^64, 2^65]", "enum_members": "<= 3", "floats/dates/flags": "concrete pools",
              "json text": "object level through the JSON data model (dumps/loads applied to concrete leaves only)"}
    part = _run("c02_py_converters", prop, jobs, bounds, expected,
                extra_assume=["pysym C02: json.loads of protocol lines is stubbed in the _read_json_line harness (object chosen by the solver); natively real JSON text is parsed"])
    # JSON kind per primitive converter, extracted by running the real to_json (consumed by the gosym union-tag check)
    from harness.py import kernels as HK
    mods = E.load_modules()
    nat = E.NatEnv(mods, {})
    try:
        part["json_kinds"] = HK.h_json_kinds(nat)
    except Exception as e:
        part["json_kinds"] = {}
        part["inconclusive"].append("json_kinds extraction failed: %r" % (e,))
    return part


FUNCS = {"c01_py_kernels": c01_py_kernels, "c03_py_capacity": c03_py_capacity, "c16_py_truncation": c16_py_truncation, "c17_py_batching": c17_py_batching, "c15_py_header": c15_py_header, "c02_py_converters": c02_py_converters}


def main():
    name = sys.argv[1]
    tier = sys.argv[2] if len(sys.argv) > 2 else "quick"
    prop = {"c01": "C01", "c03": "C03", "c16": "C16", "c17": "C17", "c15": "C15", "c02": "C02"}[name[:3]]
    res = FUNCS[name](prop=prop, tier=tier, seed=int(os.environ.get("VERIF_SEED", "0")))
    print(json.dumps(res, indent=1, default=str))


if __name__ == "__main__":
    main()
