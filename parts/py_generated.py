"""pysym parts for the generated-Python stage: yardl is built from the current tree, run on the model
family under /verif/models/, and the generated package is executed symbolically.

    python3-vt /verif/parts/py_generated.py c07_py_protocols quick
"""
import itertools, json, os, sys, time

VERIF = os.path.dirname(os.path.dirname(os.path.abspath(__file__)))
if VERIF not in sys.path:
    sys.path.insert(0, VERIF)
from lib import vcommon
from engine.pysym import env as E
from parts import py_kernels as PK

G = "harness.py.generated:"
NPROC = PK.NPROC

GEN_STUBS = [
    "pysym/generated: abstract hooks (_write_*, _read_*, _close, _end_stream) of the generated base classes are recording stubs; everything else is the generated code",
]
GEN_ASSUME = [
    "pysym/generated: yardl built from $VERIF_REPO/tooling (current working tree) and run on a temporary copy of /verif/models/<name>; host-language composition (Python call semantics) trusted",
]


def _job(h, label, budget, **params):
    j = PK._job(h, label, budget, **params)
    j["harness"] = G + h
    return j


def _run(name, prop, jobs, bounds, expected, models, extra_assume=()):
    t0 = time.time()
    part = vcommon.new_part(name, "pysym")
    part["bounds"] = bounds
    part["stubs"] = PK.STUBS + GEN_STUBS
    part["assumptions"] = PK.ASSUME + GEN_ASSUME + list(extra_assume)
    try:
        from harness.py import generated as HG
        HG.prepare(models)            # in the parent: forked workers inherit the imported packages
    except Exception as e:
        part["inconclusive"].append("generation stage failed: %r" % (e,))
        part["wall_s"] = round(time.time() - t0, 2)
        return part
    part["bounds"]["generate_s"] = round(time.time() - t0, 2)
    results = E.run_jobs(jobs, NPROC)
    E.merge(part, results, prop, expected)
    part["jobs"] = [{"label": r.get("label"), "paths": r.get("paths"), "queries": r.get("queries"), "wall_s": round(r.get("wall_s", 0), 1),
                     "outcomes": r.get("outcomes")} for r in results]
    part["wall_s"] = round(time.time() - t0, 2)
    return part


def _pjob(h, label, budget, **params):
    j = _job(h, label, budget, **params)
    j["harness"] = "harness.py.genproto:" + h
    j["limits"]["max_readinto"] = 200
    j["limits"]["max_decisions"] = 2000
    return j


def c07_py_protocols(prop="C07", tier="quick", seed=0, **kw):
    quick = tier != "thorough"
    nmax = 3 if quick else 4
    b = 60 if quick else 300
    jobs = []
    pats = ["".join(p) for n in range(1, nmax + 1) for p in itertools.product("VS", repeat=n)]
    for p in pats:
        jobs.append(_job("h_c07_base", "c07.base:P" + p, b, pattern=p))
        jobs.append(_job("h_c07_writer", "c07.writer:P" + p, b, pattern=p))
        jobs.append(_job("h_c07_reader", "c07.reader:P" + p, b, pattern=p))
        if "S" in p:
            jobs.append(_job("h_c07_reader_iter", "c07.reader-iter:P" + p, b, pattern=p))
    # the concrete generated classes (runtime base class + generated base class by multiple inheritance): the same one-step simulation
    # on Binary<P>Writer / Reader and NDJson<P>Writer / Reader, and write calls whose implementation raises (harness/py/genproto.py)
    for p in pats:
        for fmt in ("binary", "ndjson"):
            for role in ("writer", "reader"):
                jobs.append(_pjob("h_c07_concrete", "c07.concrete:%s:%s:P%s" % (fmt, role, p), b, pattern=p, fmt=fmt, role=role))
        if "S" in p[:-1]:
            jobs.append(_pjob("h_c07_binary_failure", "c07.binary-failure:P" + p, b, pattern=p))
    expected = ["c07.writer-implementation-error-propagates", "c07.writer-state-after-failed-write",
                "c07.concrete-constructed", "c07.concrete-call-accepted-only-in-order", "c07.concrete-post-state-related", "c07.concrete-rejection-is-ProtocolError",
                "c07.concrete-call-rejected-only-out-of-order", "c07.concrete-rejected-call-has-no-effect", "c07.concrete-close-succeeds-only-if-complete",
                "c07.concrete-close-fails-only-if-incomplete",
                "c07.failing-write-raises-the-implementation-error", "c07.ended-stream-cannot-be-written-again", "c07.close-after-failed-write-is-rejected",
                "c07.bytes-after-failure==reference-prefix", "c07.retry-after-failed-write-is-accepted", "c07.bytes-after-failure==reference",
                "c07.writer-init-is-initial-state", "c07.reader-init-is-initial-state", "c07.schemas-agree",
                "c07.writer-accepts-only-in-order", "c07.writer-hooks-as-specified", "c07.writer-value-passed-unchanged", "c07.writer-post-state-related",
                "c07.writer-rejection-is-ProtocolError", "c07.writer-rejects-only-out-of-order", "c07.writer-rejected-call-has-no-effect",
                "c07.writer-close-hooks-as-specified", "c07.writer-close-succeeds-only-if-complete", "c07.writer-close-fails-only-if-incomplete",
                "c07.writer-exit-with-pending-exception-never-raises",
                "c07.reader-accepts-only-in-order", "c07.reader-hooks-as-specified", "c07.reader-post-state-related", "c07.reader-value-passed-unchanged",
                "c07.reader-rejection-is-ProtocolError", "c07.reader-rejects-only-out-of-order", "c07.reader-rejected-call-has-no-effect",
                "c07.reader-close-hooks-as-specified", "c07.reader-close-succeeds-only-if-complete", "c07.reader-close-fails-only-if-incomplete",
                "c07.iter-obtained-state-is-open", "c07.iter-items-passed-unchanged", "c07.iter-exhaustion-completes-the-step",
                "c07.iter-exhausted-iterable-stays-exhausted", "c07.iter-partial-consumption-keeps-step-open", "c07.iter-open-stream-blocks-other-calls",
                "c07.iter-unconsumed-iterable-fails-close"]
    bounds = {"protocol_length": "1..%d, every stream/non-stream pattern (%d protocols)" % (nmax, len(pats)), "payload": "int32, symbolic",
              "pre_state": "symbolic _state in [-3, 2n+4] constrained to the simulation relation _state == 2*i + open",
              "argument": "base case + one inductive step per public method and per iterable event (covers call histories of any length)",
              "implementation failures": "event `_write_<step> raises` in the inductive step (post-state = step not written, a stream in progress before it ended for good); on the real "
                                         "Binary<P>Writer: out-of-range value / caller's iterable raising after 0-1 items, then retry | write to the ended stream | close, then the rest of the protocol",
              "concrete classes": "Binary / NDJson x Writer / Reader of every pattern: constructor, then a symbolic related _state, then one public call (write / read / close / __exit__)"}
    return _run("c07_py_protocols", prop, jobs, bounds, expected, ["c07seq"],
                extra_assume=["C07 failed writes: when the implementation of an accepted write_<step k> raises, step k counts as not written; a stream in progress before step k was ended by the call "
                              "(its end marker is emitted before the implementation is entered) and stays ended","C07 specification automaton: a stream step counts as written after >= 1 write call (possibly empty) and is ended by the next step's call or by close; "
                              "_close runs on every close (also when the protocol is incomplete); calls after close are not constrained",
                              "C07 reader: pre-states with an open iterable are constructed through read_<step> from the related state (i, not open)"])


def c17_py_protocol_batches(prop="C17", tier="quick", seed=0, **kw):
    """C17 through the generated Binary<P>Writer / Reader: how the items of a stream step are grouped into write calls never shows
    in the items read back - in particular for a stream step that directly follows (or precedes) another stream step."""
    quick = tier != "thorough"
    b = 60 if quick else 300
    nmax = 3 if quick else 4
    pats = ["".join(p) for n in range(1, nmax + 1) for p in itertools.product("VS", repeat=n) if "S" in p]
    if quick:
        pats = [p for p in pats if len(p) < 3 or "SS" in p or p in ("SVS", "VSV")]
    jobs = [_pjob("h_c17_gen_batches", "c17.gen-batches:P" + p, b, pattern=p, nmax=2 if quick else 3) for p in pats]
    expected = ["c17.gen-write-no-exception", "c17.gen-bytes==reference(grouping)", "c17.gen-read-no-exception", "c17.gen-items-read==items-written", "c17.gen-whole-stream-consumed", "int80-exact"]
    bounds = {"protocols": pats, "focus": "one stream step (solver-chosen) with 0..%d items in every grouping into write calls (lists / generators / alternating, optional empty call in front or after the "
                                          "first group); every other stream step one item in one call" % (2 if quick else 3),
              "items": "int32, symbolic in [-64, 63] (one varint length class; the integer codecs are C01's subject)", "buffer_size": 65536}
    return _run("c17_py_protocol_batches", prop, jobs, bounds, expected, ["c07seq"],
                extra_assume=["C17 generated: block structure of the reference encoding: a non-empty list passed to write_<step> = one block, any other iterable = one block per item, an empty call = nothing; "
                              "one end marker per stream step, emitted before the next step's first byte / at close"])


SCHEMA_EDIT_PROTOS = ["PEnum", "PRecord", "PUnion", "PArray", "PStream", "PMap", "PVector"]


def c15_py_schema_edits(prop="C15", tier="quick", seed=0, **kw):
    """C15 on the generated readers: a header whose schema is the reader's own schema after one edit of the JSON document is refused"""
    quick = tier != "thorough"
    b = 60 if quick else 300
    from harness.py import generated as HG
    protos = SCHEMA_EDIT_PROTOS[:5] if quick else sorted(HG.C01_PROTOS)
    jobs = []
    for p in protos:
        for fmt in ("ndjson", "binary"):
            j = _pjob("h_schema_edits", "schema-edits:%s:%s" % (fmt, p), b, proto=p, fmt=fmt)
            j["limits"]["max_paths"] = 40000
            jobs.append(j)
    expected = ["schema-edit.accepted-only-if-schema-equal", "schema-edit.only-the-header-consumed", "schema-edit.refusal-is-the-documented-error", "schema-edit.refused-only-if-schema-differs"]
    bounds = {"protocols": protos, "readers": "generated NDJson<P>Reader and Binary<P>Reader constructors (model family c01types)",
              "edits": "the reader's own schema document unedited or after ONE solver-chosen edit: every array at every depth: drop last / drop first / append a new element / duplicate the last / swap two "
                       "neighbours; every object: add / rename / drop a member; every scalar: integers -> a symbolic 32-bit integer (NDJSON) or a pool, strings -> 4 variants, null -> empty values of other kinds",
              "not required": "type-changing edits between JSON-number-like values that Python's == identifies (1 / true / 1.0) are not generated"}
    return _run("c15_py_schema_edits", prop, jobs, bounds, expected, ["c01types"],
                extra_assume=["C15 schema edits / NDJSON: json.loads of the header line is stubbed under pysym (returns the edited document, integer leaves symbolic); natively the line is the JSON text of that document",
                              "C15 schema edits oracle: NDJSON reader accepts iff the header schema is JSON-equal to its own (objects unordered, arrays ordered and of equal length); binary reader iff the schema text is identical"])


def c19_py_computed(prop="C19", tier="quick", seed=0, **kw):
    quick = tier != "thorough"
    b = 60 if quick else 300
    from harness.py import generated as HG
    recs = ["RecI32", "RecU8"] if quick else ["RecI32", "RecI64", "RecU8", "RecI16"]
    jobs = []
    for rec in recs:
        for f in HG.INT_FIELDS:
            jobs.append(_job("h_c19_int", "c19:%s.%s" % (rec, f), b, rec=rec, field=f))
        for f in ("fsum", "fquot", "fnest", "pw", "sz") + (("mixed",) if rec != "RecI64" else ()):
            jobs.append(_job("h_c19_float", "c19:%s.%s" % (rec, f), b, rec=rec, field=f))
    # all 2 x 25 nestings of two binary operators + 15 unary-minus placements (harness/py/c19shapes.py)
    from harness.py import c19shapes as SH
    srecs = ["Sh3I32", "Sh3U8", SH.FLOAT_RECORD] if quick else ["Sh3I32", "Sh3I64", "Sh3U8", "Sh3I16", SH.FLOAT_RECORD]
    for rec in srecs:
        for f, (text, tree) in SH.shapes().items():
            if (rec, f) in HG.SH_EXCLUDED or not SH.valid_for(rec, tree):
                continue
            if quick and rec == SH.FLOAT_RECORD and f.startswith("l_") and f != "l_pow_pow":
                continue     # left-nested float shapes are emitted without parentheses by construction of Python's grammar: thorough tier
            jobs.append(_job("h_c19_shape", "c19:%s.%s" % (rec, f), b, rec=rec, field=f))
    # numpy operands: elements of array fields (and scalar fields holding numpy scalars) have numpy's fixed-width arithmetic
    # (harness/py/c19numpy.py, model models/c19computed/npelems.yml, numpy model engine/pysym/npmodel.py)
    from harness.py import c19numpy as CN
    nrecs = ["NpI8", "NpU8", "NpU16", "NpI32"] if quick else list(CN.NP_RECS)

    def njob(h, label, **params):
        j = _job(h, label, b, **params)
        j["harness"] = "harness.py.c19numpy:" + h
        return j
    from harness.py import generated as _HG
    try:
        _HG.prepare(["c19computed"])      # the generated classes tell which operator / element type combinations the model has
        gtypes = _HG._GEN["c19computed"]["nat"].types
    except Exception:
        gtypes, nrecs = None, []          # _run below reports the failed generation stage
    for rec in nrecs:
        for f in CN.NP_FIELDS:
            if not hasattr(getattr(gtypes, rec), f):
                continue          # operator without a common type for this element type (not in the model)
            jobs.append(njob("h_c19_np", "c19np:%s.%s" % (rec, f), rec=rec, field=f))
            if f in CN.USES_SCALARS:
                jobs.append(njob("h_c19_np", "c19np:%s.%s/np-scalars" % (rec, f), rec=rec, field=f, scalars="np"))
        if hasattr(getattr(gtypes, rec), "elem_times_double"):
            jobs.append(njob("h_c19_np_float", "c19np:%s.elem_times_double" % rec, rec=rec))
    for rec in recs:
        for f in HG.INT_FIELDS:
            if quick and rec in ("RecI32", "RecI64") and ("mul" in f or f == "prod"):
                continue      # deciding whether a 32 x 32-bit product overflows costs 5-15 s per query: thorough tier (RecU8 and the Np* records keep the products)
            jobs.append(njob("h_c19_int_np", "c19np:%s.%s" % (rec, f), rec=rec, field=f))
    # fields of ELEMENTS of arrays of records: numpy structured arrays, whose elements are numpy.void values
    # (harness/py/c19recarr.py, model models/c19computed/recelems.yml, numpy model npmodel.RecVal)
    from harness.py import c19recarr as CR
    rfields = list(CR.FIELDS) if gtypes is not None else []       # (a fraction of a second per field: all of them in both tiers)
    for f in rfields:
        j = _job("h_c19_recelem", "c19rec:%s.%s" % (CR.OUTER, f), b, field=f)
        j["harness"] = "harness.py.c19recarr:h_c19_recelem"
        jobs.append(j)
    for j in jobs:
        if "xcheck_every" in j["limits"]:
            j["limits"]["xcheck_every"] = 2     # few queries per job here: cross-check every second one
    expected = ["computed.record-array-element-field==mathematical-value", "computed.no-exception-for-in-range-operands", "computed.int-division==truncated-quotient", "computed.int-expression==mathematical-value",
                "computed.float-expression==ieee-value", "computed.size==length", "computed.nested-expression==value-of-the-expression-tree",
                "computed.numpy-operands==mathematical-value"]
    bounds = {"records": recs, "integer_operands": "symbolic over the full range of the field type (int64 products: |a|,|b| <= 2^38)",
              "floats": "concrete pool %s x itself" % HG.FPOOL, "pow/mixed integer operands": "concrete pool %s" % HG.IPOOL,
              "nested shapes": "(a op1 b) op2 c and a op2 (b op1 c) for all op1, op2 in {+,-,*,/,**}, unary minus on either operand / on the result; records %s; "
                               "power-free integer shapes: a, b, c symbolic over the field type (|operand| <= 2^38 / 2^24 with one / two products), divisions restricted to non-zero divisors and to "
                               "non-negative dividends (where // and C++ / agree); power and floating-point shapes: operands from pools %s / %s / %s decided by forking" % (
                                   srecs, HG.SH_IPOOL, HG.SH_UPOOL, HG.SH_FPOOL),
              "in-range": "exact value and every parenthesised intermediate inside the static result type given by the generated return annotation; divisors non-zero",
              "numpy operands": "records %s: computed fields over elements of T[] / T[3] / T[r:2, c:2] array fields (numpy scalars of the element type; 2-d array in C / Fortran / transposed layout), vector elements, "
                                "and int64 / uint64 / int32 / T scalar fields holding Python ints or numpy scalars; operands symbolic over their whole type (operands of a product: |v| <= 2^38); "
                                "element division restricted to non-negative dividend / positive divisor; array element x float64 from pools; "
                                "records %s also with numpy scalars in the fields a, b" % (nrecs, recs),
              "fields of record-array elements": "record RaOuter, computed fields %s: member access (also through a nested record field) on elements of Rec[] / Rec[2] / Rec[,] / Rec[x, y] / "
                                                 "Rec[r:2, c:2] / alias of Rec[] / (alias of Rec)[] given as numpy structured arrays of get_dtype(Rec) with 2 / 2 x 2 elements (2-d: C / Fortran / "
                                                 "transposed layout), and on elements of Rec* (lists of generated-class instances); int32 / uint8 / int16 fields symbolic over their whole type, "
                                                 "the float64 field read by an expression from the pool %s; no record field named like an attribute of numpy.void" % (rfields, CR.FPOOL)}
    part = _run("c19_py_computed", prop, jobs, bounds, expected, ["c19computed"],
                extra_assume=["C19 oracle: mathematical value of the model expression; integer division truncates toward zero (C++ semantics); float operators are IEEE double operations",
                              "C19 numpy operands: numpy integer scalars are modelled (engine/pysym/npmodel.py NpInt: result dtype by np.result_type, + - * wrap modulo 2^bits, Python-int operands are "
                              "converted to the numpy operand's dtype or raise OverflowError, // floors with x // 0 == 0); the model is compared with real numpy on concrete values (lemma below) and "
                              "by the native replay of every path",
                              "C19 record arrays: an array of records reaches the generated Python as a numpy array with the structured dtype get_dtype(Rec) of the generated types.py (what the "
                              "generated readers produce); its elements are modelled by npmodel.RecVal = numpy.void (fields by [\"name\"] only, no field attributes; structured fields nest); "
                              "the model is compared with real numpy on concrete values (lemma) and by the observations of every path's native replay"])
    _np_lemma(part, 4 if quick else 1)
    _void_lemma(part)
    return part


def _void_lemma(part):
    """npmodel.RecVal (elements of structured arrays) against numpy.void on concrete values (no code under test involved)"""
    from harness.py import c19recarr as CR
    t0 = time.time()
    n, bad = CR.void_model_lemma()
    part["obligations"].append({"id": "numpy.lemma void-model==numpy", "paths": 1, "queries": 0, "unsat": 0, "sat": 0, "unknown": 0, "concrete_cases": n,
                                "status": "holds" if not bad else "inconclusive",
                                "note": "element of a 1-d / 2-d structured array (flat and nested dtype): [\"field\"], [\"unknown\"], [0], len, getattr / hasattr of field names give what numpy %s gives "
                                        "(values, dtypes, exception classes)" % __import__("numpy").__version__})
    for m in bad[:5]:
        part["inconclusive"].append("numpy.void model differs from numpy: " + m)
    part["wall_s"] = round(part["wall_s"] + time.time() - t0, 2)


def _np_lemma(part, stride):
    """the numpy integer scalar model against real numpy on concrete operands (no code under test involved)"""
    from engine.pysym import npmodel
    t0 = time.time()
    rep = {}
    bad = npmodel.selftest(rep, stride)
    ob = {"id": "numpy.lemma scalar-model==numpy", "paths": 1, "queries": 0, "unsat": 0, "sat": 0, "unknown": 0, "concrete_cases": rep.get("cases", 0),
          "status": "holds" if not bad else "inconclusive",
          "note": "NpInt evaluated on concrete operands equals numpy %s: 8-bit types pairwise (every %s left operand) for + - * // %% and comparisons, mixed widths, Python-int operands in and out of range, unary operators, scalar constructors" % (
              __import__("numpy").__version__, "single" if stride == 1 else "%d-th" % stride)}
    part["obligations"].append(ob)
    for m in bad[:5]:
        part["inconclusive"].append("numpy scalar model differs from numpy: " + m)
    part["wall_s"] = round(part["wall_s"] + time.time() - t0, 2)


def c01_py_generated(prop="C01", tier="quick", seed=0, **kw):
    quick = tier != "thorough"
    b = 60 if quick else 400
    maxlen = 2
    from harness.py import generated as HG
    jobs = []
    for p in HG.C01_PROTOS:
        modes = ["list", "generator"] if p == "PStream" else ["list"]
        for sm in modes:
            jobs.append(_job("h_c01_gen_write", "gen.write:%s%s" % (p, "" if sm == "list" else "/" + sm), b, proto=p, maxlen=maxlen, stream_mode=sm))
            if p != "PArray":
                jobs.append(_job("h_c01_gen_read", "gen.read:%s%s" % (p, "" if sm == "list" else "/" + sm), b, proto=p, maxlen=maxlen, stream_mode=sm))
    for j in jobs:
        j["limits"]["max_readinto"] = 200
        j["limits"]["max_decisions"] = 2000
    expected = ["gen.write-no-exception", "gen.bytes==header+reference-encoding", "gen.read-no-exception", "gen.read==written", "gen.whole-stream-consumed", "int80-exact"]
    bounds = {"protocols": sorted(HG.C01_PROTOS), "container_len_max": maxlen, "buffer_size": 65536, "int_leaves": "symbolic over the full range of their type",
              "strings/flags/ndarray": "concrete pools", "floats": "opaque symbolic IEEE payloads"}
    return _run("c01_py_generated", prop, jobs, bounds, expected, ["c01types"],
                extra_assume=["C01 generated: writer starts from the fresh state of the generated constructor (offset 0, 64 KiB buffer); arbitrary buffer offsets are the kernel part's subject",
                              "C01 generated: values are in range (range rejection is covered by c01_py_kernels)"])


FUNCS = {"c07_py_protocols": c07_py_protocols, "c15_py_schema_edits": c15_py_schema_edits, "c17_py_protocol_batches": c17_py_protocol_batches, "c19_py_computed": c19_py_computed, "c01_py_generated": c01_py_generated}


def main():
    name = sys.argv[1]
    tier = sys.argv[2] if len(sys.argv) > 2 else "quick"
    prop = "C" + name[1:3]
    res = FUNCS[name](prop=prop, tier=tier, seed=int(os.environ.get("VERIF_SEED", "0")))
    print(json.dumps(res, indent=1, default=str))


if __name__ == "__main__":
    main()
