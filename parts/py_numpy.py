"""pysym parts around numpy objects: stream block headers with a symbolic 64-bit block length, and the n-d array
serializers on arrays with every memory layout (logical arrays with an explicit layout: engine/pysym/npmodel.py).

    python3-vt /verif/parts/py_numpy.py c03_py_array_layouts quick
"""
import json, os, sys, time

VERIF = os.path.dirname(os.path.dirname(os.path.abspath(__file__)))
if VERIF not in sys.path:
    sys.path.insert(0, VERIF)
from parts import py_kernels as PK

H = "harness.py.npkernels:"
NP_STUBS = [
    "pysym/numpy: an array with a structured dtype is a logical array whose elements are field-value lists; its memory image places every field at the dtype's offset, padding bytes 0 "
    "(natively np.zeros + field-wise assignment); np.ndarray(shape, structured dtype) yields such an array, element assignment takes a tuple",
    "pysym/numpy: arrays handed to the writers are logical arrays with an explicit memory layout (strides), implementing shape / flat / ravel(order) / flags / tobytes / data as numpy defines them; "
    "np.ndarray(shape, dtype) and np.int16(x) etc. on symbolic values yield such arrays / numpy integer scalars; natively the real numpy objects run, and every path's observations "
    "(flags, strides, all four ravel orders, flat, tobytes, data, indexing) are compared with what real numpy returned",
]


def _job(h, label, budget, **params):
    j = PK._job(h, label, budget, **params)
    j["harness"] = H + h
    return j


def _run(name, prop, jobs, bounds, expected, extra_assume=()):
    t0 = time.time()
    part = PK._run(name, prop, jobs, bounds, expected, extra_assume)
    part["stubs"] = PK.STUBS + NP_STUBS
    part["wall_s"] = round(time.time() - t0, 2)
    return part


BLOCK_ITEMS = [["uint8"], ["int16"], ["optional", ["uint8"]], ["vector", ["uint8"]]]


def c17_py_block_headers(prop="C17", tier="quick", seed=0, **kw):
    quick = tier != "thorough"
    b = 60 if quick else 400
    N = 16
    jobs = []
    for t in (BLOCK_ITEMS[:3] if quick else BLOCK_ITEMS):
        narrow = t == ["uint8"]
        for k in ((2,) if quick and not narrow else (2, 3)):
            if quick and t == ["int16"]:
                continue      # 3 item-length classes x 10 header lengths x refill points = 1300 paths: thorough tier (the write side stays)
            jobs.append(_job("h_block_header_read", "blockhdr.read:%s:k%d" % (PK.tname(t), k), b, t_item=t, N=N, k=k))
        jobs.append(_job("h_block_header_write", "blockhdr.write:%s" % PK.tname(t), b, t_item=t, N=N, k=2 if quick else 3))
    for j in jobs:
        j["limits"]["budget_s"] = 3 * b      # path counts are the bound (10 header lengths x refill points); the clock is a safety net
    expected = ["blockhdr.read-no-exception", "blockhdr.items==written", "blockhdr.consumed==produced", "blockhdr.write-no-exception",
                "blockhdr.writer-asks-for-every-item", "blockhdr.bytes==varint(n)+items", "int80-exact"]
    bounds = {"buffer_size_N": [N], "block_length": "read: symbolic 1 <= L < 2^64 (header = reference varint of 1..10 bytes); write: symbolic list length 0 <= n < 2^63 (CPython's bound on len())",
              "items_looked_at": "the first min(L, k) items, k = 2 (3); when L <= k the whole block and the end-of-stream marker",
              "item_types": [PK.tname(t) for t in BLOCK_ITEMS], "reader_offset": "symbolic 0..N", "job_budget_s": b}
    return _run("c17_py_block_headers", prop, jobs, bounds, expected,
                extra_assume=["block headers: a list of symbolic length is a list subclass whose len() is the symbolic n and whose iterator raises after the items that exist; "
                              "the obligation is on the bytes written up to that point (header = varint(n), then the items in order)"])


ARR_KINDS = ["fixedarray", "ndarray", "dynarray"]


def _arr_jobs(quick, b, N):
    jobs = []
    L2 = ["C", "F", "T", "S"]
    L3 = ["C", "F", ["perm", [1, 0, 2]], ["perm", [0, 2, 1]], ["perm", [1, 2, 0]], "S"]

    def add(kind, elem, shape, layouts, classes=1):
        lab = "%s<%s>%s" % (kind, elem, "x".join(map(str, shape)))
        jobs.append(_job("h_array_write_any_layout", "array.write:" + lab, b, kind=kind, elem=elem, shape=list(shape), layouts=layouts, N=N, classes=classes))

    def add_read(kind, elem, shape, classes=1):
        lab = "%s<%s>%s" % (kind, elem, "x".join(map(str, shape)))
        jobs.append(_job("h_array_read", "array.read:" + lab, b, kind=kind, elem=elem, shape=list(shape), N=N, classes=classes))

    for kind in ARR_KINDS:
        for elem in ("int8", "int16"):
            cl = 2 if (elem == "int16" and (kind == "ndarray" or not quick)) else 1
            add(kind, elem, (2, 2), L2, cl)
            add_read(kind, elem, (2, 2), cl)
    for elem in ("uint8", "f32", "f64", "c32", "uint16", "int32", "uint32", "int64", "uint64", "size", "bool"):
        add("ndarray", elem, (2, 3), L2)
        if elem != "bool":
            add_read("ndarray", elem, (2, 3))
    for elem in ("int8", "int32"):
        add("dynarray", elem, (2, 2, 2), L3)
        add("fixedarray", elem, (2, 1, 2), L3)
    add("dynarray", "uint16", (3,), ["C", "F", "T", "S"])
    if not quick:
        for kind in ARR_KINDS:
            for elem in ("c64", "int64", "uint32", "f32"):
                add(kind, elem, (3, 2), L2)
                add_read(kind, elem, (3, 2))
            add(kind, "uint32", (2, 2), L2, 3)
            add_read(kind, "int64", (2, 2), 3)
            add(kind, "int16", (1, 3), L2, 2)
            add(kind, "uint8", (3, 1), L2)
            add(kind, "int16", (2, 3, 2), L3)
    # arrays of records (structured dtypes): the field types are chosen by the solver, so aligned dtypes with and without padding occur
    from harness.py import npkernels as NK
    pool2 = NK.REC_PRIMS[:4] if quick else NK.REC_PRIMS
    for kind in ARR_KINDS:
        jobs.append(_job("h_record_array_write", "record-array.write:%s:2-fields" % kind, b, kind=kind, pool=(pool2 if kind == "ndarray" else NK.REC_PRIMS[:2]) if quick else pool2, nfields=2,
                         shape=[2, 2] if kind == "ndarray" else [2], layouts=["C", "F", "T"] if kind == "ndarray" else ["C"], N=N))
        jobs.append(_job("h_record_array_read", "record-array.read:%s:2-fields" % kind, b, kind=kind, pool=(pool2 if kind == "ndarray" else NK.REC_PRIMS[:2]) if quick else pool2, nfields=2,
                         shape=[2] if kind != "fixedarray" else [1, 2], N=N))
    jobs.append(_job("h_record_array_write", "record-array.write:ndarray:3-fields", b, kind="ndarray", pool=NK.REC_PRIMS[:2] if quick else NK.REC_PRIMS[:4], nfields=3, shape=[2], layouts=["C"], N=N))
    jobs.append(_job("h_record_array_read", "record-array.read:ndarray:3-fields", b, kind="ndarray", pool=NK.REC_PRIMS[:2] if quick else NK.REC_PRIMS[:4], nfields=3, shape=[2], N=N))
    if quick:
        jobs.append(_job("h_record_array_write", "record-array.write:dynarray:mixed", b, kind="dynarray", pool=["uint8", "int16", "bool", "f64"], nfields=2, shape=[2], layouts=["C"], N=N))
        jobs.append(_job("h_record_array_read", "record-array.read:dynarray:mixed", b, kind="dynarray", pool=["uint8", "int16", "bool", "f64"], nfields=2, shape=[2], N=N))
    return jobs


def c03_py_array_layouts(prop="C03", tier="quick", seed=0, **kw):
    quick = tier != "thorough"
    b = 60 if quick else 400
    N = 16
    jobs = _arr_jobs(quick, b, N)
    for j in jobs:
        j["limits"]["budget_s"] = 3 * b
        j["limits"]["max_decisions"] = 1000
    expected = ["array.write-no-exception", "array.bytes==row-major-reference", "array.read-no-exception", "array.read==written", "array.consumed==produced",
                "array.shares-no-memory-with-reader-buffer", "int80-exact",
                "record-array.write-no-exception", "record-array.bytes==field-by-field-reference", "record-array.read-no-exception", "record-array.read==written",
                "record-array.consumed==produced", "record-array.shares-no-memory-with-reader-buffer"]
    bounds = {"buffer_size_N": [N], "serializers": ARR_KINDS,
              "arrays of records": "records of 2-3 fields, each field's type chosen by the solver from uint8 / float64 / int8 / float32 (thorough: + int16, bool): aligned numpy dtypes with interior "
                                   "padding, trailing padding and without padding; arrays handed over with the aligned or the packed dtype, shapes 2 / 2x2 / 1x2, layouts C / Fortran / transposed; symbolic field values", "shapes": "2x2, 2x3, 2x2x2, 2x1x2, 3 (thorough: + 3x2, 1x3, 3x1, 2x3x2)",
              "layouts": "C order, Fortran order (np.asfortranarray), transposed view of a C-ordered array, axis-permuted views of a 3-d array, every-second-element slice (strided, not permuted); chosen by the solver",
              "elements": "symbolic: int8/uint8/float32/float64/complex64 (bulk path when C-contiguous, element-wise otherwise), bool and the varint-encoded integer types (element-wise); "
                          "varint-encoded elements range over the values with <= 1 (2) encoding bytes", "job_budget_s": b}
    return _run("c03_py_array_layouts", prop, jobs, bounds, expected)


FUNCS = {"c17_py_block_headers": c17_py_block_headers, "c03_py_array_layouts": c03_py_array_layouts}


def main():
    name = sys.argv[1]
    tier = sys.argv[2] if len(sys.argv) > 2 else "quick"
    res = FUNCS[name](prop="C" + name[1:3], tier=tier, seed=int(os.environ.get("VERIF_SEED", "0")))
    print(json.dumps(res, indent=1, default=str))


if __name__ == "__main__":
    main()
