"""llsym drivers for serializers.h ReadBlock / ReadBlocksIntoVector (C17) and header.h ReadHeader (C15),
compiled at -O0 behind harness/cc/stubinc/yardl.h.

C17 argument (one-call inductive step).  The stream bytes are free symbolic values; a bounded reference
block parser written over z3 terms (ref_parse: transcription of "Streams" in docs/reference/binary.md)
defines, from the reader position and current_block_remaining_, the remaining items and every parser
state.  One call of the real function from ANY such state must deliver exactly the next
d = min(capacity, remaining items) items and leave (position, current_block_remaining_) equal to the
reference parser's state after d items (with the next block length read eagerly, as the C++ does).  The
post-state is again a state of the same reference parse, so the concatenation of the batches of any
sequence of calls equals the written items, for every block partition.
"""
import os
import re
import sys
import time

VERIF = os.path.dirname(os.path.dirname(os.path.abspath(__file__)))
for p in (VERIF, os.path.join(VERIF, "engine")):
    if p not in sys.path:
        sys.path.insert(0, p)

import z3  # noqa: E402

from lib import vcommon  # noqa: E402
from llsym import ir, core, stubs, build  # noqa: E402
from llsym.core import Obj, Ptr, bv, simp, is_c  # noqa: E402
from parts import cc_common as C  # noqa: E402
from parts.cc_common import BV64, PT, Tally, mval, reader_state, reader_post, reader_inv, reader_script  # noqa: E402
from spec import refcodec  # noqa: E402

MAX_ITEMS = 4
OPS = {
    'ReadBlock_u32': ('h_ReadBlock_u32', 'u32'),
    'RBIV_u8': ('h_RBIV_u8', 'u8'),
    'RBIV_u32': ('h_RBIV_u32', 'u32'),
}


def ref_parse(L, r0, T, kind, maxib, steps, MAX_ITEMS=MAX_ITEMS):
    """Reference block-stream parser (byte-level state machine, so that byte t of the logical input is
    read at step t) from a state with r0 items left in the current block.  Returns (items[4], total,
    states, wf); states[t] = (pos=t, cbr, done, cnt, at_item_end) describes the parse after t bytes, at
    item/length boundaries only (mid-item states carry boundary=False).  wf: block lengths are
    single-byte varints <= 4, uint32 items are varints of at most maxib bytes, at most MAX_ITEMS items,
    the terminating 0 is reached within `steps` bytes and all parsed bytes are present (<= T)."""
    w = 8 if kind == 'u8' else 32
    cbr, done, cnt = r0, z3.BoolVal(False), BV64(0)
    k = z3.BitVecVal(0, 8)                 # bytes of the current item seen so far (0 = at a boundary)
    acc = z3.BitVecVal(0, w)
    items = [z3.BitVecVal(0, w) for _ in range(MAX_ITEMS)]
    wf = z3.BoolVal(True)
    endpos = BV64(0)
    # (pos, cbr, done, cnt, was_item_end, boundary)
    states = [(BV64(0), cbr, done, cnt, z3.BoolVal(False), z3.BoolVal(True))]
    for t in range(steps):
        b = L(t)
        boundary = k == 0
        need_len = z3.And(z3.Not(done), boundary, cbr == 0)
        in_item = z3.And(z3.Not(done), z3.Not(need_len))
        wf = z3.And(wf, z3.Implies(need_len, z3.ULE(b, z3.BitVecVal(MAX_ITEMS, 8))))
        if kind == 'u8':
            item_end = in_item
            val = b
        else:
            pay = z3.ZeroExt(24, b & 0x7F)
            sh = pay
            for j in range(1, maxib):
                sh = z3.If(k == j, pay << (7 * j), sh)
            val = acc | sh
            cont = (b & 0x80) != 0
            item_end = z3.And(in_item, z3.Not(cont))
            # an item may use at most maxib bytes
            wf = z3.And(wf, z3.Implies(z3.And(in_item, cont), z3.ULT(k, z3.BitVecVal(maxib - 1, 8))))
        wf = z3.And(wf, z3.Implies(in_item, z3.ULT(cnt, BV64(MAX_ITEMS))))
        for j in range(MAX_ITEMS):
            items[j] = z3.If(z3.And(item_end, cnt == j), val, items[j])
        endpos = z3.If(done, endpos, BV64(t + 1))
        done2 = z3.Or(done, z3.And(need_len, b == 0))
        cbr2 = z3.If(need_len, z3.ZeroExt(56, b), z3.If(item_end, cbr - 1, cbr))
        cnt2 = z3.If(item_end, cnt + 1, cnt)
        if kind != 'u8':
            acc = z3.If(z3.And(in_item, z3.Not(item_end)), val, z3.BitVecVal(0, w))
            k = z3.If(z3.And(in_item, z3.Not(item_end)), k + 1, z3.BitVecVal(0, 8))
        nb = (k == 0)
        states.append((z3.If(done, endpos - 0, BV64(t + 1)), cbr2, done2, cnt2, item_end, z3.And(nb, z3.Not(done))))
        cbr, done, cnt = cbr2, done2, cnt2
    wf = z3.And(wf, done, z3.ULE(endpos, T))
    return items, cnt, states, wf


def blocks_task(spec):
    t_start = time.time()
    mod = C.load_module(spec['ir'])
    op, N = spec['op'], spec['N']
    fn, kind = OPS[op]
    maxib = 1 if kind == 'u8' else spec.get('maxib', 2)
    sz = 1 if kind == 'u8' else 4
    w = 8 * sz
    MAX_ITEMS = spec.get('max_items', 4)
    M = MAX_ITEMS * maxib + MAX_ITEMS + 1
    steps = M
    CAP = MAX_ITEMS
    boundary_only = spec.get('state', 'any') == 'boundary'
    capfix = spec.get('cap')
    tag = "B.%s.N%d.n%d%s%s" % (op, N, spec.get('max_items', 4), ('.cap%d' % capfix) if capfix else '', '.bnd' if spec.get('state', 'any') == 'boundary' else '')
    tally = Tally()
    O = lambda s_: "%s.%s" % (tag, s_)
    is_vec = op.startswith('RBIV')
    names = ['returns', 'items', 'count', 'block-remaining', 'consumed', 'reader-invariant', 'memory-safe', 'more-flag'] + (
        ['vector-frame', 'progress'] if is_vec else [])
    for n_ in names:
        tally.get(O(n_))
    samples, cands = [], {}
    want_samples = spec.get('samples', 3)
    pathno = [0]

    def body(ex):
        st = reader_state(ex, N, M, stream_primary=True)
        ex.st = st
        L, T = st['L'], st['T']
        r0 = z3.BitVec('r0', 64)
        ex.assume(z3.ULE(r0, BV64(MAX_ITEMS)))
        items, total, states, wf = ref_parse(L, r0, T, kind, maxib, steps, MAX_ITEMS)
        ex.assume(wf)
        if boundary_only:
            ex.assume(st['p'] == st['e'])   # reader at a refill boundary (fresh, or buffer exactly drained)
        remo = Obj('current_block_remaining', 8)
        ex.store_val(Ptr(remo, 0), ir.I64, r0, check=False)
        st.update(r0=r0, items=items, total=total, states=states, remo=remo)
        args = [Ptr(st['s'], 0), Ptr(remo, 0)]
        if is_vec:
            c, s0 = z3.BitVec('cap', 64), z3.BitVec('size0', 64)
            ex.assume(z3.And(z3.UGE(c, BV64(1)), z3.ULE(c, BV64(CAP)), z3.ULE(s0, c)))
            if capfix:
                ex.assume(c == capfix)
            V = [z3.BitVec('vec_%d' % i, 8) for i in range(CAP * sz)]
            vd = Obj('vector.storage', CAP * sz)
            vd.cells = list(V)
            vec = Obj('vector', 24)
            ex.store_val(Ptr(vec, 0), PT, Ptr(vd, 0), check=False)
            ex.store_val(Ptr(vec, 8), PT, Ptr(vd, simp(s0 * sz)), check=False)
            ex.store_val(Ptr(vec, 16), PT, Ptr(vd, simp(c * sz)), check=False)

            def vguard(ex_, off, nb, is_store):
                # element accesses must stay inside [begin, end) = the vector's current size
                endp = ex_.load_val(Ptr(vec, 8), PT, check=False)
                return z3.ULE(bv(off, 64) + bv(nb, 64), bv(endp.off, 64))
            vd.guard = vguard
            st.update(c=c, s0=s0, V=V, vd=vd, vec=vec)
            args.append(Ptr(vec, 0))
            d = z3.If(z3.ULT(c, total), c, total)
            # state after d items, next block length read eagerly: first t with cnt==d and (cbr!=0 or done)
            exp_r, exp_pos = states[-1][1], states[-1][0]
            for (ps, cb, dn, cn, wi, bd) in reversed(states):
                cond = z3.And(cn == d, z3.Or(z3.And(bd, cb != 0), dn))
                exp_r, exp_pos = z3.If(cond, cb, exp_r), z3.If(cond, ps, exp_pos)
        else:
            dst = Obj('destination', 4)
            dst.cells = [z3.BitVec('dst_%d' % i, 8) for i in range(4)]
            st['dst'] = dst
            args.append(Ptr(dst, 0))
            d = z3.If(total == 0, BV64(0), BV64(1))
            # total==0: state after the terminator; else: state right after the first item step
            exp_r, exp_pos = states[-1][1], states[-1][0]
            for (ps, cb, dn, cn, wi, bd) in reversed(states):
                cond = z3.Or(z3.And(total == 0, dn), z3.And(total != 0, cn == 1, wi))
                exp_r, exp_pos = z3.If(cond, cb, exp_r), z3.If(cond, ps, exp_pos)
        st.update(d=d, exp_r=exp_r, exp_pos=exp_pos)
        if not ex.prefix and ex.check() != z3.sat:
            raise core.Unsupported("setup assumptions unsatisfiable")
        rv = ex.run(fn, args)
        st['rv'] = rv
        return rv

    def native_cmd(mdl, st):
        r0 = mval(mdl, st['r0'])
        if not is_vec:
            return "%s:%d" % (op, r0)
        c, s0 = mval(mdl, st['c']), mval(mdl, st['s0'])
        Vv = [mval(mdl, b) for b in st['V']]
        if kind == 'u8':
            prior = bytes(Vv[:s0]).hex()
        else:
            prior = ",".join(str(int.from_bytes(bytes(Vv[4 * i:4 * i + 4]), 'little')) for i in range(s0))
        return "%s:%d:%d:%s" % (op, r0, c, prior)

    def fmt_items(vals):
        return bytes(vals).hex() if kind == 'u8' else ",".join(str(v) for v in vals)

    def sample(res):
        ex, st = res.ex, res.ex.st
        mdl = getattr(ex, 'cex_model', None)
        if mdl is None:
            mdl = ex.model()
        if mdl is None:
            return None, None
        head, cmds, _ = reader_script(mdl, st, op, None)
        opcmd = native_cmd(mdl, st)
        exp = None
        if res.kind == 'ret':
            r2 = mval(mdl, ex.load_val(Ptr(st['remo'], 0), ir.I64, check=False))
            if is_vec:
                endp = ex.load_val(Ptr(st['vec'], 8), PT, check=False)
                n2 = mval(mdl, endp.off) // sz
                vals = []
                for j in range(n2):
                    vals.append(mval(mdl, ex.load_val(Ptr(st['vd'], j * sz), ('int', w), check=False)))
                exp = "ret r=%d size=%d cap=%d items=%s" % (r2, n2, mval(mdl, st['c']), fmt_items(vals))
            else:
                b = mval(mdl, res.ret) if not isinstance(res.ret, bool) else int(res.ret)
                exp = "ret %d r=%d" % (b, r2)
                if b:
                    exp += " v=%d" % mval(mdl, ex.load_val(Ptr(st['dst'], 0), ir.I32, check=False))
        elif res.kind == 'throws':
            exp = "throw " + res.info['type']
        drain = None
        post = reader_post(ex, st)
        if res.kind in ('ret', 'throws') and post['same_obj']:
            p2, e2 = mval(mdl, post['p']), mval(mdl, post['e'])
            ist = st['ist']
            pos, tot = mval(mdl, ist.pos), mval(mdl, ist.total)
            IN = [mval(mdl, b) for b in st['IN']]
            if p2 <= e2 <= N:
                drain = bytes([mval(mdl, st['buf'].cells[i]) for i in range(p2, e2)] + IN[pos:tot]).hex()
        model = dict(p=mval(mdl, st['p']), e=mval(mdl, st['e']), rem=mval(mdl, st['rem']), fresh=bool(mval(mdl, st['fresh'])),
                     r0=mval(mdl, st['r0']), total_items=mval(mdl, st['total']))
        if is_vec:
            model.update(capacity=mval(mdl, st['c']), prior_size=mval(mdl, st['s0']))
        smp = dict(kind='reader', tag=tag, op=op, N=N, argv=head + cmds + [opcmd, "drain"], nprefix=len(cmds), expect_op=exp,
                   expect_drain=drain, outcome=res.kind, model=model)
        return smp, mdl

    def candidate(key, obligation, desc, res, must='any'):
        c = cands.get(key)
        if c is not None:
            c['count'] += 1
            return
        smp, mdl = sample(res)
        if smp is None:
            tally.inconclusive(obligation, "no model for counterexample %s" % key)
            return
        st = res.ex.st
        dv = mval(mdl, st['d'])
        rv = mval(mdl, st['exp_r'])
        its = [mval(mdl, st['items'][j]) for j in range(dv)]
        Tc = mval(mdl, st['T'])
        Lc = [mval(mdl, st['L'](i)) for i in range(Tc)]
        ep = mval(mdl, st['exp_pos'])
        if is_vec:
            spec_op = "ret r=%d size=%d cap=%d items=%s" % (rv, dv, mval(mdl, st['c']), fmt_items(its))
        else:
            spec_op = "ret %d r=%d" % (dv, rv) + ((" v=%d" % its[0]) if dv else "")
        cands[key] = dict(key=key, obligation=obligation, desc=desc, sample=smp, must=must, count=1, spec_op=spec_op,
                          spec_drain=bytes(Lc[ep:]).hex())

    def on_path(res):
        ex = res.ex
        pathno[0] += 1
        k = res.kind
        if k == 'unsupported':
            for n_ in names:
                tally.inconclusive(O(n_), res.info.get('why', '')[:160])
            return
        if k == 'unwind':
            for n_ in names:
                tally.inconclusive(O(n_), "unwinding cap: " + str(res.info.get('why')))
            return
        st = ex.st
        tally.reach(O('memory-safe'))
        if k in ('oob', 'oob-gep', 'null-deref', 'use-after-scope', 'ub-shift', 'div-by-zero', 'unreachable', 'trap', 'guard', 'vector-realloc'):
            fr = [re.sub(r'<.*', '', f[0]) for f in res.info.get('site', [])]
            yard = [f for f in fr if not f.startswith('_Z') and f not in ('operator[]', 'data', 'size', 'capacity', 'min')]
            key = "cc:%s:%s:%s" % (op, (yard[0] if yard else (fr[0] if fr else op)), k)
            tally.fail(O('memory-safe'), key)
            candidate(key, O('memory-safe'), "%s (%s) in %s: %s" % (k, res.info.get('obj'), ' < '.join(fr[:4]), res.info.get('instr', '')[:80]),
                      res, 'asan' if k != 'guard' else 'any')
            return
        tally.reach(O('returns'))
        if k != 'ret':
            tally.fail(O('returns'), "%s %s" % (k, res.info.get('type', '')))
            candidate("cc:%s:%s-on-wellformed-stream" % (op, k), O('returns'), "%s ends with %s %s on a well-formed block stream" %
                      (op, k, res.info.get('type', '')), res)
            return
        post = reader_post(ex, st)
        d, total, items = st['d'], st['total'], st['items']
        r2 = ex.load_val(Ptr(st['remo'], 0), ir.I64, check=False)
        p2, e2, rem2 = bv(post['p'], 64), bv(post['e'], 64), bv(post['rem'], 64)
        T2 = e2 - p2 + rem2
        DESC = {'reader-invariant': "reader invariant broken after %s" % op,
                'vector-frame': "begin/capacity of the destination changed",
                'count': "delivered batch size differs from min(capacity, remaining items)" if is_vec else
                         "ReadBlock's return value differs from 'an item remains'",
                'items': "delivered items differ from the written items",
                'progress': "no item delivered although capacity >= 1 and items remain",
                'block-remaining': "current_block_remaining_ inconsistent with the stream position",
                'consumed': "bytes consumed differ from the reference parser",
                'more-flag': "'more items' indication wrong"}
        pairs = [('reader-invariant', reader_inv(st, post))]
        if is_vec:
            vec, vd = st['vec'], st['vd']
            bg = ex.load_val(Ptr(vec, 0), PT, check=False)
            en = ex.load_val(Ptr(vec, 8), PT, check=False)
            cp = ex.load_val(Ptr(vec, 16), PT, check=False)
            frame_ok = bg.obj is vd and en.obj is vd and cp.obj is vd and is_c(bg.off) and bg.off == 0
            pairs.append(('vector-frame', (bv(cp.off, 64) == st['c'] * sz) if frame_ok else False))
            size2 = bv(en.off, 64)
            pairs.append(('count', size2 == d * sz))
            conj = []
            for j in range(MAX_ITEMS):
                ev = ex.load_val(Ptr(vd, j * sz), ('int', w), check=False)
                conj.append(z3.Implies(z3.ULT(BV64(j), d), bv(ev, w) == items[j]))
            pairs.append(('items', z3.And(*conj)))
            pairs.append(('progress', z3.Implies(z3.UGE(total, BV64(1)), z3.UGE(size2, BV64(sz)))))
            pairs.append(('more-flag', (bv(r2, 64) != 0) == z3.UGT(total, d)))
        else:
            rb = as_boolterm(res.ret)
            pairs.append(('count', rb == (total != 0)))
            ev = ex.load_val(Ptr(st['dst'], 0), ir.I32, check=False)
            pairs.append(('items', z3.Implies(total != 0, bv(ev, 32) == items[0])))
            pairs.append(('more-flag', rb == (total != 0)))
        pairs.append(('block-remaining', bv(r2, 64) == st['exp_r']))
        pairs.append(('consumed', st['T'] - T2 == st['exp_pos']))
        bad = tally.prove_all(ex, [(O(n_), f) for n_, f in pairs])
        for oid, m_ in bad.items():
            if m_ != 'unknown':
                ex.cex_model = m_
                short = oid.rsplit('.', 1)[-1]
                candidate("cc:%s:%s" % (op, short), oid, DESC.get(short, short), res)
        ex.cex_model = None
        if len(samples) < want_samples and (pathno[0] + spec.get('seed', 0)) % spec.get('stride', 1) == 0:
            s_, _ = sample(res)
            if s_ is not None:
                samples.append(s_)

    deadline = t_start + spec.get('budget_s', 600)
    stats, problems = core.explore(mod, body, on_path, intercepts=stubs.BASE, patterns=stubs.PATTERNS, loop_cap=spec.get('loop_cap', 40),
                                   deadline=deadline, max_paths=spec.get('max_paths', 50000))
    obl = tally.finish()
    if problems:
        for d_ in obl:
            if d_['status'] == 'holds':
                d_['status'] = 'inconclusive'
                d_['note'] = (d_['note'] + '; ' + problems[0])[:400].strip('; ')
    return dict(tag=tag, obligations=obl, stats=C.stats_dict(stats), cands=list(cands.values()), samples=samples,
                problems=sorted(set(problems)), wall_s=time.time() - t_start)


def as_boolterm(v):
    v = core.as_bool(v)
    return z3.BoolVal(v) if isinstance(v, bool) else v


# ================================================================================================
# ReadHeader (C15)
# ================================================================================================

READ_HEADER = '_ZN5yardl6binary10ReadHeaderB5cxx11ERNS0_16CodedInputStreamE'
MAGIC = b'yardl'


def header_task(spec):
    t_start = time.time()
    mod = C.load_module(spec['ir'])
    N = spec['N']
    SMAX = spec.get('smax', 4)
    M = 10 + SMAX + 2
    tag = "H.ReadHeader.N%d" % N
    tally = Tally()
    O = lambda s_: "%s.%s" % (tag, s_)
    names = ['total', 'accept-only-yardl-v1', 'schema-returned-verbatim', 'consumed-exactly-header', 'reject-before-body',
             'reader-invariant', 'memory-safe']
    for n_ in names:
        tally.get(O(n_))
    samples, cands = [], {}
    want_samples = spec.get('samples', 4)
    pathno = [0]

    def body(ex):
        ex.world['string_max'] = SMAX
        st = reader_state(ex, N, M)
        ex.st = st
        L, T = st['L'], st['T']
        slen = z3.ZeroExt(56, L(9))
        ex.assume(z3.ULE(slen, BV64(SMAX)))
        ex.assume(z3.UGE(T, BV64(10) + slen))     # not truncated (truncation is C16)
        out = Obj('result.string', 32)
        st.update(slen=slen, out=out)
        if not ex.prefix and ex.check() != z3.sat:
            raise core.Unsupported("setup assumptions unsatisfiable")
        ex.run(READ_HEADER, [Ptr(out, 0), Ptr(st['s'], 0)])
        return None

    def hdr_ok(st):
        L = st['L']
        return z3.And(*([L(i) == MAGIC[i] for i in range(5)] + [L(5) == 1, L(6) == 0, L(7) == 0, L(8) == 0]))

    def sample(res):
        ex, st = res.ex, res.ex.st
        mdl = getattr(ex, 'cex_model', None)
        if mdl is None:
            mdl = ex.model()
        if mdl is None:
            return None, None
        head, cmds, _ = reader_script(mdl, st, 'ReadHeader', None)
        exp = None
        if res.kind == 'ret':
            info = st['out'].meta.get('str') or {}
            ln = mval(mdl, info.get('len', 0))
            d = info.get('data')
            exp = ("ret " + bytes(mval(mdl, d.cells[i]) for i in range(ln)).hex()).strip() if d is not None else "ret"
        elif res.kind == 'throws':
            exp = "throw " + res.info['type']
        post = reader_post(ex, st)
        drain = None
        if res.kind in ('ret', 'throws') and post['same_obj']:
            p2, e2 = mval(mdl, post['p']), mval(mdl, post['e'])
            ist = st['ist']
            pos, tot = mval(mdl, ist.pos), mval(mdl, ist.total)
            IN = [mval(mdl, b) for b in st['IN']]
            if p2 <= e2 <= N:
                drain = bytes([mval(mdl, st['buf'].cells[i]) for i in range(p2, e2)] + IN[pos:tot]).hex()
        Tc = mval(mdl, st['T'])
        Lc = bytes(mval(mdl, st['L'](i)) for i in range(Tc))
        smp = dict(kind='reader', tag=tag, op='ReadHeader', N=N, argv=head + cmds + ["ReadHeader", "drain"], nprefix=len(cmds),
                   expect_op=exp, expect_drain=drain, outcome=res.kind,
                   model=dict(p=mval(mdl, st['p']), e=mval(mdl, st['e']), rem=mval(mdl, st['rem']), fresh=bool(mval(mdl, st['fresh'])),
                              header=Lc[:10].hex(), schema_len=mval(mdl, st['slen'])))
        return smp, (mdl, Lc)

    def candidate(key, obligation, desc, res, must='any'):
        c = cands.get(key)
        if c is not None:
            c['count'] += 1
            return
        smp, aux = sample(res)
        if smp is None:
            tally.inconclusive(obligation, "no model for counterexample %s" % key)
            return
        mdl, Lc = aux
        good = Lc[:5] == MAGIC and Lc[5:9] == b'\x01\x00\x00\x00'
        n = Lc[9]
        spec_op = ("ret " + Lc[10:10 + n].hex()).strip() if good else "throw std::runtime_error"
        cands[key] = dict(key=key, obligation=obligation, desc=desc, sample=smp, must=must, count=1, spec_op=spec_op,
                          spec_drain=Lc[10 + n:].hex() if good else None)

    def on_path(res):
        ex = res.ex
        pathno[0] += 1
        k = res.kind
        if k == 'unsupported':
            for n_ in names:
                tally.inconclusive(O(n_), res.info.get('why', '')[:160])
            return
        if k == 'unwind':
            for n_ in names:
                tally.inconclusive(O(n_), "unwinding cap: " + str(res.info.get('why')))
            return
        st = ex.st
        tally.reach(O('memory-safe'))
        if k in ('oob', 'oob-gep', 'null-deref', 'use-after-scope', 'ub-shift', 'div-by-zero', 'unreachable', 'trap', 'guard', 'string-too-long'):
            fr = [re.sub(r'<.*', '', f[0]) for f in res.info.get('site', [])]
            key = "cc:ReadHeader:%s:%s" % (fr[0] if fr else '?', k)
            tally.fail(O('memory-safe'), key)
            candidate(key, O('memory-safe'), "%s in %s" % (k, ' < '.join(fr[:4])), res, 'asan' if k != 'guard' else 'any')
            return
        tally.reach(O('total'))
        if not (k == 'ret' or (k == 'throws' and res.info.get('type') == 'std::runtime_error')):
            tally.fail(O('total'), "%s %s" % (k, res.info.get('type', '')))
            candidate("cc:ReadHeader:%s" % k, O('total'), "ReadHeader ends with %s %s on an untruncated stream" % (k, res.info.get('type', '')), res)
            return
        post = reader_post(ex, st)
        r = tally.prove(ex, O('reader-invariant'), reader_inv(st, post))
        if r is not None and r != 'unknown':
            candidate("cc:ReadHeader:reader-invariant", O('reader-invariant'), "reader invariant broken", res)
        p2, e2, rem2 = bv(post['p'], 64), bv(post['e'], 64), bv(post['rem'], 64)
        consumed = st['T'] - (e2 - p2 + rem2)
        if k == 'ret':
            r = tally.prove(ex, O('accept-only-yardl-v1'), hdr_ok(st))
            if r is not None and r != 'unknown':
                candidate("cc:ReadHeader:accepts-foreign-header", O('accept-only-yardl-v1'),
                          "ReadHeader returns normally although magic/version differ from 'yardl'/1", res)
            info = st['out'].meta.get('str') or {}
            d = info.get('data')
            ln = bv(info.get('len', 0), 64)
            conj = [ln == st['slen']]
            if d is not None:
                for i in range(SMAX):
                    conj.append(z3.Implies(z3.ULT(BV64(i), st['slen']), bv(d.cells[i], 8) == st['L'](10 + i)))
            r = tally.prove(ex, O('schema-returned-verbatim'), z3.And(*conj))
            if r is not None and r != 'unknown':
                candidate("cc:ReadHeader:schema-altered", O('schema-returned-verbatim'), "returned schema differs from the stream's", res)
            r = tally.prove(ex, O('consumed-exactly-header'), consumed == BV64(10) + st['slen'])
            if r is not None and r != 'unknown':
                candidate("cc:ReadHeader:consumed", O('consumed-exactly-header'), "ReadHeader does not stop at the end of the header", res)
        else:
            r = tally.prove(ex, O('reject-before-body'), z3.And(z3.Not(hdr_ok(st)), z3.ULE(consumed, BV64(9))))
            if r is not None and r != 'unknown':
                candidate("cc:ReadHeader:late-or-spurious-reject", O('reject-before-body'),
                          "ReadHeader throws on a good header or after consuming bytes beyond magic+version", res)
        ex.cex_model = None
        if len(samples) < want_samples and (pathno[0] + spec.get('seed', 0)) % spec.get('stride', 1) == 0:
            s_, _ = sample(res)
            if s_ is not None:
                samples.append(s_)

    deadline = t_start + spec.get('budget_s', 600)
    stats, problems = core.explore(mod, body, on_path, intercepts=stubs.BASE, patterns=stubs.PATTERNS, loop_cap=spec.get('loop_cap', 40),
                                   deadline=deadline, max_paths=spec.get('max_paths', 50000))
    obl = tally.finish()
    if problems:
        for d_ in obl:
            if d_['status'] == 'holds':
                d_['status'] = 'inconclusive'
                d_['note'] = (d_['note'] + '; ' + problems[0])[:400].strip('; ')
    return dict(tag=tag, obligations=obl, stats=C.stats_dict(stats), cands=list(cands.values()), samples=samples,
                problems=sorted(set(problems)), wall_s=time.time() - t_start)


def run_task(spec):
    return blocks_task(spec) if spec['kind'] == 'blocks' else header_task(spec)


# ================================================================================================
# parts
# ================================================================================================

ASSUME_BLOCKS = [
    "serializers.h/header.h are compiled at -O0 behind a stub yardl.h (harness/cc/stubinc/yardl.h: chrono Date/Time/DateTime, empty NDArray "
    "templates); nothing in the stub is executed",
    "block streams: block lengths are single-byte varints <= max_items, at most max_items items remain, uint32 items are varints of at most "
    "`uint32_item_bytes` bytes (per-task bounds, see bounds.tasks); reader_state 'boundary' = the reader sits at a refill boundary "
    "(buffer_ptr_ == buffer_end_ptr_: fresh or exactly drained), 'any' = the arbitrary valid state of C01; the reference block parser "
    "(parts/cc_blocks.py ref_parse) is the specification",
    "destination std::vector: size/capacity/data/operator[] are executed from the IR on a (begin,end,cap) triple over a 4-element storage "
    "object with symbolic prior size <= capacity, 1 <= capacity <= 4 and symbolic prior contents; resize is a stub; element accesses "
    "outside [begin,end) are reported",
    "one-call inductive step from an arbitrary (reader state, current_block_remaining_) consistent with the reference parse; compositions of "
    "calls follow by induction because the post-state is shown to be a state of the same parse",
]
ASSUME_HEADER = [
    "ReadHeader: the first 10 logical bytes are unconstrained symbolic (magic, version, schema length), schema bytes symbolic with length "
    "<= smax; the stream is not truncated (truncation is C16); std::string is a stub (ctor/resize/data), so the comparison of the returned "
    "schema with the expected one, which generated code performs, is outside: the obligation is that the schema is returned verbatim",
]


def _ir(name, opt, ndebug=True):
    text, cmd = build.compile_ir(name, opt, ndebug=ndebug, stub=True)
    pth = os.path.join(build.tmpdir(), "%s.%s.ll" % (name, "rel" if ndebug else "dbg"))
    with open(pth, "w") as f:
        f.write(text)
    return pth, cmd


def _finish(part, K, prop, results, t0):
    K._merge(part, results)
    native = K.Native("blocks", stub=True)
    try:
        K._validate_samples(part, native, results)
        K._confirm(part, prop, native, results)
    except Exception as e:
        part["inconclusive"].append("native replay failed: %s" % e)
    for v in part["violations"]:
        if not v["replay_confirmed"]:
            for o in part["obligations"]:
                if o["id"] == v["obligation"] and o["status"] == "violated":
                    o["status"] = "inconclusive"
                    o["note"] = (o["note"] + "; counterexample did not replay natively").strip("; ")
    part["wall_s"] = round(time.time() - t0, 2)
    return part


def blocks_part(prop, tier, seed):
    from parts import cc_kernels as K
    t0 = time.time()
    part = vcommon.new_part("cc_blocks", "llsym")
    part["solvers"] = [K.SOLVER]
    thorough = tier == "thorough"
    pth, cmd = _ir("blocks.cc", "-O0")
    budget = 700 if thorough else 420
    specs = []
    base = dict(kind='blocks', N=8, ir=pth, seed=seed, budget_s=budget, samples=(10 if thorough else 2), stride=(1 if thorough else 3),
                xcheck=(2 if thorough else 0), xcheck_stride=7)

    def add(op, n, state, maxib, caps, N=8):
        for cap in caps:
            specs.append(dict(base, op=op, max_items=n, state=state, maxib=maxib, cap=cap, N=N))
    if thorough:
        add('ReadBlock_u32', 4, 'any', 3, [None])
        add('RBIV_u8', 4, 'any', 1, [1, 2, 3, 4])
        add('RBIV_u8', 4, 'boundary', 1, [1, 2, 3, 4], N=16)
        add('RBIV_u32', 4, 'boundary', 1, [1, 2, 3, 4])
        add('RBIV_u32', 3, 'any', 2, [1, 2])
        add('RBIV_u32', 3, 'boundary', 2, [3])
        add('RBIV_u32', 2, 'any', 3, [1, 2])
    else:
        add('ReadBlock_u32', 4, 'any', 2, [None])
        add('RBIV_u8', 4, 'boundary', 1, [1, 2, 3, 4])
        add('RBIV_u8', 2, 'any', 1, [1, 2])
        add('RBIV_u32', 3, 'boundary', 1, [1, 2, 3])
        add('RBIV_u32', 2, 'any', 1, [1, 2])
    specs.sort(key=lambda s: -(s['max_items'] * 10 + (s.get('cap') or 0) + (5 if s['state'] == 'any' else 0) + 10 * s['maxib']))
    results = K._pool_run(specs)
    part["bounds"] = {"tasks": [dict(op=s['op'], N=s['N'], max_items=s['max_items'], capacity=s.get('cap') or 'n/a', reader_state=s['state'],
                                     uint32_item_bytes=s['maxib']) for s in specs],
                      "block lengths": "1..max_items (symbolic)", "prior size": "0..capacity (symbolic)", "clang": [cmd]}
    part["assumptions"] = K.ASSUME_COMMON + K.ASSUME_READER + ASSUME_BLOCKS
    return _finish(part, K, prop, results, t0)


def header_part(prop, tier, seed):
    from parts import cc_kernels as K
    t0 = time.time()
    part = vcommon.new_part("cc_header", "llsym")
    part["solvers"] = [K.SOLVER]
    thorough = tier == "thorough"
    pth, cmd = _ir("blocks.cc", "-O0")
    Ns = [8, 16] if thorough else [8]
    specs = [dict(kind='header', op='ReadHeader', N=N, ir=pth, seed=seed, budget_s=(800 if thorough else 420), samples=(16 if thorough else 4),
                  stride=1, smax=(6 if thorough else 4), xcheck=(8 if thorough else 0)) for N in Ns]
    results = K._pool_run(specs)
    part["bounds"] = {"buffer_size_N": Ns, "schema bytes": "<= %d" % (6 if thorough else 4), "clang": [cmd]}
    part["assumptions"] = K.ASSUME_COMMON + K.ASSUME_READER + ASSUME_HEADER
    return _finish(part, K, prop, results, t0)
