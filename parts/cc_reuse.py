"""llsym drivers for the serializers.h combinators (behind harness/cc/stubinc/yardl.h, -O0):

  * C17 destination reuse: every reader that takes its destination by reference is called with an ARBITRARY
    PRIOR DESTINATION (symbolic prior has_value/value, prior size/capacity/contents, prior map entries) and must
    leave exactly the value decoded from the stream (c17_cc_reuse)
  * C01 item 2(c): write/read pairs - bytes written == reference codec, value read back == value written - for
    WriteInteger/ReadInteger over every integer type (the C++ half of the head table), Optional<uint32_t>,
    Vector<uint8_t> (memcpy fast path) / Vector<uint32_t>, WriteBlock/ReadBlock (c01_cc_serializers)

The stream is built from symbolic VALUES through spec/refcodec.py (SymSeq = concatenation of parts of symbolic
length), so "the value decoded from the stream" is by construction the value the reference codec encodes there.
"""
import os
import re
import sys
import time

VERIF = os.path.dirname(os.path.dirname(os.path.abspath(__file__)))
for p in (VERIF, os.path.join(VERIF, "engine")):
    if p not in sys.path:
        sys.path.insert(0, p)

import z3  # noqa: E402

from lib import vcommon  # noqa: E402
from llsym import ir, core, stubs, build  # noqa: E402
from llsym.core import Obj, Ptr, bv, simp, is_c, select_chain  # noqa: E402
from parts import cc_common as C  # noqa: E402
from parts.cc_common import BV64, PT, COS, Tally, mval, reader_state, reader_post, reader_inv, reader_script  # noqa: E402
from spec import refcodec  # noqa: E402

B8 = lambda v: z3.BitVecVal(v, 8)

# name -> (width, encoding)   raw = one byte as is; uvarint / svarint per binary.md (F11: int8/uint8 are raw bytes)
INTS = {'bool': (8, 'raw'), 'i8': (8, 'raw'), 'u8': (8, 'raw'), 'i16': (16, 'svarint'), 'u16': (16, 'uvarint'),
        'i32': (32, 'svarint'), 'u32': (32, 'uvarint'), 'i64': (64, 'svarint'), 'u64': (64, 'uvarint'), 'size': (64, 'uvarint')}


class SymSeq:
    """concatenation of parts (n, [bytes]) with symbolic lengths n <= len(bytes)"""

    def __init__(self):
        self.parts = []

    def add(self, n, bs):
        self.parts.append((n, list(bs)))
        return self

    @property
    def maxlen(self):
        return sum(len(bs) for _, bs in self.parts)

    def total(self):
        t = 0
        for n, _ in self.parts:
            t = core.off_add(t, n)
        return bv(t, 64)

    def at(self, i):
        """byte i (python int) of the concatenation as a BV8 term (0 beyond the end)"""
        r = B8(0)
        starts, t = [], 0
        for n, bs in self.parts:
            starts.append(t)
            t = core.off_add(t, n)
        I = BV64(i)
        for (n, bs), st in reversed(list(zip(self.parts, starts))):
            if not bs:
                continue
            if is_c(st) and is_c(n):
                if st <= i < st + n:
                    r = bv(bs[i - st], 8)
                continue
            rel = simp(I - bv(st, 64))
            inside = z3.And(z3.ULE(bv(st, 64), I), z3.ULT(bv(rel, 64), bv(n, 64)))
            if is_c(rel):
                v = bs[rel] if rel < len(bs) else bs[0]
            else:
                v = select_chain(rel, bs, 0) if len(bs) > 1 else bs[0]
            r = z3.If(inside, bv(v, 8), r)
        return simp(r)

    def concrete(self, mdl):
        out = []
        for n, bs in self.parts:
            k = mval(mdl, n)
            out += [mval(mdl, b) for b in bs[:k]]
        return bytes(out)


def enc_int(kind, x):
    """(n BV64, bytes) of an integer value per the reference codec"""
    if kind == 'raw':
        return 1, [x]
    n, bs = (refcodec.uvarint(x) if kind == 'uvarint' else refcodec.svarint(x))
    return z3.ZeroExt(56, n), bs


def bounded(ex, x, maxvb):
    """assume the unsigned varint of x needs at most maxvb bytes (path-count bound, stated in the evidence)"""
    w = x.size()
    if 7 * maxvb < w:
        ex.assume(z3.ULT(x, z3.BitVecVal(1 << (7 * maxvb), w)))


def mk_vector(ex, name, sz, nmax, size_t, cap_t, contents):
    """std::vector<T> as (begin,end,cap) over a storage object of nmax elements"""
    vd = Obj(name + '.storage', max(1, nmax * sz))
    vd.cells = list(contents) + [0] * (vd.size - len(contents))
    vec = Obj(name, 24)
    ex.store_val(Ptr(vec, 0), PT, Ptr(vd, 0), check=False)
    ex.store_val(Ptr(vec, 8), PT, Ptr(vd, simp(bv(size_t, 64) * sz)), check=False)
    ex.store_val(Ptr(vec, 16), PT, Ptr(vd, simp(bv(cap_t, 64) * sz)), check=False)

    def vguard(ex_, off, nb, is_store):
        endp = ex_.load_val(Ptr(vec, 8), PT, check=False)
        return z3.ULE(bv(off, 64) + bv(nb, 64), bv(endp.off, 64))
    vd.guard = vguard
    return vec, vd


def fmt_u32s(vals):
    return ",".join(str(v) for v in vals)


# ================================================================================================
# reader cases
# ================================================================================================

class RCase:
    """one reader entry point: builds destination + stream, states the post-condition, formats native lines"""
    needs64 = False

    def __init__(self, ex, st, op, spec):
        self.ex, self.st, self.op, self.spec = ex, st, op, spec
        self.seq = SymSeq()
        self.maxvb = spec.get('maxvb', 5)

    def ret_ok(self, res):
        return True


class RInteger(RCase):
    def __init__(self, ex, st, op, spec):
        RCase.__init__(self, ex, st, op, spec)
        t = op.split('_', 1)[1]
        self.w, self.kind = INTS[t]
        self.t = t
        self.x = z3.BitVec('x', self.w)
        if t == 'bool':
            ex.assume(z3.ULE(self.x, B8(1)))
        self.seq.add(*enc_int(self.kind, self.x))
        self.dst = Obj('destination', self.w // 8)
        self.prior = z3.BitVec('prior', self.w)
        ex.store_val(Ptr(self.dst, 0), ('int', self.w), self.prior, check=False)
        self.fn, self.args = 'h_' + op, [Ptr(st['s'], 0), Ptr(self.dst, 0)]

    def checks(self, res):
        v = self.ex.load_val(Ptr(self.dst, 0), ('int', self.w), check=False)
        return [('value', bv(v, self.w) == self.x)]

    def cmd(self, mdl):
        return "%s:%d" % (self.op, mval(mdl, self.prior))

    def engine_line(self, mdl, res):
        return "ret %d" % mval(mdl, self.ex.load_val(Ptr(self.dst, 0), ('int', self.w), check=False))

    def spec_line(self, mdl):
        return "ret %d" % mval(mdl, self.x)

    def model(self, mdl):
        return dict(x=mval(mdl, self.x), prior=mval(mdl, self.prior))


class ROptional(RCase):
    def __init__(self, ex, st, op, spec):
        RCase.__init__(self, ex, st, op, spec)
        self.has, self.x = z3.Bool('has'), z3.BitVec('x', 32)
        self.ph, self.pv = z3.Bool('prior_has'), z3.BitVec('prior_v', 32)
        n, bs = enc_int('uvarint', self.x)
        self.seq.add(1, [z3.If(self.has, B8(1), B8(0))])
        self.seq.add(z3.If(self.has, n, BV64(0)), bs)
        self.dst = Obj('optional', 8)
        ex.store_val(Ptr(self.dst, 0), ir.I32, self.pv, check=False)
        ex.store_val(Ptr(self.dst, 4), ir.I8, simp(z3.If(self.ph, B8(1), B8(0))), check=False)
        for i in (5, 6, 7):
            self.dst.cells[i] = 0
        self.fn, self.args = 'h_ReadOptional_u32', [Ptr(st['s'], 0), Ptr(self.dst, 0)]

    def _post(self):
        return (self.ex.load_val(Ptr(self.dst, 4), ir.I8, check=False), self.ex.load_val(Ptr(self.dst, 0), ir.I32, check=False))

    def checks(self, res):
        e, v = self._post()
        return [('value', z3.And(bv(e, 8) == z3.If(self.has, B8(1), B8(0)), z3.Implies(self.has, bv(v, 32) == self.x)))]

    def cmd(self, mdl):
        return "ReadOptional_u32:%d:%d" % (mval(mdl, self.ph), mval(mdl, self.pv))

    def engine_line(self, mdl, res):
        e, v = self._post()
        e = mval(mdl, e)
        return "ret has=%d v=%s" % (1 if e else 0, str(mval(mdl, v)) if e else "-")

    def spec_line(self, mdl):
        h = mval(mdl, self.has)
        return "ret has=%d v=%s" % (h, str(mval(mdl, self.x)) if h else "-")

    def model(self, mdl):
        return dict(has=mval(mdl, self.has), x=mval(mdl, self.x), prior_has=mval(mdl, self.ph), prior_v=mval(mdl, self.pv))


class RVector(RCase):
    needs64 = True   # the length is read with ReadVarInt64

    def __init__(self, ex, st, op, spec):
        RCase.__init__(self, ex, st, op, spec)
        self.sz = 1 if op.endswith('u8') else 4
        self.w = 8 * self.sz
        self.nmax = spec.get('nmax', 3)
        self.pmax = spec.get('pmax', 3)
        self.n = z3.BitVec('n', 64)
        ex.assume(z3.ULE(self.n, BV64(self.nmax)))
        if spec.get('nfix') is not None:
            ex.assume(self.n == spec['nfix'])
        self.xs = [z3.BitVec('x_%d' % i, self.w) for i in range(self.nmax)]
        self.seq.add(1, [z3.Extract(7, 0, self.n)])
        if self.sz == 1:
            self.seq.add(self.n, self.xs)
        else:
            for i, x in enumerate(self.xs):
                bounded(ex, x, self.maxvb)
                k, bs = enc_int('uvarint', x)
                self.seq.add(z3.If(z3.ULT(BV64(i), self.n), k, BV64(0)), bs[:self.maxvb])
        self.s0, self.c0 = z3.BitVec('prior_size', 64), z3.BitVec('prior_cap', 64)
        ex.assume(z3.And(z3.ULE(self.s0, self.c0), z3.ULE(self.c0, BV64(self.pmax))))
        self.V = [z3.BitVec('vec_%d' % i, 8) for i in range(self.pmax * self.sz)]
        self.vec, self.vd = mk_vector(ex, 'vector', self.sz, self.pmax, self.s0, self.c0, self.V)
        ex.world['vector_realloc_max'] = max(self.nmax, self.pmax)
        self.fn, self.args = 'h_' + op, [Ptr(st['s'], 0), Ptr(self.vec, 0)]

    def _post(self):
        ex = self.ex
        bg = ex.load_val(Ptr(self.vec, 0), PT, check=False)
        en = ex.load_val(Ptr(self.vec, 8), PT, check=False)
        ok = bg.obj is not None and bg.obj is en.obj and is_c(bg.off) and bg.off == 0 and bg.obj.alive
        return ok, bg.obj, en.off

    def checks(self, res):
        ok, store, endoff = self._post()
        if not ok:
            return [('value', False)]
        conj = [bv(endoff, 64) == self.n * self.sz]
        for j in range(self.nmax):
            if (j + 1) * self.sz <= store.size:
                ev = self.ex.load_val(Ptr(store, j * self.sz), ('int', self.w), check=False)
                conj.append(z3.Implies(z3.ULT(BV64(j), self.n), bv(ev, self.w) == self.xs[j]))
            else:
                conj.append(z3.Not(z3.ULT(BV64(j), self.n)))
        return [('value', z3.And(*conj))]

    def _fmt(self, vals):
        return bytes(vals).hex() if self.sz == 1 else fmt_u32s(vals)

    def cmd(self, mdl):
        s0 = mval(mdl, self.s0)
        Vv = [mval(mdl, b) for b in self.V]
        prior = [int.from_bytes(bytes(Vv[self.sz * i:self.sz * (i + 1)]), 'little') for i in range(s0)]
        return "%s:%d:%s" % (self.op, mval(mdl, self.c0), self._fmt(prior))

    def engine_line(self, mdl, res):
        ok, store, endoff = self._post()
        if not ok:
            return None
        n2 = mval(mdl, endoff) // self.sz
        vals = [mval(mdl, self.ex.load_val(Ptr(store, j * self.sz), ('int', self.w), check=False)) for j in range(n2)
                if (j + 1) * self.sz <= store.size]
        return "ret size=%d items=%s" % (n2, self._fmt(vals))

    def spec_line(self, mdl):
        n = mval(mdl, self.n)
        return "ret size=%d items=%s" % (n, self._fmt([mval(mdl, x) for x in self.xs[:n]]))

    def model(self, mdl):
        n = mval(mdl, self.n)
        return dict(n=n, items=[mval(mdl, x) for x in self.xs[:n]], prior_size=mval(mdl, self.s0), prior_capacity=mval(mdl, self.c0))


class RArray(RCase):
    def __init__(self, ex, st, op, spec):
        RCase.__init__(self, ex, st, op, spec)
        self.sz = 1 if '_u8_' in op else 4
        self.cnt = int(op.rsplit('_', 1)[1])
        self.w = 8 * self.sz
        self.xs = [z3.BitVec('x_%d' % i, self.w) for i in range(self.cnt)]
        if self.sz == 1:
            self.seq.add(self.cnt, self.xs)
        else:
            for x in self.xs:
                bounded(ex, x, self.maxvb)
                k, bs = enc_int('uvarint', x)
                self.seq.add(k, bs[:self.maxvb])
        self.dst = Obj('array', self.cnt * self.sz)
        self.P = [z3.BitVec('prior_%d' % i, 8) for i in range(self.dst.size)]
        self.dst.cells = list(self.P)
        self.fn, self.args = 'h_' + op, [Ptr(st['s'], 0), Ptr(self.dst, 0)]

    def _vals(self):
        return [self.ex.load_val(Ptr(self.dst, j * self.sz), ('int', self.w), check=False) for j in range(self.cnt)]

    def checks(self, res):
        return [('value', z3.And(*[bv(v, self.w) == x for v, x in zip(self._vals(), self.xs)]))]

    def _fmt(self, vals):
        return bytes(vals).hex() if self.sz == 1 else fmt_u32s(vals)

    def cmd(self, mdl):
        Pv = [mval(mdl, b) for b in self.P]
        return "%s:%s" % (self.op, self._fmt([int.from_bytes(bytes(Pv[self.sz * i:self.sz * (i + 1)]), 'little') for i in range(self.cnt)]))

    def engine_line(self, mdl, res):
        return "ret items=%s" % self._fmt([mval(mdl, v) for v in self._vals()])

    def spec_line(self, mdl):
        return "ret items=%s" % self._fmt([mval(mdl, x) for x in self.xs])

    def model(self, mdl):
        return dict(items=[mval(mdl, x) for x in self.xs])


class RMap(RCase):
    needs64 = True

    def __init__(self, ex, st, op, spec):
        RCase.__init__(self, ex, st, op, spec)
        self.kw = 8 if '_u8_' in op else 32
        self.nmax = 2
        self.n = z3.BitVec('n', 64)
        ex.assume(z3.ULE(self.n, BV64(self.nmax)))
        if spec.get('nfix') is not None:
            ex.assume(self.n == spec['nfix'])
        self.ks = [z3.BitVec('k_%d' % i, self.kw) for i in range(self.nmax)]
        self.vs = [z3.BitVec('v_%d' % i, 32) for i in range(self.nmax)]
        ex.assume(z3.Implies(self.n == 2, self.ks[0] != self.ks[1]))   # a writer emits each key once
        self.seq.add(1, [z3.Extract(7, 0, self.n)])
        for i in range(self.nmax):
            live = z3.ULT(BV64(i), self.n)
            if self.kw == 8:
                self.seq.add(z3.If(live, BV64(1), BV64(0)), [self.ks[i]])
            else:
                bounded(ex, self.ks[i], self.maxvb)
                k, bs = enc_int('uvarint', self.ks[i])
                self.seq.add(z3.If(live, k, BV64(0)), bs[:self.maxvb])
            bounded(ex, self.vs[i], self.maxvb)
            k, bs = enc_int('uvarint', self.vs[i])
            self.seq.add(z3.If(live, k, BV64(0)), bs[:self.maxvb])
        # arbitrary prior destination: any set of <= 2 entries
        self.pk = [z3.BitVec('prior_k_%d' % j, self.kw) for j in range(2)]
        self.pv = [z3.BitVec('prior_v_%d' % j, 32) for j in range(2)]
        self.pp = [z3.Bool('prior_present_%d' % j) for j in range(2)]
        ex.assume(z3.Implies(z3.And(self.pp[0], self.pp[1]), self.pk[0] != self.pk[1]))
        self.obj = Obj('unordered_map', 56)
        self.map = stubs.UMapModel(ex, self.obj, self.kw, 32, list(zip(self.pk, self.pv, self.pp)))
        self.fn, self.args = 'h_' + op, [Ptr(st['s'], 0), Ptr(self.obj, 0)]

    def checks(self, res):
        live = [z3.ULT(BV64(i), self.n) for i in range(self.nmax)]
        kw = self.kw
        no_stale = z3.And(*[z3.Implies(pr, z3.Or(*[z3.And(live[i], bv(k, kw) == self.ks[i]) for i in range(self.nmax)]))
                            for k, v, pr in self.map.entries])
        vals = z3.And(*[z3.Implies(z3.And(live[i], pr, bv(k, kw) == self.ks[i]), bv(v, 32) == self.vs[i])
                        for i in range(self.nmax) for k, v, pr in self.map.entries])
        present = z3.And(*[z3.Implies(live[i], self.map.contains(self.ks[i])) for i in range(self.nmax)])
        return [('no-stale-entries', no_stale), ('values-from-stream', vals), ('all-keys-present', present)]

    @staticmethod
    def _fmt(entries):
        es = sorted(entries)
        return "ret size=%d entries=%s" % (len(es), ",".join("%d=%d" % e for e in es))

    def cmd(self, mdl):
        pr = [(mval(mdl, k), mval(mdl, v)) for k, v, p in zip(self.pk, self.pv, self.pp) if mval(mdl, p)]
        return "%s:%s" % (self.op, ",".join("%d=%d" % e for e in pr))

    def engine_line(self, mdl, res):
        return self._fmt([(mval(mdl, k), mval(mdl, v)) for k, v, pr in self.map.entries if mval(mdl, pr)])

    def spec_line(self, mdl):
        n = mval(mdl, self.n)
        return self._fmt([(mval(mdl, self.ks[i]), mval(mdl, self.vs[i])) for i in range(n)])

    def model(self, mdl):
        n = mval(mdl, self.n)
        return dict(stream_entries=[(mval(mdl, self.ks[i]), mval(mdl, self.vs[i])) for i in range(n)],
                    prior_entries=[(mval(mdl, k), mval(mdl, v)) for k, v, p in zip(self.pk, self.pv, self.pp) if mval(mdl, p)])


class RBlock(RCase):
    needs64 = True

    def __init__(self, ex, st, op, spec):
        RCase.__init__(self, ex, st, op, spec)
        self.x = z3.BitVec('x', 32)
        k, bs = enc_int('uvarint', self.x)
        self.seq.add(1, [B8(1)]).add(k, bs)       # what WriteBlock emits: block length 1, then the item
        self.remo = Obj('current_block_remaining', 8)
        ex.store_val(Ptr(self.remo, 0), ir.I64, 0, check=False)
        self.dst = Obj('destination', 4)
        self.prior = z3.BitVec('prior', 32)
        ex.store_val(Ptr(self.dst, 0), ir.I32, self.prior, check=False)
        self.fn, self.args = 'h_ReadBlock_u32', [Ptr(st['s'], 0), Ptr(self.remo, 0), Ptr(self.dst, 0)]

    def checks(self, res):
        v = self.ex.load_val(Ptr(self.dst, 0), ir.I32, check=False)
        r = self.ex.load_val(Ptr(self.remo, 0), ir.I64, check=False)
        rb = core.as_bool(res.ret)
        rb = z3.BoolVal(rb) if isinstance(rb, bool) else rb
        return [('value', z3.And(rb, bv(v, 32) == self.x, bv(r, 64) == 0))]

    def cmd(self, mdl):
        return "ReadBlock_u32:0"

    def engine_line(self, mdl, res):
        v = self.ex.load_val(Ptr(self.dst, 0), ir.I32, check=False)
        r = self.ex.load_val(Ptr(self.remo, 0), ir.I64, check=False)
        return "ret %d r=%d v=%d" % (mval(mdl, res.ret) if not isinstance(res.ret, bool) else int(res.ret), mval(mdl, r), mval(mdl, v))

    def spec_line(self, mdl):
        return "ret 1 r=0 v=%d" % mval(mdl, self.x)

    def model(self, mdl):
        return dict(x=mval(mdl, self.x))


def rcase(op):
    if op.startswith('ReadInteger_'):
        return RInteger
    if op.startswith('ReadOptional'):
        return ROptional
    if op.startswith('ReadVector'):
        return RVector
    if op.startswith('ReadArray'):
        return RArray
    if op.startswith('ReadMap'):
        return RMap
    if op.startswith('ReadBlock'):
        return RBlock
    raise ValueError(op)


MAP_KEYS = {'no-stale-entries': "cc:ReadMap:stale-entries-kept",
            'values-from-stream': "cc:ReadMap:stale-value-kept-for-existing-key",
            'all-keys-present': "cc:ReadMap:stream-entry-missing"}
MAP_DESC = {'no-stale-entries': "ReadMap emplaces into the destination without clearing it: an entry of the prior destination whose key is not "
                                "in the stream is still present after the read",
            'values-from-stream': "ReadMap emplaces into the destination without clearing it and emplace does not overwrite: for a key present "
                                  "both in the prior destination and in the stream the stale prior value is kept",
            'all-keys-present': "an entry of the stream is missing from the destination"}


def reader_task(spec):
    t_start = time.time()
    mod = C.load_module(spec['ir'])
    op, N = spec['op'], spec['N']
    cls = rcase(op)
    tag = "S.%s.N%d%s" % (op, N, ('.n%d' % spec['nfix']) if spec.get('nfix') is not None else '')
    tally = Tally()
    O = lambda s_: "%s.%s" % (tag, s_)
    base_names = ['returns', 'consumed', 'reader-invariant', 'memory-safe']
    val_names = ['no-stale-entries', 'values-from-stream', 'all-keys-present'] if cls is RMap else ['value']
    names = base_names + val_names
    for n_ in names:
        tally.get(O(n_))
    samples, cands = [], {}
    want_samples = spec.get('samples', 3)
    pathno = [0]

    def body(ex):
        # generous static bound on the stream bytes; the exact one is known after the case built its encoding
        st = reader_state(ex, N, spec.get('M', 24), stream_primary=True)
        ex.st = st
        case = cls(ex, st, op, spec)
        st['case'] = case
        seq = case.seq
        tot = seq.total()
        if seq.maxlen + 2 > st['M']:
            raise core.Unsupported("stream bound M=%d too small for %d encoded bytes" % (st['M'], seq.maxlen))
        for j in range(seq.maxlen):
            ex.assume(z3.Implies(z3.ULT(BV64(j), tot), st['L'](j) == seq.at(j)))
        ex.assume(z3.UGE(st['T'], tot))
        st['tot'] = tot
        if not ex.prefix and ex.check() != z3.sat:
            raise core.Unsupported("setup assumptions unsatisfiable")
        return ex.run(case.fn, case.args)

    def sample(res):
        ex, st = res.ex, res.ex.st
        case = st['case']
        mdl = getattr(ex, 'cex_model', None)
        if mdl is None:
            mdl = ex.model()
        if mdl is None:
            return None, None
        head, cmds, _ = reader_script(mdl, st, op, None)
        exp = None
        if res.kind == 'ret':
            exp = case.engine_line(mdl, res)
        elif res.kind == 'throws':
            exp = "throw " + res.info['type']
        drain = None
        post = reader_post(ex, st)
        if res.kind in ('ret', 'throws') and post['same_obj']:
            p2, e2 = mval(mdl, post['p']), mval(mdl, post['e'])
            ist = st['ist']
            pos, tot = mval(mdl, ist.pos), mval(mdl, ist.total)
            IN = [mval(mdl, b) for b in st['IN']]
            if p2 <= e2 <= N:
                drain = bytes([mval(mdl, st['buf'].cells[i]) for i in range(p2, e2)] + IN[pos:tot]).hex()
        model = dict(p=mval(mdl, st['p']), e=mval(mdl, st['e']), rem=mval(mdl, st['rem']), fresh=bool(mval(mdl, st['fresh'])))
        model.update(case.model(mdl))
        smp = dict(kind='reader', tag=tag, op=op, N=N, argv=head + cmds + [case.cmd(mdl), "drain"], nprefix=len(cmds), expect_op=exp,
                   expect_drain=drain, outcome=res.kind, model=model)
        return smp, mdl

    def candidate(key, obligation, desc, res, must='any'):
        c = cands.get(key)
        if c is not None:
            c['count'] += 1
            return
        smp, mdl = sample(res)
        if smp is None:
            tally.inconclusive(obligation, "no model for counterexample %s" % key)
            return
        st = res.ex.st
        case = st['case']
        Tc = mval(mdl, st['T'])
        Lc = [mval(mdl, st['L'](i)) for i in range(Tc)]
        cands[key] = dict(key=key, obligation=obligation, desc=desc, sample=smp, must=must, count=1, spec_op=case.spec_line(mdl),
                          spec_drain=bytes(Lc[mval(mdl, st['tot']):]).hex())

    def on_path(res):
        ex = res.ex
        pathno[0] += 1
        k = res.kind
        if k == 'unsupported':
            for n_ in names:
                tally.inconclusive(O(n_), res.info.get('why', '')[:160])
            return
        if k == 'unwind':
            for n_ in names:
                tally.inconclusive(O(n_), "unwinding cap: " + str(res.info.get('why')))
            return
        st = ex.st
        case = st['case']
        tally.reach(O('memory-safe'))
        if k in ('oob', 'oob-gep', 'null-deref', 'use-after-scope', 'ub-shift', 'div-by-zero', 'unreachable', 'trap', 'guard',
                 'vector-realloc', 'vector-too-long'):
            fr = [re.sub(r'<.*', '', f[0]) for f in res.info.get('site', [])]
            yard = [f for f in fr if not f.startswith('_Z') and f not in ('operator[]', 'data', 'size', 'capacity', 'min')]
            key = "cc:%s:%s:%s" % (op, (yard[0] if yard else (fr[0] if fr else op)), k)
            tally.fail(O('memory-safe'), key)
            candidate(key, O('memory-safe'), "%s (%s) in %s: %s" % (k, res.info.get('obj'), ' < '.join(fr[:4]), res.info.get('instr', '')[:80]),
                      res, 'asan' if k != 'guard' else 'any')
            return
        tally.reach(O('returns'))
        if k != 'ret':
            tally.fail(O('returns'), "%s %s" % (k, res.info.get('type', '')))
            candidate("cc:%s:%s-on-complete-input" % (op, k), O('returns'), "%s ends with %s %s although the whole encoding is present" %
                      (op, k, res.info.get('type', '')), res)
            return
        post = reader_post(ex, st)
        p2, e2, rem2 = bv(post['p'], 64), bv(post['e'], 64), bv(post['rem'], 64)
        T2 = e2 - p2 + rem2
        pairs = [('reader-invariant', reader_inv(st, post)), ('consumed', st['T'] - T2 == st['tot'])] + case.checks(res)
        bad = tally.prove_all(ex, [(O(n_), f) for n_, f in pairs])
        for oid, m_ in bad.items():
            if m_ == 'unknown':
                continue
            ex.cex_model = m_
            short = oid.rsplit('.', 1)[-1]
            if cls is RMap and short in MAP_KEYS:
                candidate(MAP_KEYS[short], oid, MAP_DESC[short] + " (instantiation %s)" % op, res)
            elif short == 'value':
                candidate("cc:%s:destination-differs-from-stream" % op, oid,
                          "after %s the destination differs from the value encoded in the stream (stale prior state or wrong decode)" % op, res)
            else:
                candidate("cc:%s:%s" % (op, short), oid, "%s: obligation %s refuted" % (op, short), res)
        ex.cex_model = None
        if len(samples) < want_samples and (pathno[0] + spec.get('seed', 0)) % spec.get('stride', 1) == 0:
            s_, _ = sample(res)
            if s_ is not None:
                samples.append(s_)

    deadline = t_start + spec.get('budget_s', 600)
    stats, problems = core.explore(mod, body, on_path, intercepts=stubs.BASE, patterns=stubs.PATTERNS, loop_cap=spec.get('loop_cap', 40),
                                   deadline=deadline, max_paths=spec.get('max_paths', 50000))
    obl = tally.finish()
    if problems:
        for d_ in obl:
            if d_['status'] == 'holds':
                d_['status'] = 'inconclusive'
                d_['note'] = (d_['note'] + '; ' + problems[0])[:400].strip('; ')
    return dict(tag=tag, obligations=obl, stats=C.stats_dict(stats), cands=list(cands.values()), samples=samples,
                problems=sorted(set(problems)), wall_s=time.time() - t_start)


# ================================================================================================
# writer cases
# ================================================================================================

def writer_task(spec):
    t_start = time.time()
    mod = C.load_module(spec['ir'])
    op, N = spec['op'], spec['N']
    tag = "SW.%s.N%d%s" % (op, N, ('.n%d' % spec['nfix']) if spec.get('nfix') is not None else '')
    tally = Tally()
    O = lambda s_: "%s.%s" % (tag, s_)
    names = ['returns', 'bytes', 'invariant', 'memory-safe']
    for n_ in names:
        tally.get(O(n_))
    samples, cands = [], {}
    want_samples = spec.get('samples', 3)
    pathno = [0]
    F = [mod.field_offset(COS, i) for i in range(4)]
    maxvb = spec.get('maxvb', 5)

    def body(ex):
        m = ex.m
        p = z3.BitVec('p', 64)
        ex.assume(z3.ULE(p, BV64(N)))
        W = [z3.BitVec('buf_%d' % i, 8) for i in range(N)]
        buf = Obj('buffer', N)
        buf.cells = list(W)
        ost = stubs.OStreamModel(ex)
        s = Obj('stream', m.sizeof(COS))
        for i in range(s.size):
            s.cells[i] = 0
        ex.store_val(Ptr(s, F[0]), PT, ost.ptr(), check=False)
        ex.store_val(Ptr(s, F[1]), PT, Ptr(buf, 0), check=False)
        ex.store_val(Ptr(s, F[1] + 8), PT, Ptr(buf, N), check=False)
        ex.store_val(Ptr(s, F[1] + 16), PT, Ptr(buf, N), check=False)
        ex.store_val(Ptr(s, F[2]), PT, Ptr(buf, p), check=False)
        ex.store_val(Ptr(s, F[3]), PT, Ptr(buf, N), check=False)
        seq = SymSeq()
        st = dict(p=p, W=W, buf=buf, ost=ost, s=s, N=N, seq=seq)
        ex.st = st
        if op.startswith('WriteInteger_'):
            t = op.split('_', 1)[1]
            w, kind = INTS[t]
            x = z3.BitVec('x', w)
            if t == 'bool':
                ex.assume(z3.ULE(x, B8(1)))
            seq.add(*enc_int(kind, x))
            src = Obj('value', w // 8)
            ex.store_val(Ptr(src, 0), ('int', w), x, check=False)
            st['cmd'] = lambda mdl: "%s:%d" % (op, mval(mdl, x))
            st['model'] = lambda mdl: dict(x=mval(mdl, x))
        elif op == 'WriteOptional_u32':
            has, x = z3.Bool('has'), z3.BitVec('x', 32)
            n, bs = enc_int('uvarint', x)
            seq.add(1, [z3.If(has, B8(1), B8(0))]).add(z3.If(has, n, BV64(0)), bs)
            src = Obj('optional', 8)
            ex.store_val(Ptr(src, 0), ir.I32, x, check=False)
            ex.store_val(Ptr(src, 4), ir.I8, simp(z3.If(has, B8(1), B8(0))), check=False)
            for i in (5, 6, 7):
                src.cells[i] = 0
            st['cmd'] = lambda mdl: "%s:%d:%d" % (op, mval(mdl, has), mval(mdl, x))
            st['model'] = lambda mdl: dict(has=mval(mdl, has), x=mval(mdl, x))
        elif op.startswith('WriteVector'):
            sz = 1 if op.endswith('u8') else 4
            nmax = spec.get('nmax', 3)
            n = z3.BitVec('n', 64)
            ex.assume(z3.ULE(n, BV64(nmax)))
            if spec.get('nfix') is not None:
                ex.assume(n == spec['nfix'])
            xs = [z3.BitVec('x_%d' % i, 8 * sz) for i in range(nmax)]
            seq.add(1, [z3.Extract(7, 0, n)])
            cells = []
            if sz == 1:
                seq.add(n, xs)
                cells = list(xs)
            else:
                for i, x in enumerate(xs):
                    bounded(ex, x, maxvb)
                    k, bs = enc_int('uvarint', x)
                    seq.add(z3.If(z3.ULT(BV64(i), n), k, BV64(0)), bs[:maxvb])
                    cells += [simp(z3.Extract(8 * b + 7, 8 * b, x)) for b in range(4)]
            src, vd = mk_vector(ex, 'vector', sz, nmax, n, BV64(nmax), cells)
            fmt = (lambda vals: bytes(vals).hex()) if sz == 1 else fmt_u32s
            st['cmd'] = lambda mdl: "%s:%s" % (op, fmt([mval(mdl, x) for x in xs[:mval(mdl, n)]]))
            st['model'] = lambda mdl: dict(n=mval(mdl, n), items=[mval(mdl, x) for x in xs[:mval(mdl, n)]])
        elif op == 'WriteBlock_u32':
            x = z3.BitVec('x', 32)
            k, bs = enc_int('uvarint', x)
            seq.add(1, [B8(1)]).add(k, bs)
            src = Obj('value', 4)
            ex.store_val(Ptr(src, 0), ir.I32, x, check=False)
            st['cmd'] = lambda mdl: "%s:%d" % (op, mval(mdl, x))
            st['model'] = lambda mdl: dict(x=mval(mdl, x))
        else:
            raise ValueError(op)
        if not ex.prefix and ex.check() != z3.sat:
            raise core.Unsupported("setup assumptions unsatisfiable")
        ex.run('h_' + op, [Ptr(s, 0), Ptr(src, 0)])
        st['post_op'] = writer_post(ex, st)
        ex.run('h_Flush', [Ptr(s, 0)])
        return None

    def writer_post(ex, st):
        s = st['s']
        pp = ex.load_val(Ptr(s, F[2]), PT, check=False)
        ep = ex.load_val(Ptr(s, F[3]), PT, check=False)
        bg = ex.load_val(Ptr(s, F[1]), PT, check=False)
        fn_ = ex.load_val(Ptr(s, F[1] + 8), PT, check=False)
        ok = all(q.obj is st['buf'] for q in (pp, ep, bg, fn_)) and is_c(bg.off) and bg.off == 0 and is_c(fn_.off) and \
            fn_.off == N and is_c(ep.off) and ep.off == N
        return dict(ok=ok, p=pp.off)

    def sample(res):
        ex, st = res.ex, res.ex.st
        mdl = getattr(ex, 'cex_model', None)
        if mdl is None:
            mdl = ex.model()
        if mdl is None:
            return None, None
        p = mval(mdl, st['p'])
        Wv = [mval(mdl, b) for b in st['W']]
        argv = ["W", str(N)]
        if p:
            argv.append("pre:" + bytes(Wv[:p]).hex())
        argv += [st['cmd'](mdl), "Flush"]
        exp = None
        if res.kind == 'ret':
            ost = st['ost']
            tot = mval(mdl, ost.total())
            exp = bytes(mval(mdl, ost.byte_at(i)) for i in range(tot)).hex()
        md = dict(p=p)
        md.update(st['model'](mdl))
        return dict(kind='writer', tag=tag, op=op, N=N, argv=argv, expect_out=exp, outcome=res.kind, model=md), mdl

    def candidate(key, obligation, desc, res, must='any'):
        c = cands.get(key)
        if c is not None:
            c['count'] += 1
            return
        smp, mdl = sample(res)
        if smp is None:
            tally.inconclusive(obligation, "no model for counterexample %s" % key)
            return
        st = res.ex.st
        spec_out = (bytes(mval(mdl, b) for b in st['W'][:mval(mdl, st['p'])]) + st['seq'].concrete(mdl)).hex()
        cands[key] = dict(key=key, obligation=obligation, desc=desc, sample=smp, must=must, count=1, spec_out=spec_out)

    def on_path(res):
        ex = res.ex
        pathno[0] += 1
        k = res.kind
        if k == 'unsupported':
            for n_ in names:
                tally.inconclusive(O(n_), res.info.get('why', '')[:160])
            return
        if k == 'unwind':
            for n_ in names:
                tally.inconclusive(O(n_), "unwinding cap: " + str(res.info.get('why')))
            return
        st = ex.st
        tally.reach(O('memory-safe'))
        if k in ('oob', 'oob-gep', 'null-deref', 'use-after-scope', 'ub-shift', 'div-by-zero', 'unreachable', 'trap', 'guard'):
            fr = [re.sub(r'<.*', '', f[0]) for f in res.info.get('site', [])]
            key = "cc:%s:%s:%s" % (op, fr[0] if fr else op, k)
            tally.fail(O('memory-safe'), key)
            candidate(key, O('memory-safe'), "%s in %s (%s)" % (k, ' < '.join(fr[:3]), res.info.get('instr', '')[:80]), res, 'asan')
            return
        tally.reach(O('returns'))
        if k != 'ret':
            tally.fail(O('returns'), "%s %s" % (k, res.info.get('type', '')))
            candidate("cc:%s:throws" % op, O('returns'), "%s/Flush ends with %s" % (op, k), res)
            return
        po = st['post_op']
        pf = writer_post(ex, st)
        inv = z3.And(z3.ULE(bv(po['p'], 64), BV64(N)), bv(pf['p'], 64) == 0) if (po['ok'] and pf['ok']) else False
        ost, seq, p = st['ost'], st['seq'], st['p']
        full = SymSeq().add(p, st['W'])
        for n, bs in seq.parts:
            full.add(n, bs)
        tot = full.total()
        conj = [bv(ost.total(), 64) == tot]
        for j in range(full.maxlen):
            conj.append(z3.Implies(z3.ULT(BV64(j), tot), ost.byte_at(j) == full.at(j)))
        bad = tally.prove_all(ex, [(O('invariant'), inv), (O('bytes'), z3.And(*conj))])
        for oid, m_ in bad.items():
            if m_ == 'unknown':
                continue
            ex.cex_model = m_
            short = oid.rsplit('.', 1)[-1]
            candidate("cc:%s:%s" % (op, 'bytes-mismatch' if short == 'bytes' else 'invariant-broken'), oid,
                      "bytes emitted by %s differ from the reference codec" % op if short == 'bytes' else "writer invariant broken by %s" % op, res)
        ex.cex_model = None
        if len(samples) < want_samples and (pathno[0] + spec.get('seed', 0)) % spec.get('stride', 1) == 0:
            s_, _ = sample(res)
            if s_ is not None:
                samples.append(s_)

    deadline = t_start + spec.get('budget_s', 600)
    stats, problems = core.explore(mod, body, on_path, intercepts=stubs.BASE, patterns=stubs.PATTERNS, loop_cap=spec.get('loop_cap', 40),
                                   deadline=deadline, max_paths=spec.get('max_paths', 50000))
    obl = tally.finish()
    if problems:
        for d_ in obl:
            if d_['status'] == 'holds':
                d_['status'] = 'inconclusive'
                d_['note'] = (d_['note'] + '; ' + problems[0])[:400].strip('; ')
    return dict(tag=tag, obligations=obl, stats=C.stats_dict(stats), cands=list(cands.values()), samples=samples,
                problems=sorted(set(problems)), wall_s=time.time() - t_start)


def run_task(spec):
    return reader_task(spec) if spec['kind'] == 'sread' else writer_task(spec)


# ================================================================================================
# parts
# ================================================================================================

ASSUME_REUSE = [
    "serializers.h is compiled at -O0 behind a stub yardl.h (harness/cc/stubinc/yardl.h); nothing in the stub is executed",
    "the stream holds the reference-codec encoding (spec/refcodec.py) of symbolic values followed by arbitrary bytes; it is not truncated "
    "(truncation is C16); container lengths are single-byte varints within the stated bounds; element/key/value varints use at most "
    "`maxvb` bytes (per-task bound)",
    "prior destination: optional = symbolic has_value and payload; vector = symbolic size <= capacity <= 3 and contents (size/data/operator[] "
    "are executed from the IR, resize is a stub that also models reallocation into a fresh maximal storage object); array = symbolic "
    "contents; unordered_map = abstract set of <= 2 symbolic entries with distinct keys",
    "std::unordered_map is NOT executed: emplace is replaced by the abstract-map contract (insert iff key absent, no overwrite); stream keys "
    "are pairwise distinct (a writer emits each key once); native replays use a real std::unordered_map",
    "ReadFixedNDArray/ReadNDArray/ReadDynamicNDArray are not covered: the stub yardl.h has no array implementation (xtensor is absent), "
    "so there is nothing real to execute behind them",
]


def _ir(name="reuse.cc"):
    text, cmd = build.compile_ir(name, "-O0", ndebug=True, stub=True)
    pth = os.path.join(build.tmpdir(), "%s.rel.ll" % name)
    with open(pth, "w") as f:
        f.write(text)
    return pth, cmd


def _finish(part, K, prop, results, t0):
    K._merge(part, results)
    native = K.Native("reuse", stub=True)
    try:
        K._validate_samples(part, native, results)
        K._confirm(part, prop, native, results)
    except Exception as e:
        part["inconclusive"].append("native replay failed: %s" % e)
    for v in part["violations"]:
        if not v["replay_confirmed"]:
            for o in part["obligations"]:
                if o["id"] == v["obligation"] and o["status"] == "violated":
                    o["status"] = "inconclusive"
                    o["note"] = (o["note"] + "; counterexample did not replay natively").strip("; ")
    part["wall_s"] = round(time.time() - t0, 2)
    return part


def reuse_part(prop, tier, seed):
    from parts import cc_kernels as K
    t0 = time.time()
    part = vcommon.new_part("cc_reuse", "llsym")
    part["solvers"] = [K.SOLVER]
    thorough = tier == "thorough"
    pth, cmd = _ir()
    budget = 700 if thorough else 420
    base = dict(kind='sread', ir=pth, seed=seed, budget_s=budget, samples=(10 if thorough else 2), stride=(1 if thorough else 3),
                xcheck=(2 if thorough else 0), xcheck_stride=5)
    specs = []
    mv = 3 if thorough else 2
    for Ns_, Nc in (((8, 12),) if not thorough else ((8, 12), (16, 16))):
        specs.append(dict(base, op='ReadOptional_u32', N=Ns_, maxvb=5))
        specs.append(dict(base, op='ReadArray_u8_3', N=Ns_))
        specs.append(dict(base, op='ReadArray_u32_2', N=Ns_, maxvb=mv))
        for n in range(0, 4):
            specs.append(dict(base, op='ReadVector_u8', N=Nc, nmax=3, nfix=n))
        for n in range(0, (4 if thorough else 3)):
            specs.append(dict(base, op='ReadVector_u32', N=Nc, nmax=(3 if thorough else 2), nfix=n, maxvb=(mv if n < 2 else (2 if n < 3 else 1))))
        for n in range(0, 3):
            specs.append(dict(base, op='ReadMap_u8_u32', N=Nc, nfix=n, maxvb=(mv if n < 2 else 2)))
            specs.append(dict(base, op='ReadMap_u32_u32', N=Nc, nfix=n, maxvb=(2 if (n < 2 or thorough) else 1)))
    specs.sort(key=lambda s: -((s.get('nfix') or 0) * 10 + s.get('maxvb', 1)))
    results = K._pool_run(specs)
    part["bounds"] = {"tasks": [dict(op=s['op'], N=s['N'], elements=s.get('nfix', 'n/a'), maxvb=s.get('maxvb', 'n/a')) for s in specs],
                      "prior vector": "size <= capacity <= 3", "prior map": "<= 2 entries", "stream map": "<= 2 entries", "clang": [cmd]}
    part["assumptions"] = K.ASSUME_COMMON + K.ASSUME_READER + ASSUME_REUSE
    return _finish(part, K, prop, results, t0)


def serializers_part(prop, tier, seed):
    from parts import cc_kernels as K
    t0 = time.time()
    part = vcommon.new_part("cc_serializers", "llsym")
    part["solvers"] = [K.SOLVER]
    thorough = tier == "thorough"
    pth, cmd = _ir()
    budget = 700 if thorough else 420
    base = dict(ir=pth, seed=seed, budget_s=budget, samples=(10 if thorough else 2), stride=(1 if thorough else 3),
                xcheck=(2 if thorough else 0), xcheck_stride=5)
    specs = []
    Ns = [8, 16] if thorough else [8]
    for N0 in Ns:
        for t, (w, kind) in INTS.items():
            N = max(N0, 12) if w == 64 else N0
            specs.append(dict(base, kind='swrite', op='WriteInteger_' + t, N=N))
            specs.append(dict(base, kind='sread', op='ReadInteger_' + t, N=N))
        specs.append(dict(base, kind='swrite', op='WriteOptional_u32', N=N0))
        specs.append(dict(base, kind='sread', op='ReadOptional_u32', N=N0))
        specs.append(dict(base, kind='swrite', op='WriteBlock_u32', N=N0))
        specs.append(dict(base, kind='sread', op='ReadBlock_u32', N=max(N0, 12)))
        Nv = max(N0, 12)
        for n in range(0, 4):
            specs.append(dict(base, kind='swrite', op='WriteVector_u8', N=Nv, nmax=3, nfix=n))
            specs.append(dict(base, kind='sread', op='ReadVector_u8', N=Nv, nmax=3, nfix=n))
        for n in range(0, 3):
            specs.append(dict(base, kind='swrite', op='WriteVector_u32', N=Nv, nmax=2, nfix=n, maxvb=(5 if n < 2 else 3)))
            specs.append(dict(base, kind='sread', op='ReadVector_u32', N=Nv, nmax=2, nfix=n, maxvb=(3 if thorough and n < 2 else 2)))
    specs.sort(key=lambda s: -((s.get('nfix') or 0) * 10 + s.get('maxvb', 1) + (3 if s['kind'] == 'sread' else 0)))
    results = K._pool_run(specs)
    part["bounds"] = {"tasks": [dict(op=s['op'], N=s['N'], elements=s.get('nfix', 'n/a'), maxvb=s.get('maxvb', 'n/a')) for s in specs],
                      "integer types": sorted(INTS), "clang": [cmd]}
    part["assumptions"] = K.ASSUME_COMMON + K.ASSUME_READER + K.ASSUME_WRITER + ASSUME_REUSE[:3] + [
        "integer dispatch oracle (head table, C++ half): bool/int8/uint8 = one raw byte; int16/32/64 = zig-zag + LEB128; "
        "uint16/32/64/size_t = LEB128 (docs/reference/binary.md; int8/uint8 deviation recorded as F11)"]
    return _finish(part, K, prop, results, t0)
