"""llsym driver for C16 on stream steps and length-prefixed containers: ReadBlock / ReadBlocksIntoVector (through the
consumer loop of a generated reader, harness/cc/trunc_gen.h), ReadVector, ReadMap on the first c bytes of a valid
encoding, c symbolic; plus the self-test of the engine's C++ exception handling (harness/cc/ehself.h).

Stream steps.  The logical input bytes are free symbolic values constrained by the reference block parser of
parts/cc_blocks.py (ref_parse: "Streams" in docs/reference/binary.md) to be a complete block-structured encoding
(<= max_items items in blocks of 1..max_items items, terminating 0) of `full` bytes; the reader is given only the
first T <= full of them (T symbolic: T = full is the complete stream, T < full every cut position, inside an item,
inside the terminator, exactly on a block boundary).  The whole consumer loop

    while (reader.ReadItems(batch)) deliver(batch);  reader.Close();

runs symbolically over the real ReadBlocksIntoVector / ReadBlock / VerifyFinished.  Obligations:
    truncation-reported  the loop + Close() end normally only if T == full
    no-item-lost         ... and then exactly the written items were delivered, in order
    error-kind           otherwise an EndOfStreamException or std::runtime_error propagates out of some call
    memory-safe          no out-of-object / out-of-window access, no access beyond the vector's size
"""
import os
import re
import sys
import time

VERIF = os.path.dirname(os.path.dirname(os.path.abspath(__file__)))
for p in (VERIF, os.path.join(VERIF, "engine")):
    if p not in sys.path:
        sys.path.insert(0, p)

import z3  # noqa: E402

from lib import vcommon  # noqa: E402
from llsym import ir, core, stubs, build  # noqa: E402
from llsym.core import Obj, Ptr, bv, simp, is_c  # noqa: E402
from parts import cc_common as C  # noqa: E402
from parts.cc_common import BV64, PT, Tally, mval, reader_state, reader_post, reader_script  # noqa: E402
from parts.cc_blocks import ref_parse  # noqa: E402

OUT_CAP = 8
STREAM_OPS = {
    # name: (entry point, item kind, batch overload?)
    'DriveBatch_u8': ('h_DriveBatch_u8', 'u8', True),
    'DriveBatch_u32': ('h_DriveBatch_u32', 'u32', True),
    'DriveSingle_u8': ('h_DriveSingle_u8', 'u8', False),
    'DriveSingle_u32': ('h_DriveSingle_u32', 'u32', False),
}
EOS = 'yardl::binary::EndOfStreamException'
MEMORY_KINDS = ('oob', 'oob-gep', 'null-deref', 'use-after-scope', 'ub-shift', 'div-by-zero', 'unreachable', 'trap', 'guard',
                'vector-realloc', 'vector-too-long')


def _drain(ex, st, mdl, res):
    post = reader_post(ex, st)
    if res.kind in ('ret', 'throws') and post['same_obj']:
        p2, e2 = mval(mdl, post['p']), mval(mdl, post['e'])
        ist = st['ist']
        pos, tot = mval(mdl, ist.pos), mval(mdl, ist.total)
        IN = [mval(mdl, b) for b in st['IN']]
        if p2 <= e2 <= st['N']:
            return bytes([mval(mdl, st['buf'].cells[i]) for i in range(p2, e2)] + IN[pos:tot]).hex()
    return None


def _finish_task(tag, tally, stats, problems, cands, samples, t_start):
    obl = tally.finish()
    if problems:
        for d_ in obl:
            if d_['status'] == 'holds':
                d_['status'] = 'inconclusive'
                d_['note'] = (d_['note'] + '; ' + problems[0])[:400].strip('; ')
    return dict(tag=tag, obligations=obl, stats=C.stats_dict(stats), cands=list(cands.values()), samples=samples,
                problems=sorted(set(problems)), wall_s=time.time() - t_start)


# ================================================================================================
# stream steps: the consumer loop over ReadBlocksIntoVector / ReadBlock
# ================================================================================================

def stream_task(spec):
    t_start = time.time()
    mod = C.load_module(spec['ir'])
    op, N = spec['op'], spec['N']
    fn, kind, is_batch = STREAM_OPS[op]
    maxib = 1 if kind == 'u8' else spec.get('maxib', 2)
    sz = 1 if kind == 'u8' else 4
    w = 8 * sz
    MAX_ITEMS = spec.get('max_items', 4)
    steps = MAX_ITEMS * maxib + MAX_ITEMS + 1
    CAP = spec.get('cap_max', 4)
    capfix = spec.get('cap')
    state = spec.get('state', 'boundary')
    tag = "TS.%s.N%d.n%d%s.%s" % (op, N, MAX_ITEMS, ('.cap%d' % capfix) if capfix else '', state)
    tally = Tally()
    O = lambda s_: "%s.%s" % (tag, s_)
    names = ['truncation-reported', 'no-item-lost', 'error-kind', 'memory-safe']
    for n_ in names:
        tally.get(O(n_))
    samples, cands = [], {}
    want_samples = spec.get('samples', 6)
    pathno = [0]
    seen_outcomes = {}

    def body(ex):
        st = reader_state(ex, N, steps, stream_primary=True)
        ex.st = st
        L, T = st['L'], st['T']
        items, total, states, wf = ref_parse(L, BV64(0), BV64(steps), kind, maxib, steps, MAX_ITEMS)
        ex.assume(wf)
        full = states[-1][0]                  # length of the complete encoding (position after the terminating 0)
        ex.assume(z3.ULE(T, full))            # the reader gets the first T bytes: T == full complete, T < full truncated
        if state == 'boundary':
            ex.assume(st['p'] == st['e'])     # reader at a refill boundary (fresh, or buffer exactly drained)
        elif state == 'fresh':
            ex.assume(st['fresh'])
        out = Obj('delivered', OUT_CAP * sz)
        for i in range(out.size):
            out.cells[i] = 0
        st.update(items=items, total=total, full=full, out=out)
        args = [Ptr(st['s'], 0)]
        if is_batch:
            c, s0 = z3.BitVec('cap', 64), z3.BitVec('size0', 64)
            ex.assume(z3.And(z3.UGE(c, BV64(1)), z3.ULE(c, BV64(CAP)), z3.ULE(s0, c)))
            if capfix:
                ex.assume(c == capfix)
            if spec.get('prior_empty'):
                ex.assume(s0 == 0)
            V = [z3.BitVec('vec_%d' % i, 8) for i in range(CAP * sz)]
            vd = Obj('vector.storage', CAP * sz)
            vd.cells = list(V)
            vec = Obj('vector', 24)
            ex.store_val(Ptr(vec, 0), PT, Ptr(vd, 0), check=False)
            ex.store_val(Ptr(vec, 8), PT, Ptr(vd, simp(s0 * sz)), check=False)
            ex.store_val(Ptr(vec, 16), PT, Ptr(vd, simp(c * sz)), check=False)

            def vguard(ex_, off, nb, is_store):
                endp = ex_.load_val(Ptr(vec, 8), PT, check=False)
                return z3.ULE(bv(off, 64) + bv(nb, 64), bv(endp.off, 64))
            vd.guard = vguard
            st.update(c=c, s0=s0, V=V, vd=vd, vec=vec)
            args.append(Ptr(vec, 0))
        args += [Ptr(out, 0), OUT_CAP]
        if not ex.prefix and ex.check() != z3.sat:
            raise core.Unsupported("setup assumptions unsatisfiable")
        return ex.run(fn, args)

    def fmt_items(vals):
        return bytes(vals).hex() if kind == 'u8' else ",".join(str(v) for v in vals)

    def native_cmd(mdl, st):
        if not is_batch:
            return op
        c, s0 = mval(mdl, st['c']), mval(mdl, st['s0'])
        Vv = [mval(mdl, b) for b in st['V']]
        prior = [int.from_bytes(bytes(Vv[sz * i:sz * (i + 1)]), 'little') for i in range(s0)]
        return "%s:%d:%s" % (op, c, fmt_items(prior))

    def sample(res):
        ex, st = res.ex, res.ex.st
        mdl = getattr(ex, 'cex_model', None)
        if mdl is None:
            mdl = ex.model()
        if mdl is None:
            return None, None
        head, cmds, _ = reader_script(mdl, st, op, None)
        exp = None
        if res.kind == 'ret':
            n = mval(mdl, res.ret)
            if n == (1 << 64) - 1:
                exp = "ret n=overflow"
            else:
                vals = [mval(mdl, ex.load_val(Ptr(st['out'], j * sz), ('int', w), check=False)) for j in range(min(n, OUT_CAP))]
                exp = "ret n=%d items=%s" % (n, fmt_items(vals))
        elif res.kind == 'throws':
            exp = "throw " + res.info['type']
        Tc, fc = mval(mdl, st['T']), mval(mdl, st['full'])
        Lc = bytes(mval(mdl, st['L'](i)) for i in range(fc))
        model = dict(p=mval(mdl, st['p']), e=mval(mdl, st['e']), rem=mval(mdl, st['rem']), fresh=bool(mval(mdl, st['fresh'])),
                     complete_encoding=Lc.hex(), bytes_present=Tc, items_written=mval(mdl, st['total']))
        if is_batch:
            model.update(capacity=mval(mdl, st['c']), prior_size=mval(mdl, st['s0']))
        smp = dict(kind='reader', tag=tag, op=op, N=N, argv=head + cmds + [native_cmd(mdl, st), "drain"], nprefix=len(cmds), expect_op=exp,
                   expect_drain=_drain(ex, st, mdl, res), outcome=res.kind, model=model)
        return smp, mdl

    def candidate(key, obligation, desc, res, must='any'):
        c = cands.get(key)
        if c is not None:
            c['count'] += 1
            return
        smp, mdl = sample(res)
        if smp is None:
            tally.inconclusive(obligation, "no model for counterexample %s" % key)
            return
        st = res.ex.st
        tv = mval(mdl, st['total'])
        if mval(mdl, st['T']) == mval(mdl, st['full']):
            spec_op = "ret n=%d items=%s" % (tv, fmt_items([mval(mdl, st['items'][j]) for j in range(tv)]))
        else:
            spec_op = "throw"
        cands[key] = dict(key=key, obligation=obligation, desc=desc, sample=smp, must=must, count=1, spec_op=spec_op, spec_drain=None)

    def on_path(res):
        ex = res.ex
        pathno[0] += 1
        k = res.kind
        if k == 'unsupported':
            for n_ in names:
                tally.inconclusive(O(n_), res.info.get('why', '')[:160])
            return
        if k == 'unwind':
            for n_ in names:
                tally.inconclusive(O(n_), "unwinding cap: " + str(res.info.get('why')))
            return
        st = ex.st
        seen_outcomes[k] = seen_outcomes.get(k, 0) + 1
        tally.reach(O('memory-safe'))
        if k in MEMORY_KINDS:
            fr = [re.sub(r'<.*', '', f[0]) for f in res.info.get('site', [])]
            yard = [f for f in fr if not f.startswith('_Z') and f not in ('operator[]', 'data', 'size', 'capacity', 'min')]
            key = "cc:%s:%s:%s" % (op, (yard[0] if yard else (fr[0] if fr else op)), k)
            tally.fail(O('memory-safe'), key)
            candidate(key, O('memory-safe'), "%s (%s) in %s: %s" % (k, res.info.get('obj'), ' < '.join(fr[:4]), res.info.get('instr', '')[:80]),
                      res, 'asan' if k != 'guard' else 'any')
            return
        if k == 'ret':
            n = res.ret
            total, items, out = st['total'], st['items'], st['out']
            conj = [bv(n, 64) == total]
            for j in range(MAX_ITEMS):
                ev = ex.load_val(Ptr(out, j * sz), ('int', w), check=False)
                conj.append(z3.Implies(z3.ULT(BV64(j), total), bv(ev, w) == items[j]))
            pairs = [('truncation-reported', st['T'] == st['full']), ('no-item-lost', z3.And(*conj))]
            bad = tally.prove_all(ex, [(O(n_), f) for n_, f in pairs])
            for oid, m_ in bad.items():
                if m_ == 'unknown':
                    continue
                ex.cex_model = m_
                short = oid.rsplit('.', 1)[-1]
                if short == 'truncation-reported':
                    candidate("cc:%s:truncated-stream-read-to-completion" % op, oid,
                              "the consumer loop over the generated reader (%s) and Close() complete normally although only the first T < full bytes "
                              "of the stream step's encoding are present: the truncated stream is taken for a complete one" % op, res)
                else:
                    candidate("cc:%s:items-lost" % op, oid,
                              "the consumer loop over the generated reader (%s) completes normally but the items delivered are not the items written" % op,
                              res)
            ex.cex_model = None
        else:
            tally.reach(O('error-kind'))
            ok = k == 'throws' and res.info.get('type') in (EOS, 'std::runtime_error')
            if not ok:
                tally.fail(O('error-kind'), "outcome %s %s" % (k, res.info.get('type', '')))
                candidate("cc:%s:%s" % (op, k), O('error-kind'), "%s ends with %s %s" % (op, k, res.info.get('type', res.info.get('why', ''))), res)
        if len(samples) < want_samples and (pathno[0] + spec.get('seed', 0)) % spec.get('stride', 1) == 0:
            s_, _ = sample(res)
            if s_ is not None:
                samples.append(s_)

    deadline = t_start + spec.get('budget_s', 900)
    stats, problems = core.explore(mod, body, on_path, intercepts=stubs.BASE, patterns=stubs.PATTERNS, loop_cap=spec.get('loop_cap', 40),
                                   deadline=deadline, max_paths=spec.get('max_paths', 50000))
    r = _finish_task(tag, tally, stats, problems, cands, samples, t_start)
    r['outcomes'] = seen_outcomes
    return r


# ================================================================================================
# length-prefixed containers: ReadVector / ReadMap
# ================================================================================================

def container_task(spec):
    from parts import cc_reuse as R
    t_start = time.time()
    mod = C.load_module(spec['ir'])
    op, N = spec['op'], spec['N']
    cls = R.rcase(op)
    tag = "TC.%s.N%d" % (op, N)
    tally = Tally()
    O = lambda s_: "%s.%s" % (tag, s_)
    names = ['throws', 'memory-safe']
    for n_ in names:
        tally.get(O(n_))
    samples, cands = [], {}
    want_samples = spec.get('samples', 4)
    pathno = [0]

    def body(ex):
        st = reader_state(ex, N, spec.get('M', 24), stream_primary=True)
        ex.st = st
        case = cls(ex, st, op, spec)
        st['case'] = case
        seq = case.seq
        tot = seq.total()
        if seq.maxlen + 2 > st['M']:
            raise core.Unsupported("stream bound M=%d too small for %d encoded bytes" % (st['M'], seq.maxlen))
        for j in range(seq.maxlen):
            ex.assume(z3.Implies(z3.ULT(BV64(j), st['T']), st['L'](j) == seq.at(j)))
        ex.assume(z3.ULT(st['T'], tot))       # proper prefix of the encoding
        st['tot'] = tot
        if not ex.prefix and ex.check() != z3.sat:
            raise core.Unsupported("setup assumptions unsatisfiable")
        return ex.run(case.fn, case.args)

    def sample(res):
        ex, st = res.ex, res.ex.st
        case = st['case']
        mdl = getattr(ex, 'cex_model', None)
        if mdl is None:
            mdl = ex.model()
        if mdl is None:
            return None, None
        head, cmds, _ = reader_script(mdl, st, op, None)
        exp = None
        if res.kind == 'ret':
            exp = "ret"
        elif res.kind == 'throws':
            exp = "throw " + res.info['type']
        model = dict(p=mval(mdl, st['p']), e=mval(mdl, st['e']), rem=mval(mdl, st['rem']), fresh=bool(mval(mdl, st['fresh'])),
                     complete_encoding=case.seq.concrete(mdl).hex(), bytes_present=mval(mdl, st['T']))
        model.update(case.model(mdl))
        smp = dict(kind='reader', tag=tag, op=op, N=N, argv=head + cmds + [case.cmd(mdl), "drain"], nprefix=len(cmds), expect_op=exp,
                   expect_drain=_drain(ex, st, mdl, res), outcome=res.kind, model=model)
        return smp, mdl

    def candidate(key, obligation, desc, res, must='any'):
        c = cands.get(key)
        if c is not None:
            c['count'] += 1
            return
        smp, mdl = sample(res)
        if smp is None:
            tally.inconclusive(obligation, "no model for counterexample %s" % key)
            return
        cands[key] = dict(key=key, obligation=obligation, desc=desc, sample=smp, must=must, count=1, spec_op="throw", spec_drain=None)

    def on_path(res):
        ex = res.ex
        pathno[0] += 1
        k = res.kind
        if k == 'unsupported':
            for n_ in names:
                tally.inconclusive(O(n_), res.info.get('why', '')[:160])
            return
        if k == 'unwind':
            for n_ in names:
                tally.inconclusive(O(n_), "unwinding cap: " + str(res.info.get('why')))
            return
        tally.reach(O('memory-safe'))
        if k in MEMORY_KINDS:
            fr = [re.sub(r'<.*', '', f[0]) for f in res.info.get('site', [])]
            yard = [f for f in fr if not f.startswith('_Z') and f not in ('operator[]', 'data', 'size', 'capacity', 'min')]
            key = "cc:%s:%s:%s" % (op, (yard[0] if yard else (fr[0] if fr else op)), k)
            tally.fail(O('memory-safe'), key)
            candidate(key, O('memory-safe'), "%s (%s) in %s: %s" % (k, res.info.get('obj'), ' < '.join(fr[:4]), res.info.get('instr', '')[:80]),
                      res, 'asan' if k != 'guard' else 'any')
            return
        tally.reach(O('throws'))
        ok = k == 'throws' and res.info.get('type') in (EOS, 'std::runtime_error')
        if not ok:
            tally.fail(O('throws'), "outcome %s %s" % (k, res.info.get('type', '')))
            candidate("cc:%s:%s-on-truncated-input" % (op, 'returns' if k == 'ret' else k), O('throws'),
                      "%s ends with %s on a proper prefix of a valid encoding" % (op, k), res)
        if len(samples) < want_samples and (pathno[0] + spec.get('seed', 0)) % spec.get('stride', 1) == 0:
            s_, _ = sample(res)
            if s_ is not None:
                samples.append(s_)

    deadline = t_start + spec.get('budget_s', 900)
    stats, problems = core.explore(mod, body, on_path, intercepts=stubs.BASE, patterns=stubs.PATTERNS, loop_cap=spec.get('loop_cap', 40),
                                   deadline=deadline, max_paths=spec.get('max_paths', 50000))
    return _finish_task(tag, tally, stats, problems, cands, samples, t_start)


# ================================================================================================
# self-test of the engine's exception handling
# ================================================================================================

EH_EVENTS = ('throw', 'land-catch', 'land-cleanup', 'catch', 'rethrow', 'resume')


def ehself_task(spec):
    t_start = time.time()
    mod = C.load_module(spec['ir'])
    tag = "EH.selftest"
    tally = Tally()
    O = lambda s_: "%s.%s" % (tag, s_)
    names = ['explored'] + ['event-' + e for e in EH_EVENTS]
    for n_ in names:
        tally.get(O(n_))
    samples = []

    def body(ex):
        which, kind, x = z3.BitVec('which', 32), z3.BitVec('kind', 32), z3.BitVec('x', 32)
        ex.assume(z3.ULE(which, z3.BitVecVal(2, 32)))
        ex.assume(z3.ULE(kind, z3.BitVecVal(5, 32)))
        tr, nt = Obj('trace', 64), Obj('ntrace', 4)
        for o in (tr, nt):
            for i in range(o.size):
                o.cells[i] = 0
        ex.st = dict(which=which, kind=kind, x=x, tr=tr, nt=nt)
        return ex.run('h_ehself', [which, kind, x, Ptr(tr, 0), Ptr(nt, 0)])

    def on_path(res):
        ex = res.ex
        k = res.kind
        if k not in ('ret', 'throws'):
            for n_ in names:
                tally.inconclusive(O(n_), "%s %s" % (k, str(res.info.get('why', ''))[:160]))
            return
        tally.reach(O('explored'))
        for ev, what in ex.eh_log:
            e = ev if ev != 'land' else ('land-catch' if what.endswith(':catch') else 'land-cleanup')
            tally.reach(O('event-' + e))
        st = ex.st
        mdl = ex.model()
        if mdl is None:
            tally.inconclusive(O('explored'), "no model for a finished path")
            return
        a = [mval(mdl, st['which']), mval(mdl, st['kind']), core.sgn(mval(mdl, st['x']), 32)]
        if k == 'ret':
            n = mval(mdl, ex.load_val(Ptr(st['nt'], 0), ir.I32, check=False))
            trace = [core.sgn(mval(mdl, ex.load_val(Ptr(st['tr'], 4 * i), ir.I32, check=False)), 32) for i in range(min(n, 16))]
            line = "ret %d trace=%s" % (core.sgn(mval(mdl, res.ret), 32), ",".join(str(t) for t in trace))
        else:
            line = "throw " + res.info['type']
        samples.append(dict(kind='other', tag=tag, op='ehself', N=0, argv=["E"] + [str(v) for v in a], expect_lines=[line], outcome=k,
                            model=dict(which=a[0], kind=a[1], x=a[2], events=["%s %s" % e for e in ex.eh_log][:12])))

    stats, problems = core.explore(mod, body, on_path, intercepts=stubs.BASE, patterns=stubs.PATTERNS, loop_cap=40,
                                   deadline=t_start + spec.get('budget_s', 900), max_paths=2000)
    return _finish_task(tag, tally, stats, problems, {}, samples, t_start)


def run_task(spec):
    k = spec['kind']
    if k == 'tstream':
        return stream_task(spec)
    if k == 'tcontainer':
        return container_task(spec)
    return ehself_task(spec)


# ================================================================================================
# part
# ================================================================================================

ASSUME_TRUNC = [
    "serializers.h is compiled at -O0 behind a stub yardl.h (harness/cc/stubinc/yardl.h); nothing in the stub is executed",
    "the generated reader is a transcription (harness/cc/trunc_gen.h GenReader<T>) of what tooling/internal/cpp/binary/binary.go (ReadXImpl(T&) = "
    "ReadBlock, ReadXImpl(std::vector<T>&) = ReadBlocksIntoVector + `return current_block_remaining_ != 0;`, CloseImpl = VerifyFinished) and "
    "tooling/internal/cpp/protocols/protocols.go (ReadX / Close state machine) emit for a protocol whose only step is `!stream of T`; that the "
    "emitters produce these bodies is decided by c07_cpp_reader / c01_cpp_proto_reader, not here; the consumer is the documented loop "
    "`while (r.ReadX(batch)) ...; r.Close();` with one reused batch vector (single-value overload: one reused item)",
    "stream encodings: block lengths are single-byte varints <= max_items, at most max_items items in total, uint8 items are one byte, uint32 items "
    "are varints of at most `uint32_item_bytes` bytes; the reference block parser (parts/cc_blocks.py ref_parse) defines the complete encoding and "
    "its items; the reader receives its first T bytes, T symbolic in [0, full]; reader_state 'boundary' = the reader sits at a refill boundary "
    "(buffer_ptr_ == buffer_end_ptr_: fresh or exactly drained), 'any' = arbitrary valid state",
    "batch vector: (begin,end,cap) triple over a 4-element storage object, capacity symbolic in 1..4 (or fixed per task, all of 1..4 covered), prior size "
    "symbolic <= capacity, prior contents symbolic; size/capacity/data/operator[]/clear run from the IR, resize is a stub",
    "ReadVector / ReadMap: proper prefixes of the reference encoding of <= 3 (uint8) / 2 (uint32, map) elements with an arbitrary prior destination "
    "(models of parts/cc_reuse.py)",
    "llsym exception handling (new): a throw whose type matches a catch clause up the IR call stack (same typeinfo / base class through "
    "__si_class_type_info chains and the libstdc++ std::exception hierarchy / catch-all) unwinds to the innermost landing pad; cleanup pads run, "
    "`resume` continues, __cxa_begin_catch / __cxa_end_catch / __cxa_rethrow are modelled; classes with several bases, pointer catches and filter "
    "clauses are refused (inconclusive). Validated on every run by the self-test EH.selftest (harness/cc/ehself.h: base-class catch, non-matching "
    "clause, rethrow, catch-all, throw out of a handler, destructors in cleanup pads) whose every path is replayed natively",
]


def _ir(name, opt="-O0", ndebug=True):
    text, cmd = build.compile_ir(name, opt, ndebug=ndebug, stub=True)
    pth = os.path.join(build.tmpdir(), "%s.%s.ll" % (name, "rel" if ndebug else "dbg"))
    with open(pth, "w") as f:
        f.write(text)
    return pth, cmd


def _nproc(n):
    env = os.environ.get("VERIF_NPROC") or os.environ.get("VERIF_WORKERS")
    lim = int(env) if env and env.isdigit() and int(env) > 0 else min(16, os.cpu_count() or 4)
    return max(1, min(n, lim))


def _native(K):
    class NativeTrunc(K.Native):
        """replay_trunc.cc; replay artefacts are self-contained (the two harness headers are inlined)"""

        def __init__(self):
            self.which, self.stub = "trunc", True
            self.src = os.path.join(build.HARNESS, "replay_trunc.cc")
            self.exe = {}

        def artefact(self, prop, key, argv, header_lines):
            flat = os.path.join(build.tmpdir(), "replay_trunc_flat.cc")
            text = open(self.src).read()
            for h in ("trunc_gen.h", "ehself.h"):
                body = open(os.path.join(build.HARNESS, h)).read().replace("#pragma once\n", "")
                text = text.replace('#include "%s"\n' % h, "// ---- %s (inlined) ----\n%s// ---- end of %s ----\n" % (h, body, h))
            with open(flat, "w") as f:
                f.write(text)
            keep, self.src = self.src, flat
            try:
                return K.Native.artefact(self, prop, key, argv, header_lines)
            finally:
                self.src = keep
    return NativeTrunc()


def stream_truncation_part(prop, tier, seed):
    from parts import cc_kernels as K
    t0 = time.time()
    part = vcommon.new_part("cc_stream_truncation", "llsym")
    part["solvers"] = [K.SOLVER]
    thorough = tier == "thorough"
    pth, cmd = _ir("trunc.cc")
    budget = 3000 if thorough else 1500
    base = dict(ir=pth, seed=seed, budget_s=budget, samples=(24 if thorough else 6), stride=(3 if thorough else 5),
                xcheck=(2 if thorough else 0), xcheck_stride=7)
    specs = [dict(base, kind='ehself', op='ehself', N=0)]

    def add(op, n, state, maxib, caps, N=8, **kw):
        for cap in caps:
            specs.append(dict(base, kind='tstream', op=op, max_items=n, state=state, maxib=maxib, cap=cap, N=N, **kw))
    if thorough:
        add('DriveBatch_u8', 4, 'boundary', 1, [1, 2, 3, 4])
        add('DriveBatch_u8', 4, 'boundary', 1, [1, 2, 3, 4], N=16)
        add('DriveBatch_u8', 3, 'any', 1, [1, 2, 3])
        add('DriveBatch_u32', 3, 'boundary', 2, [1, 2, 3, 4])
        add('DriveBatch_u32', 4, 'boundary', 1, [1, 2, 3, 4])
        add('DriveBatch_u32', 2, 'any', 2, [1, 2])
        add('DriveSingle_u8', 4, 'any', 1, [None])
        add('DriveSingle_u32', 3, 'boundary', 3, [None])
        add('DriveSingle_u32', 2, 'any', 2, [None])
    else:
        add('DriveBatch_u8', 4, 'boundary', 1, [1, 2, 3, 4])
        add('DriveBatch_u32', 3, 'boundary', 2, [1, 2, 3, 4])
        add('DriveSingle_u8', 4, 'boundary', 1, [None])
        add('DriveSingle_u32', 3, 'boundary', 2, [None])
    cbase = dict(base, kind='tcontainer', samples=(8 if thorough else 3))
    Nc = 12
    specs.append(dict(cbase, op='ReadVector_u8', N=Nc, nmax=3))
    specs.append(dict(cbase, op='ReadVector_u32', N=Nc, nmax=2, maxvb=(3 if thorough else 2)))
    specs.append(dict(cbase, op='ReadMap_u8_u32', N=Nc, maxvb=2))
    # longest first: multi-byte items and arbitrary reader states cost most
    specs.sort(key=lambda s: -(s.get('max_items', 0) * 10 * s.get('maxib', 1) + (s.get('cap') or 4) + (60 if s.get('state') == 'any' else 0)
                               + (10 if s['kind'] == 'tcontainer' else 0)))
    results = K._pool_run(specs, procs=_nproc(len(specs)))
    part["bounds"] = {"tasks": [dict(op=s['op'], N=s['N'], max_items=s.get('max_items', s.get('nmax', 'n/a')), capacity=s.get('cap') or '1..4 / n/a',
                                     reader_state=s.get('state', 'any'), uint32_item_bytes=s.get('maxib', s.get('maxvb', 'n/a'))) for s in specs],
                      "cut position": "0..full (symbolic)", "block lengths": "1..max_items (symbolic)", "prior size": "0..capacity (symbolic)",
                      "clang": [cmd]}
    part["assumptions"] = K.ASSUME_COMMON + K.ASSUME_READER + ASSUME_TRUNC
    K._merge(part, results)
    native = _native(K)
    try:
        K._validate_samples(part, native, results)
        K._confirm(part, prop, native, results)
    except Exception as e:
        part["inconclusive"].append("native replay failed: %s" % e)
    for v in part["violations"]:
        if not v["replay_confirmed"]:
            for o in part["obligations"]:
                if o["id"] == v["obligation"] and o["status"] == "violated":
                    o["status"] = "inconclusive"
                    o["note"] = (o["note"] + "; counterexample did not replay natively").strip("; ")
    part["task_wall_s"] = {r["tag"]: round(r.get("wall_s", 0.0), 1) for r in results}
    part["wall_s"] = round(time.time() - t0, 2)
    return part


def c16_cc_stream_truncation(prop="C16", tier="quick", seed=0, **kw):
    return stream_truncation_part(prop, tier, seed)
