"""llsym parts: C++ runtime kernels (coded_stream.h, serializers.h, header.h) executed symbolically
from LLVM IR.  Entry points (each returns the part dict of lib/vcommon.new_part):

    c01_cc_kernels(prop, tier, seed)     round trip / wire conformance / invariant step (C01, C03)
    c16_cc_truncation(prop, tier, seed)  truncated streams must be reported (C16)
    c17_cc_blocks(prop, tier, seed)      ReadBlock / ReadBlocksIntoVector batching independence (C17)
    c15_cc_header(prop, tier, seed)      ReadHeader refuses foreign streams (C15)
    c17_cc_reuse(prop, tier, seed)       readers called with an arbitrary prior destination (C17; ReadMap finding F5)
    c01_cc_serializers(prop, tier, seed) serializers.h write/read pairs and the integer dispatch table (C01, C03)

Run one from the command line:  python3-vt /verif/parts/cc_kernels.py c01_cc_kernels quick
"""
import json
import multiprocessing as mp
import os
import subprocess
import sys
import time

VERIF = os.path.dirname(os.path.dirname(os.path.abspath(__file__)))
for p in (VERIF, os.path.join(VERIF, "engine")):
    if p not in sys.path:
        sys.path.insert(0, p)

import z3  # noqa: E402

from lib import vcommon  # noqa: E402
from llsym import build, stubs  # noqa: E402
from parts import cc_common  # noqa: E402

SOLVER = "z3-%s (python API, QF_BV)" % z3.get_version_string()

ASSUME_COMMON = [
    "llsym: clang++-14 -std=c++17 IR of the unmodified headers under /repo is executed; x86-64 SysV data layout; "
    "pointers are (object, offset) pairs and every load/store/GEP is checked against its object",
    "llsym: an exception that no catch clause up the IR call stack matches ends the path at __cxa_throw (cleanups are not run: nothing executes "
    "afterwards); one that a clause matches is unwound to its handler (landing pads, resume, __cxa_begin_catch / __cxa_end_catch / __cxa_rethrow "
    "modelled in engine/llsym/core.py; validated natively by the EH self-test of c16_cc_stream_truncation)",
    "CodedOutputStream's implicit precondition buffer_size >= MAX_VARINT64_BYTES (10) is assumed for WriteVarInt64 (N=12 instead of N=8): with a "
    "smaller buffer the unchecked encoder overruns the vector even on valid data; the 64-bit varint readers run at N=12 in quick and at N=8 "
    "as well in thorough (safe since the FillBufferOrThrow fix)",
    "llsym: bounds are per task (buffer size N, input bytes M); nothing is claimed for other N, in particular not for the production N=65536 "
    "except through the size-independent shape of the invariant step",
]
ASSUME_READER = [
    "reader pre-state = strengthened class invariant reachable through the public API: data<=buffer_ptr_<=buffer_end_ptr_<=data+N; either fresh "
    "(ptr=end=data, zeroed buffer, !at_eof_) or filled (at_eof_ <=> end<data+N); at_eof_ => underlying stream exhausted",
    "std::istream::read follows the libstdc++ contract over a well-behaved streambuf: it delivers min(n, remaining) bytes and sets eofbit|failbit "
    "iff fewer than n were delivered; the refill schedule is therefore determined by the symbolic (buffer_ptr_, buffer_end_ptr_, remaining) and "
    "every schedule such a stream can produce is covered; streambufs that return short counts before end of input are outside",
    "bytes of the staging buffer outside [data, buffer_end_ptr_) are unconstrained symbolic values (zero in the fresh state, as std::vector "
    "value-initialises) and any load from them is reported (window obligation)",
]
ASSUME_WRITER = [
    "writer pre-state: data<=buffer_ptr_<=buffer_end_ptr_==data+N with symbolic buffer_ptr_ offset and symbolic buffered bytes",
    "std::ostream::write never fails (bad() stays false); std::ostream::flush is a no-op",
]


def _stub_lines(names):
    out = []
    for n in sorted(names):
        c = stubs.CONTRACTS.get(n)
        if c is None and "vector" in n and "resize" in n:
            c = stubs.CONTRACTS['std::vector<T>::resize']
        if c is None and "basic_string" in n:
            c = stubs.CONTRACTS['std::string']
        if c is None and "unordered_map" in n:
            c = stubs.CONTRACTS['std::unordered_map<K,V>::emplace' if "emplace" in n else 'std::unordered_map<K,V>::clear/size/reserve']
        out.append("%s: %s" % (n, c or "trusted model (see engine/llsym/stubs.py)"))
    return out


def _pool_run(specs, procs=None):
    if not specs:
        return []
    procs = procs or min(len(specs), max(1, min(16, (os.cpu_count() or 4))))
    if procs <= 1 or os.environ.get("LLSYM_SERIAL"):
        return [cc_common.run_task(s) for s in specs]
    ctx = mp.get_context("fork")
    with ctx.Pool(procs) as pool:
        return pool.map(cc_common.run_task, specs, chunksize=1)


def _merge(part, results):
    fn_dyn, fn_static, used = {}, {}, set()
    for r in results:
        part["obligations"].extend(r["obligations"])
        for pr in r["problems"]:
            part["inconclusive"].append("%s: %s" % (r["tag"], pr))
        for nm, xs in (r.get("xcheck") or {}).items():
            acc = part.setdefault("cross_check", {}).setdefault(nm, dict(agree=0, undecided=0, disagree=0))
            for kk in acc:
                acc[kk] += xs.get(kk, 0)
        s = r["stats"]
        if not s:
            continue
        for k in ("paths", "decisions", "queries", "unsat", "sat", "unknown"):
            part[k] += s[k]
        part["solver_s"] += s["solver_s"]
        for k, v in s["fn_dyn"].items():
            fn_dyn[k] = fn_dyn.get(k, 0) + v
        fn_static.update(s["fn_static"])
        used.update(s["stubs"])
    part["solver_s"] = round(part["solver_s"], 3)
    for nm, acc in (part.get("cross_check") or {}).items():
        ver = {"z3-binary": "z3 4.8 binary (/usr/bin/z3)", "cvc5": "cvc5 binary"}.get(nm, nm)
        lab = "%s: cross-check of %d sampled property queries, %d agree, %d undecided" % (ver, sum(acc.values()), acc["agree"], acc["undecided"])
        if lab not in part["solvers"]:
            part["solvers"].append(lab)
    part["functions_encoded"] = ["%s [%d IR instructions, %d executed]" % (k, fn_static.get(k, 0), v) for k, v in sorted(fn_dyn.items())]
    part["stubs"] = _stub_lines(used)
    for o in part["obligations"]:
        if o["status"] == "inconclusive":
            pass  # vcommon.finish reports these
    return part


REPLAY_SRC = {"kernels": "replay_kernels.cc", "blocks": "replay_blocks.cc", "reuse": "replay_reuse.cc"}


class Native:
    """native replay executables (release = -DNDEBUG as users build it, debug = asserts on)"""

    def __init__(self, which="kernels", stub=False):
        self.which, self.stub = which, stub
        self.src = os.path.join(build.HARNESS, REPLAY_SRC[which])
        self.exe = {}

    def get(self, ndebug=True, asan=False):
        if (ndebug, asan) not in self.exe:
            self.exe[(ndebug, asan)] = build.compile_exe(self.src, "replay_" + self.which, ndebug=ndebug, stub=self.stub, asan=asan)
        return self.exe[(ndebug, asan)]

    def run(self, argv, ndebug=True, asan=False):
        try:
            rc, out, err = build.run_exe(self.get(ndebug, asan), argv, timeout=20)
        except subprocess.TimeoutExpired:
            return -999, [], "timeout"
        return rc, [ln.strip() for ln in out.split("\n") if ln.strip() != ""], (err[:400] if asan else err[-300:])

    def artefact(self, prop, key, argv, header_lines):
        src = open(self.src).read()
        cmd = "clang++-14 -std=c++17 -O1 -DNDEBUG -I %s%s <this file> -o replay && ./replay" % (
            build.INC, (" -I " + build.STUBINC) if self.stub else "")
        baked = "{" + ", ".join(json.dumps(a) for a in argv) + "}"
        body = "// compile: %s\n" % cmd
        if any("debug build" in h for h in header_lines):
            body += "// (drop -DNDEBUG to see the debug-build assertion)\n"
        for h in header_lines:
            body += "// %s\n" % h
        body += "#define BAKED_ARGS %s\n" % baked + src
        return vcommon.write_replay(prop, key, body, ext="cc")


def _op_line(lines, smp):
    """the output line of the operation under test in a reader/writer replay"""
    if smp["kind"] == "reader":
        i = smp["nprefix"]
        return lines[i] if len(lines) > i else None, (lines[i + 1] if len(lines) > i + 1 else None)
    return None, None


def _validate_samples(part, native, results):
    """replay non-violating paths natively and compare with the symbolic outputs under the model"""
    shown = 0
    for r in results:
        for smp in r["samples"]:
            rc, lines, err = native.run(smp["argv"], ndebug=True)
            ok = True
            why = ""
            if smp["kind"] == "reader":
                opl, drl = _op_line(lines, smp)
                if smp["expect_op"] is not None:
                    got = (opl or "")
                    exp = smp["expect_op"].strip()
                    if not (got == exp or got.startswith(exp + " ")):
                        ok, why = False, "operation line %r, engine predicted %r" % (opl, exp)
                if ok and smp["expect_drain"] is not None and smp["outcome"] in ("ret", "throws"):
                    if drl != ("drain " + smp["expect_drain"]).strip():
                        ok, why = False, "rest of stream %r, engine predicted %r" % (drl, smp["expect_drain"])
            elif smp["kind"] == "writer":
                if smp["expect_out"] is not None:
                    last = lines[-1] if lines else ""
                    if last != ("out " + smp["expect_out"]).strip():
                        ok, why = False, "output %r, engine predicted %r" % (last, smp["expect_out"])
            else:
                exp = smp.get("expect_lines")
                if exp is not None and lines[-len(exp):] != exp:
                    ok, why = False, "native %r, engine predicted %r" % (lines[-len(exp):], exp)
            if ok:
                part["replayed"] += 1
                if shown < 6:
                    part["samples"].append({"task": smp["tag"], "model": smp["model"], "argv": smp["argv"][:8], "native": lines[-2:]})
                    shown += 1
            else:
                part["inconclusive"].append("%s: native replay of a non-violating path disagrees with the engine (%s; argv=%s)" % (
                    smp["tag"], why, " ".join(smp["argv"])[:200]))


def _confirm(part, prop, native, results, extra_ops=None):
    """replay every counterexample natively; only reproduced ones count as violations"""
    seen = {}
    for r in results:
        for c in r["cands"]:
            k = c["key"]
            if k in seen:
                seen[k]["also"].append("%s x%d" % (r["tag"], c["count"]))
                continue
            smp = c["sample"]
            rc, lines, err = native.run(smp["argv"], ndebug=True)
            confirmed = False
            observed = ""
            def starts(line, spec):
                return line is not None and (line == spec or line.startswith(spec + " "))

            if c["must"] == "asan":
                rc2, lines2, err2 = native.run(smp["argv"], ndebug=True, asan=True)
                confirmed = "AddressSanitizer" in err2
                observed = "ASan build: exit %d %s" % (rc2, " ".join(err2.split())[:160])
            elif c["must"] == "abort":
                rc2, lines2, err2 = native.run(smp["argv"], ndebug=False)
                confirmed = rc2 < 0 and "Assertion" in err2
                observed = "debug build: exit %d %s" % (rc2, err2[-120:])
            elif smp["kind"] == "reader":
                opl, drl = _op_line(lines, smp)
                observed = "%s / %s" % (opl or ("exit %d %s" % (rc, err)), (drl or "")[:60])
                if c.get("spec_op") is not None and not starts(opl, c["spec_op"]):
                    confirmed = True
                if c.get("spec_drain") is not None and starts(opl, "ret") and drl != ("drain " + c["spec_drain"]).strip():
                    confirmed = True
            elif smp["kind"] == "writer":
                last = lines[-1] if lines else ""
                observed = last or ("exit %d %s" % (rc, err))
                confirmed = rc != 0 or any(l.startswith("throw") for l in lines) or (
                    c.get("spec_out") is not None and last != ("out " + c["spec_out"]).strip())
            else:
                observed = " | ".join(lines[-3:])
                confirmed = c.get("confirm_if") is not None and any(l.startswith(c["confirm_if"]) for l in lines[-2:])
            dbg_note = ""
            if smp["kind"] == "reader" and c["must"] == "ret" and confirmed:
                # debug build: the *next* call trips assert(buffer_ptr_ <= buffer_end_ptr_)
                argv2 = smp["argv"][:-1] + [smp["argv"][-2]]
                rc2, lines2, err2 = native.run(argv2, ndebug=False)
                dbg_note = "debug build (no -DNDEBUG) with the operation repeated (args %s): exit %d%s" % (
                    " ".join(argv2[-3:]), rc2, " (assert(buffer_ptr_ <= buffer_end_ptr_) fails in the second call)" if "Assertion" in err2 else "")
            hdr = ["property %s, violation key %s" % (prop, k), c["desc"][:300],
                   "spec: %s" % (c.get("spec_op") or c.get("spec_out") or ("see obligation " + c["obligation"])),
                   "native observation (release build): %s" % observed[:200]]
            if dbg_note:
                hdr.append(dbg_note)
            if c["must"] == "asan":
                hdr.append("memory-safety violation: add  -g -fsanitize=address  to the compile command to observe it")
            path = native.artefact(prop, k, smp["argv"], hdr)
            v = {"key": k, "obligation": c["obligation"], "desc": c["desc"], "model": smp["model"], "argv": smp["argv"],
                 "replay": path, "replay_confirmed": bool(confirmed), "native": observed[:300], "debug_build": dbg_note,
                 "paths": c["count"], "also": []}
            seen[k] = v
            part["violations"].append(v)
    return part


def _kernel_part(name, prop, tier, seed, modes):
    t0 = time.time()
    part = vcommon.new_part(name, "llsym")
    part["solvers"] = [SOLVER]
    thorough = tier == "thorough"
    Ns = [8, 16] if thorough else [8]
    builds = [True, False] if thorough else [True]
    irs = {}
    cmds = []
    for nd in builds + ([False] if not thorough else []):
        if nd in irs:
            continue
        text, cmd = build.compile_ir("kernels.cc", "-O1", ndebug=nd)
        pth = os.path.join(build.tmpdir(), "kernels.%s.ll" % ("rel" if nd else "dbg"))
        with open(pth, "w") as f:
            f.write(text)
        irs[nd] = pth
        cmds.append(cmd)
    specs = []
    budget = 780 if thorough else 420
    FIXED_R = ("ReadFixed1", "ReadFixed2", "ReadFixed4", "ReadFixed8", "ReadByte", "VerifyFinished")
    FIXED_W = ("WriteFixed1", "WriteFixed2", "WriteFixed4", "WriteFixed8", "WriteByte", "WriteBytes")
    # plan entries: (N, ndebug, round-trip reader ops, truncation reader ops, writer ops); None = all
    plan = [(N, nd, None, None, None) for N in Ns for nd in builds]
    if thorough:
        # N=32: everything except the 64-bit varint round trips; N=64: the fixed-width and byte paths
        plan.append((32, True, FIXED_R + ("ReadVarU32", "ReadVarI32", "ReadBytes"), None, None))
        plan.append((64, True, FIXED_R, FIXED_R + ("ReadBytes",), FIXED_W))
        # since the FillBufferOrThrow fix the 64-bit varint readers no longer need buffer_size >= 10: also run them at N=8
        plan.append((8, True, ("ReadVarU64", "ReadVarI64"), ("ReadVarU64", "ReadVarI64"), ()))
    for N, nd, ok_ops, trunc_ops, w_ops in plan:
        base = dict(N=N, ndebug=nd, ir=irs[nd], seed=seed, budget_s=budget, samples=(24 if thorough else 3),
                    stride=(1 if thorough else 2), xcheck=(6 if thorough else 0))
        explicit8 = ok_ops is not None and N == 8
        if "writer" in modes:
            for op in cc_common.WRITE_OPS:
                if w_ops is not None and op not in w_ops:
                    continue
                b = dict(base, N=12) if (op in ("WriteVarU64", "WriteVarI64") and N < 10) else base
                specs.append(dict(b, kind="writer", op=op))
        for op in cc_common.READ_OPS:
            b = base
            if op in ("ReadVarU64", "ReadVarI64") and N < 10 and not explicit8:
                # historically the class needed buffer_size >= MAX_VARINT64_BYTES for these two (unchecked fast decoder on a
                # freshly filled buffer); they run at N=12 in the N=8 plan, and additionally at N=8 in the thorough tier
                b = dict(base, N=12)
            if "ok" in modes and (ok_ops is None or op in ok_ops):
                specs.append(dict(b, kind="reader", op=op, mode="ok"))
            if "trunc" in modes and (trunc_ops is None or op in trunc_ops):
                specs.append(dict(b, kind="reader", op=op, mode="trunc"))
    if not thorough and "ok" in modes:
        # quick tier: debug-build (asserts enabled) spot check of the two entry points that assert
        for op in ("ReadVarU32", "ReadFixed4"):
            specs.append(dict(N=8, ndebug=False, ir=irs[False], seed=seed, budget_s=budget, samples=0, kind="reader", op=op, mode="ok"))
        specs.append(dict(N=12, ndebug=False, ir=irs[False], seed=seed, budget_s=budget, samples=0, kind="writer", op="WriteVarU64"))
    # longest first
    heavy = {"ReadBytes": 0, "WriteBytes": 1, "ReadVarI64": 2, "ReadVarU64": 2, "WriteVarU64": 3, "WriteVarI64": 3}
    specs.sort(key=lambda s: (-s["N"], heavy.get(s["op"], 9)))
    results = _pool_run(specs)
    _merge(part, results)
    native = Native("kernels")
    try:
        _validate_samples(part, native, results)
        _confirm(part, prop, native, results)
    except Exception as e:
        part["inconclusive"].append("native replay failed: %s" % e)
    for v in part["violations"]:
        if not v["replay_confirmed"]:
            for o in part["obligations"]:
                if o["id"] == v["obligation"] and o["status"] == "violated":
                    o["status"] = "inconclusive"
                    o["note"] = (o["note"] + "; counterexample did not replay natively").strip("; ")
    part["bounds"] = {"buffer_size_N": sorted({s["N"] for s in specs}), "stream_bytes_M": {str(N): max(N + 12, 2 * N + 4) for N in sorted({s["N"] for s in specs})}, "ReadBytes/WriteBytes size": "<= 2N+1 (symbolic)",
                      "varint unwinding": "block-visit cap 40 (never reached)", "builds": ["-O1 -DNDEBUG"] + (["-O1 (asserts on)"] if thorough else ["-O1 (asserts on): 3 entry points"]),
                      "tasks": len(specs), "clang": cmds}
    part["assumptions"] = ASSUME_COMMON + (ASSUME_READER if ("ok" in modes or "trunc" in modes) else []) + (ASSUME_WRITER if "writer" in modes else [])
    part["wall_s"] = round(time.time() - t0, 2)
    return part


def c01_cc_kernels(prop="C01", tier="quick", seed=0, **kw):
    return _kernel_part("cc_kernels", prop, tier, seed, ("writer", "ok"))


def c16_cc_truncation(prop="C16", tier="quick", seed=0, **kw):
    return _kernel_part("cc_truncation", prop, tier, seed, ("trunc",))


def c17_cc_blocks(prop="C17", tier="quick", seed=0, **kw):
    from parts import cc_blocks
    return cc_blocks.blocks_part(prop, tier, seed)


def c15_cc_header(prop="C15", tier="quick", seed=0, **kw):
    from parts import cc_blocks
    return cc_blocks.header_part(prop, tier, seed)


def c17_cc_reuse(prop="C17", tier="quick", seed=0, **kw):
    from parts import cc_reuse
    return cc_reuse.reuse_part(prop, tier, seed)


def c01_cc_serializers(prop="C01", tier="quick", seed=0, **kw):
    from parts import cc_reuse
    return cc_reuse.serializers_part(prop, tier, seed)


if __name__ == "__main__":
    fn = sys.argv[1] if len(sys.argv) > 1 else "c01_cc_kernels"
    tier = sys.argv[2] if len(sys.argv) > 2 else "quick"
    seed = int(os.environ.get("VERIF_SEED", "0"))
    prop = {"c01_cc_kernels": "C01", "c16_cc_truncation": "C16", "c17_cc_blocks": "C17", "c15_cc_header": "C15",
            "c17_cc_reuse": "C17", "c01_cc_serializers": "C01"}.get(fn, "C00")
    res = globals()[fn](prop, tier, seed)
    json.dump(res, sys.stdout, indent=1, default=str)
    print()
