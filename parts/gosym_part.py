"""Run one gosym harness entry, replay its paths natively, and return a part-result dict."""
import json, os, subprocess, tempfile, shutil, time, hashlib, sys
sys.path.insert(0, os.path.join(os.path.dirname(os.path.abspath(__file__)), ".."))
from lib import vcommon

ENGINE_DIR = os.path.join(vcommon.VERIF, "engine", "gosym")
# VERIF_GOSYM_BIN / VERIF_HARNESS_DIR: development overrides (a prebuilt engine binary, a scratch copy of the harness tree)
GOSYM = os.environ.get("VERIF_GOSYM_BIN") or os.path.join(ENGINE_DIR, "gosym")
HARNESS = os.environ.get("VERIF_HARNESS_DIR") or os.path.join(vcommon.VERIF, "harness", "go")
TOOLING = os.path.join(vcommon.REPO, "tooling")
MOD = "github.com/microsoft/yardl/tooling/"
GOENV = dict(os.environ, GOFLAGS="-mod=mod", GOPROXY="off")
GOENV.pop("GOSUMDB", None)

STUBS = [
    "fmt.Sprintf/Fprintf/Fprintln/Errorf/Sprint (rope-building model; %s %d %v %q %t %T)",
    "formatting.IndentedWriter.Write*/bytes.Buffer/strings.Builder (append rope; indentation not modelled)",
    "strings.* strconv.* path.* sort.Slice (native on concrete values, SMT for ==,<,HasPrefix,HasSuffix,Contains,Join,Repeat)",
    "regexp.MatchString (str.in_re for anchored ASCII patterns), regexp2 (native, concrete only)",
    "math/big.Int (concrete values only), zerolog (Panic->panic, Fatal->exit, others no-op)",
    "os.* / filepath.Abs (virtual file system + event log)",
    "foreign package initialisers not executed; participle/koanf/template objects opaque",
    "yaml.v3 (*Node).Decode/DecodeWithOptions: dispatch to the interpreted UnmarshalYAML of the target, pointer allocation, null, scalar->int (validated by the native replays against the real library)",
    "participle Parser[T].ParseString: evaluated on concrete strings by a native oracle process built from the tree under test (cmd/zzverifsrv overlay); symbolic strings are forked over their finite domains first",
]


def ensure_engine():
    if os.environ.get("VERIF_GOSYM_BIN"):
        return
    srcs = []
    for root, _, files in os.walk(ENGINE_DIR):
        for f in files:
            if f.endswith(".go") or f in ("go.mod", "go.sum"):
                srcs.append(os.path.join(root, f))
    if os.path.exists(GOSYM) and all(os.path.getmtime(s) <= os.path.getmtime(GOSYM) for s in srcs):
        return
    subprocess.run(["go", "build", "-o", "gosym", "."], cwd=ENGINE_DIR, env=GOENV, check=True)


def build_oracle(tmp):
    """Build the native oracle (harness/go/cmd/zzverifsrv: participle-generated parsers on concrete strings)
    from the tree under test; returns the binary path."""
    rep = overlay_files(tmp)
    ov = os.path.join(tmp, "oracle_overlay.json")
    json.dump({"Replace": rep}, open(ov, "w"))
    binp = os.path.join(tmp, "zzverifsrv")
    p = subprocess.run(["go", "build", "-overlay", ov, "-o", binp, "./cmd/zzverifsrv"], cwd=TOOLING, env=GOENV,
                       capture_output=True, text=True, timeout=600)
    if p.returncode != 0 or not os.path.exists(binp):
        raise RuntimeError("native oracle build failed: " + (p.stdout + p.stderr)[-3000:])
    return binp


def run_gosym(entry, args=(), extra=(), timeout=3000, oracle=False):
    ensure_engine()
    if oracle:
        otmp = tempfile.mkdtemp(prefix="gosym_oracle_")
        try:
            env = dict(GOENV, VERIF_ORACLE_BIN=build_oracle(otmp))
            return _run_gosym(entry, args, extra, timeout, env)
        finally:
            shutil.rmtree(otmp, ignore_errors=True)
    return _run_gosym(entry, args, extra, timeout, GOENV)


def _run_gosym(entry, args, extra, timeout, env):
    out = tempfile.NamedTemporaryFile(prefix="gosym_", suffix=".json", delete=False).name
    cmd = [GOSYM, "-dir", TOOLING, "-harness", HARNESS, "-entry", MOD + entry, "-out", out,
           "-workers", os.environ.get("VERIF_WORKERS") or str(min(16, os.cpu_count() or 4))]
    if args:
        cmd += ["-args", ",".join(str(a) for a in args)]
    cmd += list(extra)
    p = subprocess.run(cmd, env=env, capture_output=True, text=True, timeout=timeout)
    try:
        if p.returncode != 0:
            raise RuntimeError("gosym failed: " + (p.stderr or p.stdout)[-2000:])
        return json.load(open(out))
    finally:
        if os.path.exists(out):
            os.unlink(out)


def overlay_files(tmp):
    """Map virtual /repo/tooling/... paths to real files (harness sources + generated intrinsics)."""
    rep = {}
    tmpl = open(os.path.join(HARNESS, "verif_intrinsics.go.tmpl")).read()
    seen = set()
    for root, _, files in os.walk(HARNESS):
        for f in files:
            if not f.endswith(".go"):
                continue
            real = os.path.join(root, f)
            rel = os.path.relpath(real, HARNESS)
            virt = os.path.join(TOOLING, rel)
            rep[virt] = real
            d = os.path.dirname(virt)
            if d not in seen:
                seen.add(d)
                pkg = None
                for line in open(real):
                    if line.startswith("package "):
                        pkg = line.split()[1]
                        break
                ip = os.path.join(tmp, "intr_%s.go" % hashlib.sha1(d.encode()).hexdigest()[:8])
                open(ip, "w").write(tmpl.replace("package PKG", "package " + pkg, 1))
                rep[os.path.join(d, "zz_verif_intrinsics.go")] = ip
    return rep


TEST_TMPL = '''package %(pkg)s

import (
	"encoding/json"
	"os"
	"testing"
)

type verifCase struct {
	ID     int          `json:"id"`
	Events []VerifEvent `json:"events"`
}
type verifResult struct {
	ID      int         `json:"id"`
	Outcome string      `json:"outcome"`
	Detail  string      `json:"detail"`
	Outs    [][2]string `json:"outs"`
	Failed  []string    `json:"failed"`
	Reached []string    `json:"reached"`
}

func TestVerifReplay(t *testing.T) {
	data, err := os.ReadFile(os.Getenv("VERIF_REPLAY_TABLE"))
	if err != nil {
		t.Fatal(err)
	}
	var cases []verifCase
	if err := json.Unmarshal(data, &cases); err != nil {
		t.Fatal(err)
	}
	var results []verifResult
	for _, c := range cases {
		outcome, detail := VerifRun(c.Events, func() { %(call)s })
		results = append(results, verifResult{c.ID, outcome, detail, VerifOuts, VerifFailed, VerifReached})
	}
	VerifReset(nil) // removes the scratch directory of the last case
	out, _ := json.Marshal(results)
	if err := os.WriteFile(os.Getenv("VERIF_REPLAY_OUT"), out, 0o644); err != nil {
		t.Fatal(err)
	}
}
'''


def native_replay(entry, args, cases, timeout=900):
    """cases: list of {"id", "events"}. Returns {id: result} from the natively compiled harness."""
    if not cases:
        return {}
    pkgpath, fn = entry.rsplit(".", 1)
    tmp = tempfile.mkdtemp(prefix="gosym_replay_")
    try:
        rep = overlay_files(tmp)
        pkgdir = os.path.join(TOOLING, pkgpath)
        pkgname = None
        for virt, real in rep.items():
            if os.path.dirname(virt) == pkgdir:
                for line in open(real):
                    if line.startswith("package "):
                        pkgname = line.split()[1]
                        break
                break
        test = os.path.join(tmp, "replay_test.go")
        open(test, "w").write(TEST_TMPL % {"pkg": pkgname, "call": "%s(%s)" % (fn, ", ".join(str(a) for a in args))})
        rep[os.path.join(pkgdir, "zz_verif_replay_test.go")] = test
        ov = os.path.join(tmp, "overlay.json")
        json.dump({"Replace": rep}, open(ov, "w"))
        table = os.path.join(tmp, "table.json")
        json.dump([{"id": c["id"], "events": [{"name": e["name"], "kind": e["kind"], "value": e["value"]} for e in c["events"]]} for c in cases], open(table, "w"))
        outp = os.path.join(tmp, "out.json")
        env = dict(GOENV, VERIF_REPLAY_TABLE=table, VERIF_REPLAY_OUT=outp)
        binp = os.path.join(tmp, "replay.test")
        p = subprocess.run(["go", "test", "-c", "-vet=off", "-overlay", ov, "-o", binp, "./" + pkgpath],
                           cwd=TOOLING, env=env, capture_output=True, text=True, timeout=timeout + 60)
        if p.returncode != 0 or not os.path.exists(binp):
            raise RuntimeError("native replay build failed: " + (p.stdout + p.stderr)[-3000:])
        p = subprocess.run([binp, "-test.run", "TestVerifReplay", "-test.timeout", "%ds" % timeout], cwd=tmp, env=env,
                           capture_output=True, text=True, timeout=timeout + 60)
        if not os.path.exists(outp):
            raise RuntimeError("native replay failed: " + (p.stdout + p.stderr)[-3000:])
        return {r["id"]: r for r in json.load(open(outp))}
    finally:
        shutil.rmtree(tmp, ignore_errors=True)


def _short_model(events):
    return {e["name"]: e["value"] for e in (events or [])}


def gosym_part(prop, tier, seed, name, entry, args_quick=(), args_thorough=None, extra_quick=(), extra_thorough=None,
               key_fn=None, assumptions=(), required_sites=(), desc="", oracle=False, **kw):
    """Generic gosym part.  key_fn(assert_id, events, outs) -> stable violation key."""
    t0 = time.time()
    part = vcommon.new_part(name, "gosym")
    args = args_quick if tier == "quick" or args_thorough is None else args_thorough
    extra = extra_quick if tier == "quick" or extra_thorough is None else extra_thorough
    rr = run_gosym(entry, args, extra, oracle=oracle)
    part["functions_encoded"] = ["%s (%d instr executed)" % (k, v) for k, v in sorted(rr["functions"].items())]
    part["bounds"] = dict(rr["bounds"], entry=entry, harness_args=list(args), description=desc)
    part["stubs"] = STUBS
    part["assumptions"] = list(assumptions)
    part["paths"] = rr["paths"]
    part["decisions"] = rr["decisions"]
    part["queries"], part["unsat"], part["sat"], part["unknown"] = rr["queries"], rr["unsat"], rr["sat"], rr["unknown"]
    part["solver_s"] = rr["solver_s"]
    part["solvers"] = ["z3 " + subprocess.run(["z3", "--version"], capture_output=True, text=True).stdout.strip()]
    for r, n in rr["inconclusive"].items():
        part["inconclusive"].append("%s (x%d)" % (r, n))
    # obligations = assertion sites
    for sid, st in sorted(rr["sites"].items()):
        status = "holds"
        if st["violated"]:
            status = "violated"
        elif st["unknown"]:
            status = "inconclusive"
        part["obligations"].append({"id": "%s/%s" % (name, sid), "status": status, "paths": st["reached"],
                                    "unsat": st["holds"], "sat": st["violated"], "unknown": st["unknown"], "note": ""})
    for sid in required_sites:
        if sid not in rr["sites"]:
            part["obligations"].append({"id": "%s/%s" % (name, sid), "status": "inconclusive", "paths": 0, "note": "assertion site never reached (vacuous)"})
    part["outcomes"] = rr["outcomes"]
    if (rr["outcomes"] or {}).get("panic"):
        # a Go panic of the code under test that no verifPanics obligation caught: never a silent pass
        part["inconclusive"].append("%d path(s) ended in a panic of the code under test outside any no-panic obligation" % rr["outcomes"]["panic"])
    # native replay: all violating assertion models + sample of ordinary paths
    cases, meta = [], {}
    cid = 0
    replay_keys = set()
    for pr in rr["violations"] or []:
        for a in pr["asserts"]:
            if a["status"] == "violated":
                a.setdefault("events", [])   # a violation on a path without symbolic inputs has an empty (omitted) event list
                if a["events"] is None:
                    a["events"] = []
                # only the first counterexample of a violation key is reported (see seen_keys below): replay only that one
                k = key_fn(a["id"], a["events"], pr.get("outs") or []) if key_fn else "%s:%s" % (name, a["id"])
                if k in replay_keys:
                    continue
                replay_keys.add(k)
                cid += 1
                cases.append({"id": cid, "events": a["events"] or []})
                meta[cid] = ("violation", pr, a)
    for pr in rr["replay_paths"] or []:
        if any(a["status"] == "violated" for a in pr.get("asserts") or []):
            continue
        if pr.get("notes"):
            continue
        cid += 1
        cases.append({"id": cid, "events": pr["events"] or []})
        meta[cid] = ("path", pr, None)
    try:
        native = native_replay(entry, args, cases)
    except Exception as e:
        native = None
        part["inconclusive"].append("native replay unavailable: %s" % str(e)[-800:])
    seen_keys = set()
    if native is not None:
        for cid, (kind, pr, a) in meta.items():
            r = native.get(cid)
            if r is None:
                part["inconclusive"].append("native replay returned no result for case %d" % cid)
                continue
            if kind == "path":
                exp_outs = [[o["key"], o["val"]] for o in pr.get("outs") or []]
                got_outs = [list(x) for x in (r.get("outs") or [])]
                ok = r["outcome"] == pr["outcome"] and not (r.get("failed") or []) and got_outs == exp_outs
                if ok:
                    part["replayed"] += 1
                elif r["outcome"] == pr["outcome"] and (r.get("failed") or []):
                    # the real code, run natively on the input of this solver-generated path, fails an assertion that the
                    # symbolic run (which replaces yardl's I/O seams by stubs) did not: a concrete, reproducible violation
                    for aid in r.get("failed") or []:
                        key = key_fn(aid, pr["events"] or [], pr.get("outs") or []) if key_fn else "%s:%s" % (name, aid)
                        key += ":native"
                        if key in seen_keys:
                            continue
                        seen_keys.add(key)
                        body = {"property": prop, "part": name, "entry": entry, "args": list(args), "assertion": aid, "cond": "failed in the native run of this path only",
                                "events": pr["events"] or [], "native_result": r,
                                "how_to_replay": "/verif/bin/check %s --replay <this file>  (re-runs the natively compiled harness on these events via go test -overlay)" % prop}
                        path = vcommon.write_replay(prop, key, body)
                        part["violations"].append({"key": key, "obligation": aid, "desc": "assertion %s fails in the native run of path %s (real I/O functions instead of the symbolic run's stubs) for %s" % (aid, pr["prefix"], _short_model(pr["events"])),
                                                   "model": _short_model(pr["events"]), "replay": path, "replay_confirmed": True})
                else:
                    part["inconclusive"].append("encoder validation failed: path %s symbolic outcome=%s outs=%s, native outcome=%s outs=%s failed=%s detail=%s" % (
                        pr["prefix"], pr["outcome"], exp_outs[:3], r["outcome"], got_outs[:3], r.get("failed"), (r.get("detail") or "")[:200]))
            else:
                confirmed = a["id"] in (r.get("failed") or [])
                key = key_fn(a["id"], a["events"], pr.get("outs") or []) if key_fn else "%s:%s" % (name, a["id"])
                if key in seen_keys:
                    continue
                seen_keys.add(key)
                body = {"property": prop, "part": name, "entry": entry, "args": list(args), "assertion": a["id"], "cond": a.get("cond"),
                        "events": a["events"], "native_result": r,
                        "how_to_replay": "/verif/bin/check %s --replay <this file>  (re-runs the natively compiled harness on these events via go test -overlay)" % prop}
                path = vcommon.write_replay(prop, key, body)
                part["violations"].append({"key": key, "obligation": a["id"], "desc": "assertion %s fails for %s" % (a["id"], _short_model(a["events"])),
                                           "model": _short_model(a["events"]), "replay": path, "replay_confirmed": confirmed})
    for s in (rr["samples"] or [])[:3]:
        part["samples"].append({"prefix": s["prefix"], "outcome": s["outcome"], "inputs": _short_model(s["events"]),
                                "outs": [[o["key"], (o.get("term") or o["val"])[:200]] for o in (s.get("outs") or [])[:6]]})
    part["wall_s"] = time.time() - t0
    return part


if __name__ == "__main__":
    import pprint
    rr = run_gosym(sys.argv[1], [int(x) for x in sys.argv[2:]])
    pprint.pprint({k: v for k, v in rr.items() if k not in ("samples", "replay_paths", "functions", "violations")})
