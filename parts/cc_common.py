"""llsym drivers for coded_stream.h (C01 item 2, C03 kernels differential via refcodec, C16).

A *task* is one (operation, buffer size N, mode, build) combination explored exhaustively by the
symbolic executor in its own process; it returns plain dicts that the part functions in
cc_kernels.py merge, replay natively and turn into the part-result dict of lib/vcommon.py.
"""
import os
import random
import re
import sys
import time

VERIF = os.path.dirname(os.path.dirname(os.path.abspath(__file__)))
for p in (VERIF, os.path.join(VERIF, "engine")):
    if p not in sys.path:
        sys.path.insert(0, p)

import z3  # noqa: E402

from llsym import ir, core, stubs  # noqa: E402
from llsym.core import Obj, Ptr, bv, simp, is_c, select_chain  # noqa: E402
from spec import refcodec  # noqa: E402

PT = ('ptr', ir.I8)
CIS = ('named', 'class.yardl::binary::CodedInputStream')
COS = ('named', 'class.yardl::binary::CodedOutputStream')

_modules = {}


def load_module(path):
    m = _modules.get(path)
    if m is None:
        m = _modules[path] = ir.Module(open(path).read())
    return m


def BV64(v):
    return z3.BitVecVal(v, 64)


READ_OPS = {
    # name: (entry point, value width, encoding)
    'ReadVarU32': ('h_ReadVarU32', 32, 'uvarint'),
    'ReadVarI32': ('h_ReadVarI32', 32, 'svarint'),
    'ReadVarU64': ('h_ReadVarU64', 64, 'uvarint'),
    'ReadVarI64': ('h_ReadVarI64', 64, 'svarint'),
    'ReadFixed1': ('h_ReadFixed1', 8, 'fixed'),
    'ReadFixed2': ('h_ReadFixed2', 16, 'fixed'),
    'ReadFixed4': ('h_ReadFixed4', 32, 'fixed'),
    'ReadFixed8': ('h_ReadFixed8', 64, 'fixed'),
    'ReadByte': ('h_ReadByte', 8, 'fixed'),
    'ReadBytes': ('h_ReadBytes', 0, 'bytes'),
    'VerifyFinished': ('h_VerifyFinished', 0, 'none'),
}
WRITE_OPS = {
    'WriteVarU32': ('h_WriteVarU32', 32, 'uvarint'),
    'WriteVarI32': ('h_WriteVarI32', 32, 'svarint'),
    'WriteVarU64': ('h_WriteVarU64', 64, 'uvarint'),
    'WriteVarI64': ('h_WriteVarI64', 64, 'svarint'),
    'WriteFixed1': ('h_WriteFixed1', 8, 'fixed'),
    'WriteFixed2': ('h_WriteFixed2', 16, 'fixed'),
    'WriteFixed4': ('h_WriteFixed4', 32, 'fixed'),
    'WriteFixed8': ('h_WriteFixed8', 64, 'fixed'),
    'WriteByte': ('h_WriteByte', 8, 'fixed'),
    'WriteBytes': ('h_WriteBytes', 0, 'bytes'),
}


def encode(kind, x):
    """(n as BV64, [BV8...]) via the shared reference codec"""
    if kind == 'uvarint':
        n, bs = refcodec.uvarint(x)
    elif kind == 'svarint':
        n, bs = refcodec.svarint(x)
    else:
        n, bs = refcodec.fixed_le(x)
    return z3.ZeroExt(56, n), bs


XC = {'left': 0, 'stride': 1, 'n': 0, 'items': []}


def xcheck_begin(spec):
    XC.update(left=spec.get('xcheck', 0), stride=max(1, spec.get('xcheck_stride', 3)), n=0, items=[])


def xcheck_record(ex, result):
    """called between push/add and pop of a property query: keep the SMT-LIB2 text of a sample of queries"""
    if XC['left'] <= 0 or result not in (z3.sat, z3.unsat):
        return
    XC['n'] += 1
    if XC['n'] % XC['stride']:
        return
    XC['left'] -= 1
    XC['items'].append((ex.solver.to_smt2(), 'sat' if result == z3.sat else 'unsat'))


def xcheck_run(tag):
    """re-decide the recorded queries with the stand-alone z3 4.8 and cvc5 binaries; returns (stats, problems)"""
    import shutil
    import subprocess
    import tempfile
    stats, problems = {}, []
    if not XC['items']:
        return stats, problems
    solvers = []
    if shutil.which('z3'):
        solvers.append(('z3-binary', ['z3', '-smt2', '-T:30']))
    if shutil.which('cvc5'):
        solvers.append(('cvc5', ['cvc5', '--lang', 'smt2', '--tlimit=30000']))
    d = tempfile.mkdtemp(prefix='llsym-xc-')
    try:
        for i, (text, res) in enumerate(XC['items']):
            pth = os.path.join(d, 'q%d.smt2' % i)
            with open(pth, 'w') as f:
                f.write("(set-logic QF_BV)\n" + text)
            for name, cmd in solvers:
                st = stats.setdefault(name, dict(agree=0, undecided=0, disagree=0))
                try:
                    r = subprocess.run(cmd + [pth], capture_output=True, text=True, timeout=45)
                    ans = (r.stdout.strip().split('\n') or [''])[0].strip()
                except subprocess.TimeoutExpired:
                    ans = 'timeout'
                if ans == res:
                    st['agree'] += 1
                elif ans in ('sat', 'unsat'):
                    st['disagree'] += 1
                    problems.append("%s: solver disagreement on a property query: python z3 says %s, %s says %s" % (tag, res, name, ans))
                else:
                    st['undecided'] += 1
    finally:
        shutil.rmtree(d, True)
    return stats, problems


class Tally:
    """per-obligation bookkeeping inside a task"""

    def __init__(self):
        self.o = {}

    def get(self, oid):
        return self.o.setdefault(oid, dict(id=oid, status='holds', paths=0, queries=0, unsat=0, sat=0, unknown=0, note=''))

    def reach(self, oid):
        self.get(oid)['paths'] += 1

    def fail(self, oid, note):
        d = self.get(oid)
        d['status'] = 'violated'
        if note and note not in d['note']:
            d['note'] = (d['note'] + '; ' + note).strip('; ')[:400]

    def inconclusive(self, oid, note):
        d = self.get(oid)
        if d['status'] == 'holds':
            d['status'] = 'inconclusive'
        d['note'] = (d['note'] + '; ' + note).strip('; ')[:400]

    def prove(self, ex, oid, formula):
        """PC and not(formula) unsat?  returns None if proved, model if refuted, 'unknown' otherwise"""
        d = self.get(oid)
        d['paths'] += 1
        f = simp(formula) if not isinstance(formula, bool) else formula
        if f is True:
            return None
        d['queries'] += 1
        ex.solver.push()
        ex.solver.add(ex.tr(z3.Not(f)) if not isinstance(f, bool) else ex.tr(not f))
        t0 = time.time()
        r = ex.solver.check()
        ex.stats.solver_s += time.time() - t0
        ex.stats.queries += 1
        xcheck_record(ex, r)
        if r == z3.unknown and not isinstance(f, bool) and z3.is_and(f) and f.num_args() > 1:
            # a large conjunction timed out: decide its conjuncts one at a time (unsat for all <=> unsat for the conjunction)
            ex.solver.pop()
            r = z3.unsat
            for g in f.children():
                ex.solver.push()
                ex.solver.add(ex.tr(z3.Not(g)))
                t0 = time.time()
                rg = ex.solver.check()
                ex.stats.solver_s += time.time() - t0
                ex.stats.queries += 1
                d['queries'] += 1
                if rg == z3.sat:
                    r = z3.sat
                    break          # the solver state (push level) now holds the refuting query: model taken below
                ex.solver.pop()
                if rg != z3.unsat:
                    r = z3.unknown
            if r != z3.sat:
                ex.solver.push()   # keep push/pop balanced with the common exit below
        out = None
        if r == z3.unsat:
            d['unsat'] += 1
            ex.stats.unsat += 1
        elif r == z3.sat:
            d['sat'] += 1
            ex.stats.sat += 1
            out = ex.solver.model()
            ex.cex_model = out      # counterexample candidates are built from the refuting model
            d['status'] = 'violated'
        else:
            d['unknown'] += 1
            ex.stats.unknown += 1
            out = 'unknown'
            self.inconclusive(oid, 'solver unknown')
        ex.solver.pop()
        return out

    def prove_all(self, ex, pairs):
        """one query for a conjunction of obligations; only if it is refuted are the conjuncts checked one by
        one.  Returns {oid: model} for the refuted ones ('unknown' entries mark undecided ones)."""
        pairs = [(oid, (simp(f) if not isinstance(f, bool) else f)) for oid, f in pairs]
        live = [(oid, f) for oid, f in pairs if f is not True]
        for oid, f in pairs:
            if f is True:
                self.get(oid)['paths'] += 1
        if not live:
            return {}
        conj = z3.And(*[f if not isinstance(f, bool) else z3.BoolVal(f) for _, f in live])
        ex.solver.push()
        ex.solver.add(ex.tr(z3.Not(conj)))
        t0 = time.time()
        r = ex.solver.check()
        ex.stats.solver_s += time.time() - t0
        ex.stats.queries += 1
        xcheck_record(ex, r)
        ex.solver.pop()
        if r == z3.unsat:
            ex.stats.unsat += 1
            for oid, _ in live:
                d = self.get(oid)
                d['paths'] += 1
                d['queries'] += 1
                d['unsat'] += 1
            return {}
        if r == z3.sat:
            ex.stats.sat += 1
        else:
            ex.stats.unknown += 1
        out = {}
        for oid, f in live:
            m_ = self.prove(ex, oid, f)
            if m_ is not None:
                out[oid] = m_
        return out

    def finish(self):
        out = []
        for d in self.o.values():
            if d['paths'] == 0 and d['status'] == 'holds':
                d['status'] = 'inconclusive'
                d['note'] = (d['note'] + '; vacuous: no feasible path reached this assertion').strip('; ')
            out.append(d)
        return out


def mval(mdl, t):
    if isinstance(t, bool):
        return int(t)
    if is_c(t):
        return t
    if t.ctx != mdl.ctx:
        t = t.translate(mdl.ctx)   # models live in the solver context
    v = mdl.eval(t, model_completion=True)
    if z3.is_bool(v):
        return 1 if z3.is_true(v) else 0
    return v.as_long()


def site_key(info, op):
    """stable violation key from the source-level frames of a stale load"""
    fr = info.get('site') or []
    names = [re.sub(r'<.*', '', f[0]) for f in fr]
    if names and names[0].endswith('FastFromArray') and len(names) > 1:
        return "cc:%s:stale-after-short-refill" % names[1], names
    if names:
        return "cc:%s:stale-after-empty-refill" % names[0], names
    return "cc:%s:stale-load" % op, names


# ================================================================================================
# reader
# ================================================================================================

def reader_state(ex, N, M, stream_primary=False):
    """Arbitrary reachable CodedInputStream state.  Strengthened class invariant (what the public API
    can produce): data <= ptr <= end <= data+N; fresh (nothing read yet: ptr=end=data, zeroed buffer,
    at_eof_=false) or filled (at_eof_ <=> end < data+N, because istream::read delivers fewer than N
    bytes only at end of input); at_eof_ => the underlying stream is exhausted."""
    m = ex.m
    p, e, rem, fresh = z3.BitVec('p', 64), z3.BitVec('e', 64), z3.BitVec('rem', 64), z3.Bool('fresh')
    if stream_primary:
        # the logical input S is primary; buffer cells and stream bytes are views of it (cheaper when the
        # assumptions talk about many logical bytes at once, as the block-stream well-formedness does)
        S = [z3.BitVec('s_%d' % i, 8) for i in range(N + M)]
        G = [z3.BitVec('buf_%d' % i, 8) for i in range(N)]
        B = [simp(z3.If(z3.And(z3.ULE(p, BV64(i)), z3.ULT(BV64(i), e)), select_chain(BV64(i) - p, S), G[i])) for i in range(N)]
        IN = [simp(select_chain(BV64(j) + (e - p), S)) for j in range(M)]
    else:
        B = [z3.BitVec('buf_%d' % i, 8) for i in range(N)]
        IN = [z3.BitVec('in_%d' % i, 8) for i in range(M)]
    at_eof = z3.And(z3.Not(fresh), z3.ULT(e, BV64(N)))
    ex.assume(z3.ULE(e, BV64(N)))
    ex.assume(z3.ULE(p, e))
    ex.assume(z3.ULE(rem, BV64(M)))
    ex.assume(z3.Implies(fresh, z3.And(e == 0, *[b == 0 for b in B])))
    ex.assume(z3.Implies(at_eof, rem == 0))
    buf = Obj('buffer', N)
    buf.cells = list(B)
    ist = stubs.IStreamModel(ex, IN, rem)
    ex.store_val(Ptr(ist.obj, ist.state_off), ir.I32, simp(z3.If(at_eof, z3.BitVecVal(6, 32), z3.BitVecVal(0, 32))), check=False)
    s = Obj('stream', m.sizeof(CIS))
    for i in range(s.size):
        s.cells[i] = 0
    F = [m.field_offset(CIS, i) for i in range(5)]
    ex.store_val(Ptr(s, F[0]), PT, ist.ptr(), check=False)
    ex.store_val(Ptr(s, F[1]), PT, Ptr(buf, 0), check=False)
    ex.store_val(Ptr(s, F[1] + 8), PT, Ptr(buf, N), check=False)
    ex.store_val(Ptr(s, F[1] + 16), PT, Ptr(buf, N), check=False)
    ex.store_val(Ptr(s, F[2]), PT, Ptr(buf, p), check=False)
    ex.store_val(Ptr(s, F[3]), PT, Ptr(buf, e), check=False)
    ex.store_val(Ptr(s, F[4]), ir.I8, simp(z3.If(at_eof, z3.BitVecVal(1, 8), z3.BitVecVal(0, 8))), check=False)

    def guard(ex_, off, nb, is_store):
        # C16: a load from the staging buffer must lie inside [data, buffer_end_ptr_)
        if is_store:
            return None
        endp = ex_.load_val(Ptr(s, F[3]), PT, check=False)
        if endp.obj is not buf:
            return False
        return z3.ULE(bv(off, 64) + bv(nb, 64), bv(endp.off, 64))

    buf.guard = guard
    inbuf = e - p

    def L(i):
        """i-th byte of the logical remaining input = buffer[p..e) ++ stream"""
        if stream_primary:
            return S[i] if is_c(i) else select_chain(i, S)
        I = BV64(i) if is_c(i) else i
        return z3.If(z3.ULT(I, inbuf), select_chain(p + I, B), select_chain(I - inbuf, IN))

    st = dict(p=p, e=e, rem=rem, fresh=fresh, B=B, IN=IN, at_eof=at_eof, buf=buf, ist=ist, s=s, F=F, L=L,
              T=inbuf + rem, N=N, M=M)
    return st


def reader_post(ex, st):
    s, F = st['s'], st['F']
    pp = ex.load_val(Ptr(s, F[2]), PT, check=False)
    ep = ex.load_val(Ptr(s, F[3]), PT, check=False)
    bg = ex.load_val(Ptr(s, F[1]), PT, check=False)
    fn = ex.load_val(Ptr(s, F[1] + 8), PT, check=False)
    eof = ex.load_val(Ptr(s, F[4]), ir.I8, check=False)
    same_obj = pp.obj is st['buf'] and ep.obj is st['buf'] and bg.obj is st['buf'] and fn.obj is st['buf']
    return dict(p=pp.off, e=ep.off, eof=eof, rem=st['ist'].remaining(), same_obj=same_obj,
                vec_ok=same_obj and is_c(bg.off) and bg.off == 0 and is_c(fn.off) and fn.off == st['N'])


def reader_inv(st, post):
    N = st['N']
    if not post['vec_ok']:
        return False
    p2, e2, eof, rem2 = bv(post['p'], 64), bv(post['e'], 64), bv(post['eof'], 8), bv(post['rem'], 64)
    return z3.And(z3.ULE(p2, e2), z3.ULE(e2, BV64(N)), z3.ULE(eof, z3.BitVecVal(1, 8)),
                  z3.Implies(eof == 1, rem2 == 0))


def reader_script(mdl, st, op, arg=None):
    """native argv reproducing the model's pre-state through the public API, then the operation"""
    N = st['N']
    p, e, rem, fresh = (mval(mdl, st[k]) for k in ('p', 'e', 'rem', 'fresh'))
    B = [mval(mdl, b) for b in st['B']]
    IN = [mval(mdl, b) for b in st['IN']]
    cmds = []
    if fresh:
        data = IN[:rem]
    else:
        g = [B[i] if i >= e else 0 for i in range(N)]  # previous buffer-full: supplies the stale bytes
        data = g + B[:e] + IN[:rem]
        cmds.append("pre:%d" % (N + p))
        if p == 0:
            cmds.append("prefill")
    opcmd = op if arg is None else "%s:%d" % (op, arg)
    return ["R", str(N), bytes(data).hex()], cmds, opcmd


def reader_task(spec):
    t_start = time.time()
    mod = load_module(spec['ir'])
    op, N, mode = spec['op'], spec['N'], spec['mode']
    fn, w, kind = READ_OPS[op]
    M = max(N + 12, 2 * N + 4)
    tag = "%s.%s.N%d%s" % ('R' if mode == 'ok' else 'T', op, N, '' if spec.get('ndebug', True) else '.dbg')
    tally = Tally()
    pass
    want_samples = spec.get('samples', 4)
    samples, cands = [], {}
    O = lambda s_: "%s.%s" % (tag, s_)
    names = (['returns', 'value', 'consumed', 'rest-intact', 'invariant', 'memory-safe', 'window'] if mode == 'ok'
             else ['throws', 'window', 'invariant', 'memory-safe'])
    if op == 'VerifyFinished':
        names = ['verdict', 'invariant', 'memory-safe', 'window', 'consumed']
    for n_ in names:
        tally.get(O(n_))
    if not spec.get('ndebug', True):
        tally.get(O('no-assert'))
    pathno = [0]

    def body(ex):
        st = reader_state(ex, N, M)
        ex.st = st
        L, T = st['L'], st['T']
        args = [Ptr(st['s'], 0)]
        if kind in ('uvarint', 'svarint', 'fixed'):
            x = z3.BitVec('x', w)
            nenc, enc = encode(kind, x)
            st.update(x=x, nenc=nenc, maxenc=len(enc))
            if mode == 'ok':
                for i, b in enumerate(enc):
                    ex.assume(z3.Implies(z3.ULT(BV64(i), nenc), L(i) == b))
                ex.assume(z3.UGE(T, nenc))
            else:
                for i, b in enumerate(enc):
                    ex.assume(z3.Implies(z3.ULT(BV64(i), T), L(i) == b))
                ex.assume(z3.ULT(T, nenc))
            out = Obj('out', w // 8)
            st['out'] = out
            args.append(Ptr(out, 0))
        elif kind == 'bytes':
            n = z3.BitVec('n', 64)
            cap = 2 * N + 1
            ex.assume(z3.ULE(n, BV64(cap)))
            st.update(nenc=n, maxenc=cap, n=n)
            if mode == 'ok':
                ex.assume(z3.UGE(T, n))
            else:
                ex.assume(z3.ULT(T, n))
            out = Obj('out', cap)
            st['out'] = out
            args += [Ptr(out, 0), n]
        else:  # VerifyFinished: mode ok = everything consumed, trunc = bytes left
            st.update(nenc=BV64(0), maxenc=0)
            ex.assume(T == 0 if mode == 'ok' else T != 0)
        if not ex.prefix and ex.check() != z3.sat:
            raise core.Unsupported("setup assumptions unsatisfiable")
        ex.run(fn, args)
        return None

    def sample(res, expect_kind):
        ex, st = res.ex, res.ex.st
        mdl = getattr(ex, 'cex_model', None)
        if mdl is None:
            mdl = ex.model()
        if mdl is None:
            return None
        arg = mval(mdl, st['n']) if kind == 'bytes' else None
        head, cmds, opcmd = reader_script(mdl, st, op, arg)
        post = reader_post(ex, st)
        exp = None
        if res.kind == 'ret':
            if kind in ('uvarint', 'svarint', 'fixed'):
                v = ex.load_val(Ptr(st['out'], 0), ('int', w), check=False)
                exp = "ret %d" % mval(mdl, v)
            elif kind == 'bytes':
                bs = ex.load_bytes(Ptr(st['out'], 0), arg, check=False) if arg else []
                exp = ("ret " + bytes(mval(mdl, b) for b in bs).hex()).rstrip() if arg else "ret "
            else:
                exp = "ret"
        elif res.kind == 'throws':
            exp = "throw " + res.info['type']
        drain = None
        if res.kind in ('ret', 'throws') and post['same_obj']:
            p2, e2 = mval(mdl, post['p']), mval(mdl, post['e'])
            cells = st['buf'].cells
            ist = st['ist']
            pos, tot = mval(mdl, ist.pos), mval(mdl, ist.total)
            IN = [mval(mdl, b) for b in st['IN']]
            if p2 <= e2 <= N:
                drain = bytes([mval(mdl, cells[i]) for i in range(p2, e2)] + IN[pos:tot]).hex()
        return dict(kind='reader', tag=tag, op=op, N=N, argv=head + cmds + [opcmd, "drain"], nprefix=len(cmds),
                    expect_op=exp, expect_drain=drain, outcome=res.kind,
                    model=dict(p=mval(mdl, st['p']), e=mval(mdl, st['e']), rem=mval(mdl, st['rem']), fresh=bool(mval(mdl, st['fresh'])),
                               x=(mval(mdl, st['x']) if 'x' in st else None), n=arg))

    def candidate(key, obligation, desc, res, must):
        """remember one counterexample per key (first one wins: deterministic DFS order)"""
        c = cands.get(key)
        if c is not None:
            c['count'] += 1
            return
        smp = sample(res, None)
        if smp is None:
            tally.inconclusive(obligation, "no model for counterexample %s" % key)
            return
        # what the specification (reference codec over the model's logical input) demands natively
        ex, st = res.ex, res.ex.st
        mdl = getattr(ex, 'cex_model', None)
        if mdl is None:
            mdl = ex.model()
        spec_op = spec_drain = None
        if mdl is not None:
            Tc = mval(mdl, st['T'])
            Lc = [mval(mdl, st['L'](i)) for i in range(min(Tc, N + M))]
            if op == 'VerifyFinished':
                spec_op = "ret" if mode == 'ok' else "throw std::runtime_error"
            elif mode == 'trunc':
                spec_op = "throw yardl::binary::EndOfStreamException"
            else:
                nc = mval(mdl, st['nenc'])
                spec_op = ("ret %d" % mval(mdl, st['x'])) if kind != 'bytes' else ("ret " + bytes(Lc[:nc]).hex()).strip()
                spec_drain = bytes(Lc[nc:]).hex()
        cands[key] = dict(key=key, obligation=obligation, desc=desc, sample=smp, must=must, count=1, spec_op=spec_op, spec_drain=spec_drain)

    def on_path(res):
        ex = res.ex
        pathno[0] += 1
        k = res.kind
        if k == 'unsupported':
            for n_ in names:
                tally.inconclusive(O(n_), res.info.get('why', '')[:160])
            return
        st = ex.st
        # memory safety
        tally.reach(O('memory-safe'))
        if k in ('oob', 'oob-gep', 'null-deref', 'use-after-scope', 'ub-shift', 'div-by-zero', 'unreachable', 'trap'):
            fr = [re.sub(r'<.*', '', f[0]) for f in res.info.get('site', [])]
            key = "cc:%s:%s" % (fr[0] if fr else op, k)
            tally.fail(O('memory-safe'), key)
            candidate(key, O('memory-safe'), "%s in %s (%s)" % (k, ' < '.join(fr[:3]), res.info.get('instr', '')[:80]), res,
                      'asan')
            return
        if k == 'unwind':
            for n_ in names:
                tally.inconclusive(O(n_), "unwinding cap: " + str(res.info.get('why')))
            return
        if k == 'assert':
            fr = [re.sub(r'<.*', '', f[0]) for f in res.info.get('site', [])]
            key = "cc:%s:assert-from-valid-state" % (fr[0] if fr else op)
            tally.reach(O('no-assert'))
            tally.fail(O('no-assert'), key)
            candidate(key, O('no-assert'), "assert(%s) fails from a state satisfying the invariant" % res.info.get('expr'), res, 'abort')
            return
        if not spec.get('ndebug', True):
            tally.reach(O('no-assert'))
        # window
        tally.reach(O('window'))
        if k == 'guard':
            key, fr = site_key(res.info, op)
            tally.fail(O('window'), key)
            main = O('throws') if mode == 'trunc' else (O('verdict') if op == 'VerifyFinished' else O('value'))
            tally.reach(main)
            tally.fail(main, key)
            desc = ("%s (entry point %s): load of %s byte(s) at buffer offset %s lies outside [data, buffer_end_ptr_): stale bytes are decoded "
                    "after FillBuffer() delivered fewer bytes than the decoder consumes, the call returns normally instead of throwing "
                    "EndOfStreamException and leaves buffer_ptr_ > buffer_end_ptr_; call chain %s"
                    % (fr[1] if len(fr) > 1 and fr[0].endswith('FastFromArray') else (fr[0] if fr else op), op, res.info.get('nbytes'),
                       res.info.get('off'), ' < '.join(fr[:4])))
            candidate(key, main, desc, res, 'ret' if mode == 'trunc' else 'any')
            return
        post = reader_post(ex, st)
        inv = reader_inv(st, post)
        r = tally.prove(ex, O('invariant'), inv)
        if r is not None and r != 'unknown':
            candidate("cc:%s:invariant-broken" % op, O('invariant'), "class invariant does not hold after %s (%s)" % (op, k), res, 'any')
        p2, e2, rem2 = bv(post['p'], 64), bv(post['e'], 64), bv(post['rem'], 64)
        T2 = e2 - p2 + rem2
        if op == 'VerifyFinished':
            tally.reach(O('verdict'))
            good = (k == 'ret') if mode == 'ok' else (k == 'throws' and res.info.get('type') == 'std::runtime_error')
            if not good:
                tally.fail(O('verdict'), "outcome %s" % k)
                candidate("cc:VerifyFinished:wrong-verdict", O('verdict'), "VerifyFinished %s with %s input left" %
                          (k, 'no' if mode == 'ok' else 'some'), res, 'any')
            r = tally.prove(ex, O('consumed'), T2 == st['T'])
            if r is not None and r != 'unknown':
                candidate("cc:VerifyFinished:consumes", O('consumed'), "VerifyFinished changes the logical position", res, 'any')
        elif mode == 'ok':
            tally.reach(O('returns'))
            if k != 'ret':
                tally.fail(O('returns'), "%s %s" % (k, res.info.get('type', '')))
                candidate("cc:%s:throws-on-complete-input" % op, O('returns'), "%s ends with %s %s although the whole encoding is present" %
                          (op, k, res.info.get('type', '')), res, 'throw')
            else:
                nenc = st['nenc']
                if kind == 'bytes':
                    n = st['n']
                    outb = st['out'].cells
                    conj = []
                    for i in range(st['maxenc']):
                        c = outb[i]
                        if c is None:
                            conj.append(z3.Not(z3.ULT(BV64(i), n)))
                        else:
                            conj.append(z3.Implies(z3.ULT(BV64(i), n), bv(c, 8) == st['L'](i)))
                    val_ok = z3.And(*conj)
                else:
                    v = ex.load_val(Ptr(st['out'], 0), ('int', w), check=False)
                    val_ok = bv(v, w) == st['x']
                r = tally.prove(ex, O('value'), val_ok)
                if r is not None and r != 'unknown':
                    candidate("cc:%s:value-mismatch" % op, O('value'), "%s returns a value different from the one encoded" % op, res, 'any')
                r = tally.prove(ex, O('consumed'), T2 == st['T'] - nenc)
                if r is not None and r != 'unknown':
                    candidate("cc:%s:consumed-mismatch" % op, O('consumed'), "%s does not consume exactly the encoding" % op, res, 'any')
                if post['same_obj']:
                    cells = [bv(c, 8) if c is not None else z3.BitVecVal(0, 8) for c in st['buf'].cells]
                    inb2 = e2 - p2
                    conj = [z3.Implies(z3.ULT(BV64(i), inb2), select_chain(p2 + BV64(i), cells) == st['L'](nenc + BV64(i)))
                            for i in range(N)]
                    r = tally.prove(ex, O('rest-intact'), z3.And(*conj))
                    if r is not None and r != 'unknown':
                        candidate("cc:%s:rest-corrupted" % op, O('rest-intact'), "bytes following the value are not the stream's", res, 'any')
                else:
                    tally.fail(O('rest-intact'), 'pointers left the buffer object')
        else:
            tally.reach(O('throws'))
            ok = k == 'throws' and res.info.get('type') == 'yardl::binary::EndOfStreamException'
            if not ok:
                tally.fail(O('throws'), "outcome %s %s" % (k, res.info.get('type', '')))
                candidate("cc:%s:%s-on-truncated-input" % (op, 'returns' if k == 'ret' else k), O('throws'),
                          "%s ends with %s on a truncated encoding" % (op, k), res, 'ret' if k == 'ret' else 'any')
        # sample for encoder validation
        ex.cex_model = None
        if len(samples) < want_samples and (pathno[0] + spec.get('seed', 0)) % spec.get('stride', 1) == 0:
            s_ = sample(res, k)
            if s_ is not None:
                samples.append(s_)

    deadline = t_start + spec.get('budget_s', 600)
    stats, problems = core.explore(mod, body, on_path, intercepts=stubs.BASE, loop_cap=spec.get('loop_cap', 40),
                                   deadline=deadline, max_paths=spec.get('max_paths', 20000))
    obl = tally.finish()
    if problems:
        for d in obl:
            if d['status'] == 'holds':
                d['status'] = 'inconclusive'
                d['note'] = (d['note'] + '; ' + problems[0])[:400].strip('; ')
    return dict(tag=tag, obligations=obl, stats=stats_dict(stats), cands=list(cands.values()), samples=samples,
                problems=sorted(set(problems)), wall_s=time.time() - t_start)


def stats_dict(s):
    return dict(paths=s.paths, decisions=s.decisions, queries=s.queries, unsat=s.unsat, sat=s.sat, unknown=s.unknown,
                solver_s=s.solver_s, instrs=s.instrs, fn_dyn=s.fn_dyn, fn_static=s.fn_static, stubs=sorted(s.stubs_used))


# ================================================================================================
# writer
# ================================================================================================

def writer_task(spec):
    t_start = time.time()
    mod = load_module(spec['ir'])
    op, N = spec['op'], spec['N']
    fn, w, kind = WRITE_OPS[op]
    tag = "W.%s.N%d%s" % (op, N, '' if spec.get('ndebug', True) else '.dbg')
    tally = Tally()
    want_samples = spec.get('samples', 4)
    samples, cands = [], {}
    O = lambda s_: "%s.%s" % (tag, s_)
    names = ['returns', 'bytes', 'invariant', 'memory-safe']
    for n_ in names:
        tally.get(O(n_))
    if not spec.get('ndebug', True):
        tally.get(O('no-assert'))
    pathno = [0]
    F = [mod.field_offset(COS, i) for i in range(4)]
    cap = 2 * N + 1

    def body(ex):
        m = ex.m
        p = z3.BitVec('p', 64)
        ex.assume(z3.ULE(p, BV64(N)))
        W = [z3.BitVec('buf_%d' % i, 8) for i in range(N)]
        buf = Obj('buffer', N)
        buf.cells = list(W)
        ost = stubs.OStreamModel(ex)
        s = Obj('stream', m.sizeof(COS))
        for i in range(s.size):
            s.cells[i] = 0
        ex.store_val(Ptr(s, F[0]), PT, ost.ptr(), check=False)
        ex.store_val(Ptr(s, F[1]), PT, Ptr(buf, 0), check=False)
        ex.store_val(Ptr(s, F[1] + 8), PT, Ptr(buf, N), check=False)
        ex.store_val(Ptr(s, F[1] + 16), PT, Ptr(buf, N), check=False)
        ex.store_val(Ptr(s, F[2]), PT, Ptr(buf, p), check=False)
        ex.store_val(Ptr(s, F[3]), PT, Ptr(buf, N), check=False)
        st = dict(p=p, W=W, buf=buf, ost=ost, s=s, N=N)
        ex.st = st
        args = [Ptr(s, 0)]
        if kind == 'bytes':
            n = z3.BitVec('n', 64)
            ex.assume(z3.ULE(n, BV64(cap)))
            D = [z3.BitVec('src_%d' % i, 8) for i in range(cap)]
            src = Obj('src', cap)
            src.cells = list(D)
            st.update(n=n, nenc=n, enc=D, src=src)
            args += [Ptr(src, 0), n]
        else:
            x = z3.BitVec('x', w)
            nenc, enc = encode(kind, x)
            val = Obj('value', w // 8)
            ex.store_val(Ptr(val, 0), ('int', w), x, check=False)
            st.update(x=x, nenc=nenc, enc=enc)
            args.append(Ptr(val, 0))
        if not ex.prefix and ex.check() != z3.sat:
            raise core.Unsupported("setup assumptions unsatisfiable")
        st['phase'] = 'op'
        ex.run(fn, args)
        # invariant after the operation (before Flush)
        st['post_op'] = writer_post(ex, st)
        st['phase'] = 'flush'
        ex.run('h_Flush', [Ptr(s, 0)])
        st['phase'] = 'done'
        return None

    def writer_post(ex, st):
        s = st['s']
        pp = ex.load_val(Ptr(s, F[2]), PT, check=False)
        ep = ex.load_val(Ptr(s, F[3]), PT, check=False)
        bg = ex.load_val(Ptr(s, F[1]), PT, check=False)
        fn_ = ex.load_val(Ptr(s, F[1] + 8), PT, check=False)
        ok = all(q.obj is st['buf'] for q in (pp, ep, bg, fn_)) and is_c(bg.off) and bg.off == 0 and is_c(fn_.off) and \
            fn_.off == N and is_c(ep.off) and ep.off == N
        return dict(ok=ok, p=pp.off)

    def sample(res):
        ex, st = res.ex, res.ex.st
        mdl = getattr(ex, 'cex_model', None)
        if mdl is None:
            mdl = ex.model()
        if mdl is None:
            return None
        p = mval(mdl, st['p'])
        Wv = [mval(mdl, b) for b in st['W']]
        argv = ["W", str(N)]
        if p:
            argv.append("pre:" + bytes(Wv[:p]).hex())
        if kind == 'bytes':
            n = mval(mdl, st['n'])
            argv.append("WriteBytes:" + bytes(mval(mdl, b) for b in st['enc'][:n]).hex())
            xv = n
        else:
            xv = mval(mdl, st['x'])
            argv.append("%s:%d" % (op, xv))
        argv.append("Flush")
        exp = None
        if res.kind == 'ret':
            ost = st['ost']
            tot = mval(mdl, ost.total())
            exp = bytes(mval(mdl, ost.byte_at(i)) for i in range(tot)).hex()
        return dict(kind='writer', tag=tag, op=op, N=N, argv=argv, expect_out=exp, outcome=res.kind, model=dict(p=p, x=xv))

    def candidate(key, obligation, desc, res, must):
        c = cands.get(key)
        if c is not None:
            c['count'] += 1
            return
        smp = sample(res)
        if smp is None:
            tally.inconclusive(obligation, "no model for counterexample %s" % key)
            return
        ex, st = res.ex, res.ex.st
        mdl = getattr(ex, 'cex_model', None)
        if mdl is None:
            mdl = ex.model()
        spec_out = None
        if mdl is not None:
            pc_, nc = mval(mdl, st['p']), mval(mdl, st['nenc'])
            spec_out = bytes([mval(mdl, b) for b in st['W'][:pc_]] + [mval(mdl, b) for b in st['enc'][:nc]]).hex()
        cands[key] = dict(key=key, obligation=obligation, desc=desc, sample=smp, must=must, count=1, spec_out=spec_out)

    def on_path(res):
        ex = res.ex
        pathno[0] += 1
        k = res.kind
        if k == 'unsupported':
            for n_ in names:
                tally.inconclusive(O(n_), res.info.get('why', '')[:160])
            return
        if k == 'unwind':
            for n_ in names:
                tally.inconclusive(O(n_), "unwinding cap: " + str(res.info.get('why')))
            return
        st = ex.st
        tally.reach(O('memory-safe'))
        if k in ('oob', 'oob-gep', 'null-deref', 'use-after-scope', 'ub-shift', 'div-by-zero', 'unreachable', 'trap', 'guard'):
            fr = [re.sub(r'<.*', '', f[0]) for f in res.info.get('site', [])]
            key = "cc:%s:%s" % (fr[0] if fr else op, k)
            tally.fail(O('memory-safe'), key)
            candidate(key, O('memory-safe'), "%s in %s (%s)" % (k, ' < '.join(fr[:3]), res.info.get('instr', '')[:80]), res, 'asan')
            return
        if k == 'assert':
            fr = [re.sub(r'<.*', '', f[0]) for f in res.info.get('site', [])]
            key = "cc:%s:assert-from-valid-state" % (fr[0] if fr else op)
            tally.reach(O('no-assert'))
            tally.fail(O('no-assert'), key)
            candidate(key, O('no-assert'), "assert(%s) fails from a state satisfying the invariant" % res.info.get('expr'), res, 'abort')
            return
        if not spec.get('ndebug', True):
            tally.reach(O('no-assert'))
        tally.reach(O('returns'))
        if k != 'ret':
            tally.fail(O('returns'), "%s %s" % (k, res.info.get('type', '')))
            candidate("cc:%s:throws" % op, O('returns'), "%s/Flush ends with %s" % (op, k), res, 'any')
            return
        po = st['post_op']
        inv1 = z3.ULE(bv(po['p'], 64), BV64(N)) if po['ok'] else False
        pf = writer_post(ex, st)
        inv2 = (bv(pf['p'], 64) == 0) if pf['ok'] else False
        r = tally.prove(ex, O('invariant'), z3.And(inv1, inv2) if (po['ok'] and pf['ok']) else False)
        if r is not None and r != 'unknown':
            candidate("cc:%s:invariant-broken" % op, O('invariant'), "writer invariant broken after %s or Flush" % op, res, 'any')
        ost = st['ost']
        p, nenc, enc = st['p'], st['nenc'], st['enc']
        tot = bv(ost.total(), 64)
        conj = [tot == p + nenc]
        for j in range(N + len(enc)):
            exp = z3.If(z3.ULT(BV64(j), p), st['W'][j] if j < N else z3.BitVecVal(0, 8),
                        select_chain(BV64(j) - p, [bv(b, 8) for b in enc]))
            conj.append(z3.Implies(z3.ULT(BV64(j), p + nenc), ost.byte_at(j) == exp))
        r = tally.prove(ex, O('bytes'), z3.And(*conj))
        if r is not None and r != 'unknown':
            candidate("cc:%s:bytes-mismatch" % op, O('bytes'), "bytes emitted by %s differ from the reference codec" % op, res, 'any')
        ex.cex_model = None
        if len(samples) < want_samples and (pathno[0] + spec.get('seed', 0)) % spec.get('stride', 1) == 0:
            s_ = sample(res)
            if s_ is not None:
                samples.append(s_)

    deadline = t_start + spec.get('budget_s', 600)
    stats, problems = core.explore(mod, body, on_path, intercepts=stubs.BASE, loop_cap=spec.get('loop_cap', 40),
                                   deadline=deadline, max_paths=spec.get('max_paths', 20000))
    obl = tally.finish()
    if problems:
        for d in obl:
            if d['status'] == 'holds':
                d['status'] = 'inconclusive'
                d['note'] = (d['note'] + '; ' + problems[0])[:400].strip('; ')
    return dict(tag=tag, obligations=obl, stats=stats_dict(stats), cands=list(cands.values()), samples=samples,
                problems=sorted(set(problems)), wall_s=time.time() - t_start)


def run_task(spec):
    try:
        xcheck_begin(spec)
        if spec['kind'] == 'reader':
            r = reader_task(spec)
        elif spec['kind'] == 'writer':
            r = writer_task(spec)
        elif spec['kind'] in ('blocks', 'header'):
            from parts import cc_blocks
            r = cc_blocks.run_task(spec)
        elif spec['kind'] in ('sread', 'swrite'):
            from parts import cc_reuse
            r = cc_reuse.run_task(spec)
        elif spec['kind'] in ('tstream', 'tcontainer', 'ehself'):
            from parts import cc_trunc
            r = cc_trunc.run_task(spec)
        else:
            raise ValueError(spec['kind'])
        xs, xp = xcheck_run(r['tag'])
        r['xcheck'] = xs
        if xp:
            r['problems'] = sorted(set(r['problems'] + xp))
        return r
    except Exception as e:  # a crashed task is inconclusive, never silently dropped
        import traceback
        return dict(tag="%s.%s.N%s" % (spec.get('kind'), spec.get('op'), spec.get('N')), obligations=[], stats=None, cands=[], samples=[],
                    problems=["task crashed: %s: %s" % (type(e).__name__, e), traceback.format_exc()[-600:]], wall_s=0.0)
