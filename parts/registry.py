# property id -> [(module under parts/, function, kwargs)]
G = "gosym_part"

PARTS = {
    "C14": [
        (G, "gosym_part", dict(name="c14_type_plans", entry="internal/zzverif.C14Type", args_quick=(1, 1), args_thorough=(2, 1),
                               extra_thorough=("-max-paths", "400000"),
                               required_sites=("cpp-write-plan", "cpp-read-plan", "python-plan", "matlab-plan"),
                               desc="one symbolic type (args: nesting depth, number of leaves ranging over all 18 primitives) through cpp/binary.typeRwFunction "
                                    "(write+read), python/binary.typeSerializer, matlab/binary.typeSerializer; each emitted expression parsed and mapped "
                                    "through the backend head table must equal Plan(T); vector lengths / array dimensions are symbolic 64-bit values",
                               assumptions=["head tables in harness/go/internal/zzverif/zz_plan.go give the meaning of each runtime entry point",
                                            "type shapes limited to the generator in zz_gen.go (depth bound; union = 2 cases (+null); records 1-2 fields; one generic parameter)"])),
    ],
}
