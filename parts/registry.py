# property id -> [(module under parts/, function, kwargs)]
G = "gosym_part"

C06_ASSUME = ["type shapes limited to harness generator anyStructural (primitives, aliases of primitives, optional/union/vector/array/map/stream over them)",
              "evolution context empty (no named record/enum definitions) in the type-pair harness"]

C18_ASSUME = ["readPackageInfo / fetchAndCachePackages replaced under gosym by an in-memory package store (verifRepl_ functions); "
              "natively the same graph is materialised as _package.yml files and the unmodified loader runs",
              "local directory imports only (no git/https fetching)"]


def c18_key(aid, events, outs):
    m = {e["name"]: e["value"] for e in events}
    if aid == "too-deep-rejected" and m.get("shortcut") == "1" and m.get("shortcut-first") == "1":
        return "c18:too-deep-chain-accepted-when-shortcut-import-listed-first"
    return "c18:%s:%s" % (aid, ",".join("%s=%s" % (k, v) for k, v in sorted(m.items()) if k.startswith("shortcut")))


def c09_key(aid, events, outs):
    o = {x["key"]: x["val"] for x in outs}
    return "c09:%s:%s" % (aid, o.get("rule", "?"))


def c10_key(aid, events, outs):
    o = {x["key"]: x["val"] for x in outs}
    p = o.get("panic", "")
    cls = "other"
    for c in ("index out of range", "nil pointer", "slice bounds", "interface conversion", "makeslice", "divide by zero"):
        if c in p:
            cls = c
    return "c10:%s:%s" % (aid, cls if aid == "validate-does-not-panic" else "")


def c11_key(aid, events, outs):
    m = {e["name"]: e["value"] for e in events}
    role = {"mode_main": "main", "mode_impa": "import", "mode_impb": "import", "mode_dep": "import", "mode_v0": "version"}
    bad = set()
    for k, v in m.items():
        for rk, r in role.items():
            if k.endswith(rk) and v != "ok":
                bad.add("%s:%s" % (r, v))
    bad = sorted(bad)
    if any(k.endswith("evolution_bad") and v == "true" for k, v in m.items()):
        bad.append("evolution")
    return "c11:%s:%s" % (aid, "+".join(bad))


def c02_key(aid, events, outs):
    o = {x["key"]: x["val"] for x in outs}
    if aid.endswith("untagged-only-if-unambiguous"):
        return "c02:union-untagged-but-ambiguous:%s" % o.get("overlap", "?")
    m = {e["name"]: e["value"] for e in events}
    return "c02:%s:%s" % (aid, ",".join(v for k, v in sorted(m.items()) if "prim" in k or "casekind" in k))


C11_ASSUME = ["gosym: LoadPackage, ParsePackageContents, Validate, ValidateEvolution, python.Generate, updatePackageInfoFromArgs are scenario-driven stubs "
              "(verifRepl_*); generateImpl, validatePackage, parseAndFlattenNamespaces, parsePackageNamespaces, flattenNamespaces, outputJson, WriteFileIfNeeded are the real code",
              "each explored path is replayed natively on real package directories with no stubs (python + json outputs)",
              "scenario: main imports impa (imports dep) and impb, optional previous version v0; cpp/matlab outputs not configured"]

C04_ASSUME = ["model family: harness c04Model (enum with base, record with optional/array/fixed-vector fields, alias, generic record, protocol with plain/stream-union/map steps); "
              "primitive names, map key, enum base, vector length and both array dimension lengths symbolic",
              "encoding/json modelled structurally (json_model.go) calling the interpreted MarshalJSON methods; byte-for-byte validated by native replay on every sampled path"]

CC = "cc_kernels"
PY = "py_kernels"

C14_PART = (G, "gosym_part", dict(name="c14_type_plans", entry="internal/zzverif.C14Type", args_quick=(1, 1), args_thorough=(2, 1),
                                  extra_thorough=("-max-paths", "400000"),
                                  required_sites=("cpp-write-plan", "cpp-read-plan", "python-plan", "matlab-plan"),
                                  desc="one symbolic type (args: nesting depth, number of leaves ranging over all 18 primitives) through cpp/binary.typeRwFunction "
                                       "(write+read), python/binary.typeSerializer, matlab/binary.typeSerializer; each emitted expression parsed and mapped "
                                       "through the backend head table must equal Plan(T); vector lengths / array dimensions are symbolic 64-bit values",
                                  assumptions=["head tables in harness/go/internal/zzverif/zz_plan.go give the meaning of each runtime entry point",
                                               "type shapes limited to the generator in zz_gen.go (depth bound; union = 2 cases (+null); records 1-2 fields; one generic parameter)"]))

C02_UNION3_PART = (G, "gosym_part", dict(name="c02_union_tagging_3", entry="internal/zzverif.C02Union", args_quick=(3, 0, 1), args_thorough=(3, 1, 1), key_fn=None,
                                         required_sites=("cpp-python-agree", "python-untagged-only-if-unambiguous", "python-tagged-only-if-ambiguous"),
                                         desc="C++ and Python NDJSON generators take the same tag-or-not decision on 3-case unions over a reduced case vocabulary",
                                         assumptions=["JSON kind table transcribed from docs/reference/ndjson.md (harness specKinds)"]))

C09_ASSUME = ["models are built at the level dsl.Validate receives them (YAML text -> AST is outside)",
              "base model: harness baseModel (enum, record, alias, generic record + instantiation, protocol) in a main namespace and in an imported namespace",
              "one violation per run; names drawn from small finite domains decided by the solver"]

C10_ASSUME = ["arbitrary bytes / YAML text are outside this technique (yaml.v3, participle); models are arbitrary at the AST level dsl.Validate receives",
              "expression vocabulary: harness zz_c10.go (depth 1: arguments are leaves)"]

def only_thorough(spec):
    mod, fn, kw = spec
    return (mod, fn, dict(kw, tiers=("thorough",)))


C10_FORMS = {
    0: (G, "gosym_part", dict(name="c10_computed_form0", entry="internal/zzverif.C10Computed", args_quick=(1, 0), args_thorough=(1, 0), key_fn=c10_key,
                               required_sites=("validate-does-not-panic",), assumptions=C10_ASSUME,
                               desc="dsl.Validate on a record with every kind of field and one computed field whose expression is: leaf (literal / field access / nested member access); no panic, errors carry a file position")),
    1: (G, "gosym_part", dict(name="c10_computed_form1", entry="internal/zzverif.C10Computed", args_quick=(1, 1), args_thorough=(1, 1), key_fn=c10_key,
                               required_sites=("validate-does-not-panic",), assumptions=C10_ASSUME,
                               desc="dsl.Validate on a record with every kind of field and one computed field whose expression is: unary minus; no panic, errors carry a file position")),
    2: (G, "gosym_part", dict(name="c10_computed_form2", entry="internal/zzverif.C10Computed", args_quick=(1, 2), args_thorough=(1, 2), key_fn=c10_key,
                               required_sites=("validate-does-not-panic",), assumptions=C10_ASSUME,
                               desc="dsl.Validate on a record with every kind of field and one computed field whose expression is: binary arithmetic; no panic, errors carry a file position")),
    3: (G, "gosym_part", dict(name="c10_computed_form3", entry="internal/zzverif.C10Computed", args_quick=(1, 3), args_thorough=(1, 3), key_fn=c10_key,
                               required_sites=("validate-does-not-panic",), assumptions=C10_ASSUME,
                               desc="dsl.Validate on a record with every kind of field and one computed field whose expression is: subscript (0-2 arguments, optional labels) on vector/array/map/scalar targets; no panic, errors carry a file position")),
    4: (G, "gosym_part", dict(name="c10_computed_form4", entry="internal/zzverif.C10Computed", args_quick=(1, 4), args_thorough=(1, 4), key_fn=c10_key,
                               required_sites=("validate-does-not-panic",), assumptions=C10_ASSUME,
                               desc="dsl.Validate on a record with every kind of field and one computed field whose expression is: function call size/dimensionIndex/dimensionCount/unknown with 0-3 arguments; no panic, errors carry a file position")),
    5: (G, "gosym_part", dict(name="c10_computed_form5", entry="internal/zzverif.C10Computed", args_quick=(1, 5), args_thorough=(1, 5), key_fn=c10_key,
                               required_sites=("validate-does-not-panic",), assumptions=C10_ASSUME,
                               desc="dsl.Validate on a record with every kind of field and one computed field whose expression is: type conversion; no panic, errors carry a file position")),
    6: (G, "gosym_part", dict(name="c10_computed_form6", entry="internal/zzverif.C10Computed", args_quick=(1, 6), args_thorough=(1, 6), key_fn=c10_key,
                               required_sites=("validate-does-not-panic",), assumptions=C10_ASSUME,
                               desc="dsl.Validate on a record with every kind of field and one computed field whose expression is: switch over optional/union/scalar targets with 1-2 cases and every pattern kind; no panic, errors carry a file position")),
}

def c05_key(aid, events, outs):
    o = {x["key"]: x["val"] for x in outs}
    return "c05:%s:%s->%s" % (aid, o.get("from", "?"), o.get("to", "?"))


C05_ASSUME = ["the emitted guard text is read back through the four statement forms writeTypeConversion emits today (`src > limits<T>::max()`, `src < limits<T>::lowest()`, `src < 0`, throw)",
              "C++ integer comparison/`numeric_limits` semantics transcribed as 64-bit arithmetic in the harness; static_cast of an in-range value preserves it"]

def c06_key(aid, events, outs):
    o = {x["key"]: x["val"] for x in outs}
    if o.get("container") in ("1", "2") and aid in ("compatible-change-accepted", "partial-change-accepted"):
        return "c06:change-to-record-used-as-map-value-or-array-element-rejected"
    return "c06:%s:%s" % (aid, o.get("edit", "?"))


def c07_key(aid, events, outs):
    m = {e["name"]: e["value"] for e in events}
    if any(k.endswith("from-end") for k in m):
        return "c07:long-protocol-state-wraps"
    return "c07:%s" % aid


C07_ASSUME = ["the emitted method bodies are read back through the statement forms the emitter produces today (if (unlikely(state_ != c)), if (state_ == c), state_ = c;, "
              "...InvalidState(...), return ..., Impl calls); any other form fails the only-known-statement-forms obligation",
              "C++ semantics of the unsigned state_ member (width read from the emitted declaration) transcribed in the harness; Impl results are arbitrary booleans"]
PYG = "py_generated"

C04_EMBED_PART = (G, "gosym_part", dict(name="c04_embed", entry="internal/zzverif.C04Embed",
                                        required_sites=("cpp-embeds-schema-verbatim", "python-embeds-schema-verbatim", "matlab-embeds-schema-verbatim",
                                                        "cpp-reader-uses-writer-schema", "cpp-version-from-schema-ends-in-throw", "schema-has-no-delimiter-clash"),
                                        assumptions=["model family of C04 with concrete lengths; comments on/off; primitive names symbolic"],
                                        desc="the real C++, Python and MATLAB protocol emitters embed GetProtocolSchemaString(P) verbatim exactly once as the writer's schema, "
                                             "readers refer to the writer's schema, and the emitted C++ VersionFromSchema compares with schema_ and ends in a throw"))

C04_DETERMINES_PART = (G, "gosym_part", dict(name="c04_determines", entry="internal/zzverif.C04Determines", args_quick=(1,), args_thorough=(0,),
                               required_sites=("wire-edit-changes-schema", "same-model-same-schema"), assumptions=C04_ASSUME,
                               desc="one wire-affecting edit (symbolic new primitive / key / enum base / vector length / array dimension, or unnamed fixed-array dimension, field type of an imported record sharing its simple name with a local one, or one of 10 structural edits): "
                                    "schema text differs whenever the edit changes the wire plan, and is identical otherwise"))

PARTS = {
    "C08": [
        (G, "gosym_part", dict(name="c08_python_package", entry="internal/zzverif.C08PythonPackage",
                               required_sites=("generation-does-not-panic", "generation-succeeds", "imported-module-was-generated", "ndjson-written-iff-enabled"),
                               assumptions=["iocommon.CopyEmbeddedStaticFiles replaced by a no-op under gosym (embedded runtime files are not modelled); os.* on the virtual file system",
                                            "model: harness baseModel in a main namespace (with or without protocols) importing a types-only namespace"],
                               desc="the real python.Generate (types, protocols, binary, ndjson, __init__ writers) on a two-namespace model with symbolic generateNDJson and with/without "
                                    "protocols: completes without panic, and every module imported by a generated __init__.py from its own package was written")),
    ],
    "C07": [
        (PYG, "c07_py_protocols", dict()),
        (G, "gosym_part", dict(name="c07_cpp_writer", entry="internal/zzverif.C07CppWriter", args_quick=(3, 0), args_thorough=(5, 0), key_fn=c07_key,
                               required_sites=("raises-iff-out-of-order", "impl-called-iff-accepted", "post-state-is-next-step", "only-known-statement-forms"), assumptions=C07_ASSUME,
                               desc="cpp/protocols.writeDefinitions on every stream/non-stream pattern of n steps (symbolic flags); one-step simulation of each emitted writer method "
                                    "(Write, batch Write, End, Close) from an arbitrary reachable state against the declaration-order automaton")),
        (G, "gosym_part", dict(name="c07_cpp_reader", entry="internal/zzverif.C07CppReader", args_quick=(3, 0), args_thorough=(5, 0), key_fn=c07_key,
                               required_sites=("raises-iff-out-of-order", "impl-called-iff-accepted", "stream-end-observed", "batch-end-recorded-as-unobserved",
                                               "ended-stream-reports-end-without-reading", "only-known-statement-forms"), assumptions=C07_ASSUME,
                               desc="same for the reader (single and batch Read overloads, Close), including the 'batch read hit the end, completion not yet observed' states")),
        (G, "gosym_part", dict(name="c07_cpp_writer_long", entry="internal/zzverif.C07CppWriter", args_quick=(256, 2), args_thorough=(257, 2), key_fn=c07_key,
                               required_sites=("raises-iff-out-of-order",), assumptions=C07_ASSUME,
                               desc="writer of a 256-step protocol, last steps and Close (state member must not wrap)")),
        (G, "gosym_part", dict(name="c07_cpp_reader_long", entry="internal/zzverif.C07CppReader", args_quick=(128, 1), args_thorough=(129, 1), key_fn=c07_key, tiers=("thorough",),
                               required_sites=("raises-iff-out-of-order",), assumptions=C07_ASSUME,
                               desc="reader of a 128-step all-stream protocol, last steps and Close")),
    ],
    "C05": [
        (G, "gosym_part", dict(name="c05_int_conversion_read", entry="internal/zzverif.C05IntConversion", args_quick=(0,), args_thorough=(0,), key_fn=c05_key,
                               required_sites=("no-silent-wrap", "no-spurious-overflow-error", "guard-throws", "assigns-static-cast-to-target"), assumptions=C05_ASSUME,
                               desc="cpp/binary.writeTypeConversion for TypeChangeNumberToNumber on a symbolic (old, new) pair of the 9 integer primitives, reading an old stream: "
                                    "for every 64-bit value of the old type the emitted code throws iff the value is outside the new type's range")),
        (G, "gosym_part", dict(name="c05_int_conversion_write", entry="internal/zzverif.C05IntConversion", args_quick=(1,), args_thorough=(1,), key_fn=c05_key,
                               required_sites=("no-silent-wrap", "no-spurious-overflow-error"), assumptions=C05_ASSUME,
                               desc="same for the write direction (writing a value of the current type to a previous version)")),
    ],
    "C19": [
        (PYG, "c19_py_computed", dict()),
        (G, "gosym_part", dict(name="c19_static_types", entry="internal/zzverif.C19Types",
                               required_sites=("accept-reject-independent-of-operand-order", "type-independent-of-operand-order", "integer-power-is-float64", "result-kind-is-widest-operand-kind"),
                               assumptions=["documented rule used: `**` on integers yields float64 (docs/*/language.md); otherwise the result kind is the widest operand kind "
                                            "(integer < floating point < complex) and, for same-kind operands, at least as wide as both"],
                               desc="real dsl.Validate (resolveComputedFields, GetCommonType, insertConversion) on `a op b` and `b op a` for symbolic numeric primitive types of a, b "
                                    "(13 x 13) and all 5 operators: accept/reject and static type do not depend on operand order; kind/width of the result")),
    ],
    "C10": [C10_FORMS[f] for f in (0, 1, 3, 4, 5)] + [only_thorough(C10_FORMS[f]) for f in (2, 6)],
    "C09": [
        (G, "gosym_part", dict(name="c09_base", entry="internal/zzverif.C09Base", required_sites=("base-accepted",), assumptions=C09_ASSUME,
                               desc="the unmodified two-namespace base model validates (guards against an over-rejecting harness)")),
        (G, "gosym_part", dict(name="c09_type_rules", entry="internal/zzverif.C09TypeRule", key_fn=c09_key,
                               required_sites=("violation-rejected", "error-names-offending-file", "stream-step-accepted", "no-panic"), assumptions=C09_ASSUME,
                               desc="16 type-level rule violations (unknown type, arity x4, ill-formed unions x5, stream misplaced, non-primitive map key, array dimensions x3, "
                                    "protocol reference) x 10 positions (field, alias, step, vector/optional/union/map/generic-argument/stream item, alias chain) x {main, imported namespace}: "
                                    "the real dsl.Validate returns an error naming the offending file")),
        (G, "gosym_part", dict(name="c09_def_rules", entry="internal/zzverif.C09DefRule", key_fn=c09_key,
                               required_sites=("violation-rejected", "error-names-offending-file", "no-panic"), assumptions=C09_ASSUME,
                               desc="21 definition-level rule violations (duplicate/badly-cased/reserved names, enum symbols/values/base/range, generics on enum/protocol, unused type "
                                    "parameter, reference cycles, duplicate computed field) x {main, imported namespace}")),
    ],
    "C13": [
        (G, "gosym_part", dict(name="c13_order_and_files", entry="internal/zzverif.C13Order", args_quick=(1,), args_thorough=(0,),
                               required_sites=("reordered-accepted", "same-schema", "dependencies-first", "same-field-plan", "same-python-serializer"),
                               assumptions=["model family: harness c13Defs (record, generic record, aliases instantiating it with vector/optional arguments, enum with symbolic base, "
                                            "record with enum/optional-alias/map fields, protocol); 8 definition orders x 3 file layouts",
                                            "YAML text -> AST (yaml.v3, participle) is outside: models are built at the level dsl.Validate receives them"],
                               desc="real dsl.Validate + schema writer + python serializer emitter on the same symbolic definitions listed in a different order / spread over files: "
                                    "both accepted, identical schema text, identical field plans and serializer expressions, and every definition listed after its dependencies")),
    ],
    "C01": [
        (CC, "c01_cc_kernels", dict()),
        (CC, "c01_cc_serializers", dict(tiers=("thorough",))),
        (PY, "c01_py_kernels", dict()),
        (PYG, "c01_py_generated", dict()),
        C14_PART,
    ],
    "C03": [
        (PY, "c03_py_capacity", dict()),
        (PY, "c02_py_converters", dict()),   # NDJSON converters + NDJsonProtocolReader line look-ahead (binary <-> NDJSON copies)
        C14_PART,
        C02_UNION3_PART,
    ],
    "C16": [
        (CC, "c16_cc_truncation", dict()),
        (PY, "c16_py_truncation", dict()),
    ],
    "C17": [
        (CC, "c17_cc_blocks", dict()),
        (CC, "c17_cc_reuse", dict()),
        (PY, "c17_py_batching", dict()),
    ],
    "C15": [
        C04_EMBED_PART,
        C04_DETERMINES_PART,   # a reader can only refuse a foreign stream if wire-different models have different schema texts
        (CC, "c15_cc_header", dict()),
        (PY, "c15_py_header", dict()),
    ],
    "C04": [
        C04_EMBED_PART,
        (G, "gosym_part", dict(name="c04_neutral", entry="internal/zzverif.C04Neutral", args_quick=(1,), args_thorough=(0,),
                               required_sites=("neutral-edit-keeps-schema", "no-comment-in-schema", "no-computed-field-in-schema", "no-position-in-schema"),
                               assumptions=C04_ASSUME,
                               desc="real dsl.Validate + GetProtocolSchemaString on a symbolic model, twice: plain vs decorated with comments on every commentable node, "
                                    "a computed field, unrelated definitions/protocol, reversed definition order, other file and symbolic line offset: schema text identical")),
        C04_DETERMINES_PART,
    ],
    "C11": [
        (G, "gosym_part", dict(name="c11_all_or_nothing", entry="internal/cmd.VerifC11", args_quick=(1,), args_thorough=(1,), key_fn=c11_key,
                               extra_quick=("-replay-sample", "200"), extra_thorough=("-replay-sample", "400"),
                               required_sites=("invalid-package-fails", "invalid-package-writes-nothing", "valid-package-succeeds", "failure-writes-nothing"),
                               assumptions=C11_ASSUME,
                               desc="generateImpl on a package graph where each package is ok / has a parse error / has a validation error (symbolic), evolution may fail, "
                                    "outputs may be disabled, output dirs empty or pre-populated: any error => non-nil error and no write under the output dirs")),
    ],
    "C02": [
        (PY, "c02_py_converters", dict()),
        (G, "gosym_part", dict(name="c02_union_tagging", entry="internal/zzverif.C02Union", args_quick=(2, 0, 0), args_thorough=(3, 1, 0),
                               extra_thorough=("-max-paths", "400000"), key_fn=c02_key,
                               required_sites=("cpp-python-agree", "python-untagged-only-if-unambiguous", "python-tagged-only-if-ambiguous",
                                               "cpp-untagged-only-if-unambiguous", "cpp-tagged-only-if-ambiguous"),
                               desc="ndjsoncommon.GetJsonDataType + python/ndjson.typeConverter + cpp/ndjson.writeUnionConverters on a symbolic union "
                                    "(args: number of cases, leading null): a union is written untagged iff the documented JSON kinds of its cases are pairwise disjoint, and both generators agree",
                               assumptions=["JSON kind table transcribed from docs/reference/ndjson.md (harness specKinds)",
                                            "union cases range over: all primitives, enum, flags, record, alias of 4 primitives, vector, fixed vector, arrays (dynamic / rank-only / fixed / rank 0), maps with string or int key"])),
        (G, "gosym_part", dict(name="c02_union_tagging_3", entry="internal/zzverif.C02Union", args_quick=(3, 0, 1), args_thorough=(3, 1, 1), key_fn=c02_key,
                               required_sites=("cpp-python-agree", "python-untagged-only-if-unambiguous", "python-tagged-only-if-ambiguous"),
                               desc="same obligations on 3-case unions over a reduced case vocabulary (4 primitives, record, vector, enum)",
                               assumptions=["JSON kind table transcribed from docs/reference/ndjson.md (harness specKinds)"])),
    ],
    "C18": [
        (G, "gosym_part", dict(name="c18_graph", entry="pkg/packaging.VerifC18Graph", args_quick=(3, 2), args_thorough=(3, 3),
                               extra_quick=("-max-paths", "100000"), extra_thorough=("-max-paths", "2000000"),
                               required_sites=("terminates-without-panic", "cycle-or-conflict-rejected", "acyclic-accepted", "each-reachable-once"),
                               assumptions=C18_ASSUME,
                               desc="LoadPackage on every import multigraph over n packages (args: n, max out-degree) with symbolic namespaces: "
                                    "cycle or namespace conflict among reachable packages => error; otherwise success, each reachable package once, every import resolved")),
        (G, "gosym_part", dict(name="c18_dag", entry="pkg/packaging.VerifC18Dag", args_quick=(4,), args_thorough=(5,),
                               required_sites=("cycle-or-conflict-rejected", "acyclic-accepted", "shared-package-loaded-once"), assumptions=C18_ASSUME,
                               desc="DAGs over n packages with both list orders, one optional arbitrary extra edge and a symbolic namespace on the last package")),
        (G, "gosym_part", dict(name="c18_depth", entry="pkg/packaging.VerifC18Depth", args_quick=(12,), args_thorough=(13,),
                               required_sites=("too-deep-rejected",), assumptions=C18_ASSUME, key_fn=c18_key,
                               desc="chain of k packages (real MaxImportRecursionDepth) with an optional shortcut import to a symbolic position listed first or last")),
        (G, "gosym_part", dict(name="c18_depth_ok", entry="pkg/packaging.VerifC18Depth", args_quick=(10,), args_thorough=(9,),
                               required_sites=("within-limit-accepted",), assumptions=C18_ASSUME, key_fn=c18_key,
                               desc="chains within the limit are accepted")),
    ],
    "C12": [
        (G, "gosym_part", dict(name="c12_error_order", entry="internal/zzverif.C12ErrorOrder", args_quick=(2,), args_thorough=(3,),
                               required_sites=("errors-order-independent",),
                               desc="ErrorSink.AsError on n symbolic diagnostics (file, optional line/column >= 1, message) recorded in two different orders: "
                                    "sorted records agree field by field (strict weak order + ties indistinguishable)",
                               assumptions=["line/column numbers are >= 1 when present (yaml.v3 positions)", "sort.Slice modelled by insertion sort: any correct sort yields the same sequence iff ties are indistinguishable"])),
        (G, "gosym_part", dict(name="c12_warning_order", entry="internal/zzverif.C12WarningOrder", args_quick=(2,), args_thorough=(3,),
                               required_sites=("warnings-order-independent",),
                               desc="WarningSink.AsStrings, same obligation", assumptions=["line/column numbers are >= 1 when present"])),
        (G, "gosym_part", dict(name="c12_write_if_needed", entry="internal/zzverif.C12WriteIfNeeded",
                               required_sites=("untouched-iff-identical", "created-when-missing", "final-content"),
                               desc="iocommon.WriteFileIfNeeded on symbolic old/new contents (SMT strings): a write happens iff contents differ or the file is missing",
                               assumptions=["os.ReadFile/WriteFile modelled by the virtual file system in env_intrinsics.go"])),
    ],
    "C06": [
        (G, "gosym_part", dict(name="c06_env_edit_classes", entry="internal/zzverif.C06Env", key_fn=c06_key,
                               required_sites=("verdict-without-panic", "breaking-change-rejected", "partial-change-accepted", "partial-change-warned",
                                               "compatible-change-accepted", "compatible-change-silent"),
                               assumptions=["edit classes and their verdict class transcribed from docs/cpp/evolution.md (harness zz_c06env.go: 9 compatible, 6 partially compatible, 12 breaking)",
                                            "base model: record, two generic records, enum with base, protocol with plain/generic/stream/enum/optional/union/fixed-vector/map steps; "
                                            "optionally the record also occurs as map value or array element"],
                               desc="real dsl.Validate on old and new = edit(old), then real ValidateEvolution: verdict class (silent / warning / error) equals the documented class for "
                                    "27 edit kinds, alone and combined with a compatible change of the record they refer to; number pair and vector lengths symbolic")),
        (G, "gosym_part", dict(name="c06_reflexive", entry="internal/zzverif.C06Reflexive", args_quick=(1, 1), args_thorough=(2, 1),
                               required_sites=("reflexive", "total"), assumptions=C06_ASSUME,
                               desc="compareTypes(clone(T), T) reports no change and does not panic, T symbolic (depth, full-primitive leaves)")),
        (G, "gosym_part", dict(name="c06_pair", entry="internal/zzverif.C06Pair", args_quick=(0, 2), args_thorough=(0, 2),
                               required_sites=("total", "silence-implies-same-plan", "silence-symmetric", "error-symmetric", "partial-has-warning"),
                               assumptions=C06_ASSUME,
                               desc="compareTypes on two independent symbolic types: total in both directions; nil => identical wire plan; "
                                    "nil-ness and error-ness symmetric; accepted-but-changed => non-empty warning")),
    ],
    "C14": [
        (G, "gosym_part", dict(name="c14_type_plans", entry="internal/zzverif.C14Type", args_quick=(1, 1), args_thorough=(2, 1),
                               extra_thorough=("-max-paths", "400000"),
                               required_sites=("cpp-write-plan", "cpp-read-plan", "python-plan", "matlab-plan"),
                               desc="one symbolic type (args: nesting depth, number of leaves ranging over all 18 primitives) through cpp/binary.typeRwFunction "
                                    "(write+read), python/binary.typeSerializer, matlab/binary.typeSerializer; each emitted expression parsed and mapped "
                                    "through the backend head table must equal Plan(T); vector lengths / array dimensions are symbolic 64-bit values",
                               assumptions=["head tables in harness/go/internal/zzverif/zz_plan.go give the meaning of each runtime entry point",
                                            "type shapes limited to the generator in zz_gen.go (depth bound; union = 2 cases (+null); records 1-2 fields; one generic parameter)"])),
        C02_UNION3_PART,   # Python NDJSON is one of the backends: same tagged/untagged decision as C++ and as the documented JSON kinds
    ],
}

HOOK_COMMITS = []
NOTES = ("Every claim is bounded: 'holds' means unsat within the stated bound. Exit 3 + INCONCLUSIVE lines mean the solver or the "
         "encoder could not decide; that is never reported as success. See DESIGN.md.")
NOT_APPLICABLE = {
    "C20": "watch mode is about interleavings of timer goroutines, fsnotify events and the process-global cwd; the gosym executor is sequential (no goroutines/channels/select/timers), "
           "so the real dedupLoop/generateInWatchMode cannot be executed symbolically and an event-interleaving abstraction would decide a model, not the code (DESIGN I.6)",
}

CLAIMS = {
    "C08": dict(text="Bounded symbolic execution (gosym) of the complete real Python generator for a two-namespace model under every generateNDJson / has-protocols combination: "
                     "no panic, and the generated package is self-consistent (every own-package module an __init__.py imports was written). Panic-freedom of the type-mapping layers "
                     "on all type shapes is additionally exercised by the C14 part.",
                note="Only part of C08 is decidable by this technique here: identifier collisions after case conversion go through regexp2 look-behind patterns (no SMT counterpart), "
                     "and 'generated C++ compiles / Python imports' is not a symbolic question (C++ cannot be compiled in this sandbox); the C++ and MATLAB generators' option handling "
                     "is not covered yet. See DESIGN section 7."),
    "C07": dict(engine="pysym+gosym",
                text="(pysym) the generated Python protocols.py for every stream/non-stream pattern of length 1..3 (4 thorough), run on symbolic proxies: one-step inductive simulation "
                     "from an arbitrary _state against the declaration-order automaton for an arbitrary API call (write/read/close/__exit__, iterable obtained/consumed/abandoned). "
                     "(gosym) the C++ protocol emitter's state checks for every pattern of 3 (5) steps read back as guarded commands and simulated the same way, plus 256/128-step "
                     "protocols for the width of the state member. One genuine defect (8-bit state) was repaired (fix: 3cb2501).",
                note="Generated C++ is checked at emitter level through a recogniser of today's statement forms, not compiled; MATLAB *Base.m and CopyTo are outside; call histories of "
                     "any length are covered by the inductive step, protocol shapes only up to the stated lengths."),
    "C05": dict(text="Bounded symbolic execution (gosym) of the C++ conversion emitter for accepted integer->integer changes, in both directions: for a symbolic type pair and "
                     "a symbolic 64-bit value of the source type, the emitted guard throws exactly when the value does not fit the target type (no silent wrap, no spurious error).",
                note="Emitter level only: generated C++ cannot be compiled or executed here. Float/complex/string conversions, record field add/remove/reorder plans, union/optional "
                     "changes, protocol-step switches and version chains are not covered yet (DESIGN C05)."),
    "C19": dict(engine="gosym+pysym", text="(pysym) the generated Python computed-field methods of a model with +,-,*,/,**, unary minus, nested and parenthesised expressions and size(), evaluated on "
                     "symbolic integer fields over the full range of their types against the exact (C++-semantics) value whenever it is in range of the static type. Two genuine defects were "
                     "repaired (fix: 8cd10c6, 0b84462); integer floor-vs-truncate division is a recorded known finding. Bounded symbolic execution (gosym) of computed-field type inference on `a op b` vs `b op a` for every ordered pair of the 13 numeric primitive types "
                     "(symbolic, solver-decided) and every operator: verdict and static type are symmetric, `**` on integers is float64, result kind = widest operand kind.",
                note="Static typing only so far; agreement of the three expression emitters and of host-language operator semantics (e.g. Python // vs C++ /) is a separate part "
                     "(see DESIGN: F6) and nested expressions / switch typing are not covered."),
    "C10": dict(text="Bounded symbolic execution (gosym) of the whole real validation pipeline on a record with every kind of field plus one computed field whose expression ranges "
                     "over every expression form (literals, member access, unary, binary, subscript with 0-2 possibly labelled arguments, the three built-in functions with 0-3 "
                     "arguments, conversions, switch with every pattern kind) applied to every kind of target: dsl.Validate never panics and every error is located. Two panics found "
                     "this way were repaired (fix: commit 842eeab).",
                note="Claimed from the AST level down: arbitrary bytes/YAML text through yaml.v3 and participle cannot be encoded by this technique (DESIGN section 7), nor can "
                     "process-level memory/time. Expression depth 1 (arguments are leaves)."),
    "C09": dict(text="Bounded symbolic execution (gosym) of the whole real validation pipeline on base-model + one rule violation: 16 type-level rules x 10 positions and 21 "
                     "definition-level rules, each in the main and in an imported namespace: validation fails and the error text names the offending file. Two genuine defects found "
                     "this way were repaired (fix: commits 0de7622, b7cf9f1). Package-level propagation (imports, previous versions) is the C11 part.",
                note="AST level (after yaml.v3/participle); computed-field typing errors are covered by C19/C10 parts when registered; the rule list is the harness' transcription of docs/*/language.md."),
    "C03": dict(engine="gosym+pysym(+llsym via C01)",
                text="Portability is decomposed: (1) every backend's emitted serializer denotes the same wire plan (C14 part, gosym); (2) the C++ and Python NDJSON generators take "
                     "the same tag-or-not decision for unions (gosym); (3) the Python writer's unchecked byte stores are always inside the buffer from any valid state (pysym, one "
                     "obligation per write_byte_no_check call site); (4) C++ and Python kernels each produce exactly the reference codec's bytes (C01's llsym and pysym parts), hence "
                     "byte-identical streams.",
                note="No generated C++ program can be compiled or run here, so cross-language interchange is shown by composition of plan agreement and kernel conformance, not "
                     "by executing both languages against each other; MATLAB runtime (.m files) is outside."),
    "C13": dict(text="Bounded symbolic execution (gosym) of the real validation pipeline (incl. topological sort, generic instantiation) on one symbolic model listed in 8 "
                     "definition orders x 3 file layouts: accept/reject, schema text, per-field wire plan and emitted Python serializer expressions are identical, and definitions "
                     "come out dependencies-first.",
                note="Covers the reorder / re-split clause only. Shorthand-vs-expanded syntax and primitive aliases go through yaml.v3/participle text parsing, which this "
                     "technique cannot encode (DESIGN section 7); that clause is not claimed."),
    "C01": dict(engine="llsym+pysym+gosym",
                text="Bounded symbolic execution of the real runtime kernels: (llsym) clang-14 IR of coded_stream.h executed symbolically from an arbitrary valid stream state "
                     "with symbolic values: emitted bytes equal the reference wire codec (docs/reference/binary.md), reading them back yields the value and consumes exactly those bytes, "
                     "class invariant preserved, no out-of-object access; buffer sizes 8/12 (quick) up to 32 (thorough). (pysym) the unmodified _binary.py run on symbolic proxies: "
                     "every stream primitive and every serializer class (ints, size, bool, floats, complex, string, date, optional, union, vector, fixed vector, map, stream, enum, record) "
                     "writes the reference bytes from an arbitrary buffer offset and reads them back. (gosym) C14 part: which kernel each backend uses for each type.",
                note="Generated C++ cannot be compiled in this sandbox (no xtensor/date/nlohmann/HDF5), so C++ is covered at kernel level (llsym) + emitter level (C14 gosym) only; "
                     "production buffer size 65536 is covered only through the size-independent inductive step; istream::read/ostream::write follow the libstdc++ contract."),
    "C16": dict(engine="llsym+pysym",
                text="Bounded symbolic execution (llsym) of every CodedInputStream read primitive on the first c bytes of a valid encoding with c symbolic and the reader at an arbitrary "
                     "buffer position (including exactly at a refill boundary): the outcome is EndOfStreamException/runtime_error, never a normal return, never a load outside the filled window. "
                     "Four genuine defects found this way were repaired (fix: commit a567eab).",
                note="Buffer sizes 8-32; values <= 10 bytes; istream::read contract stub (short count only at end of input); ReadBlock/ReadMap under truncation not covered by llsym."),
    "C17": dict(engine="llsym+pysym",
                text="Bounded symbolic execution (llsym, -O0 IR behind a stub yardl.h) of ReadBlocksIntoVector/ReadBlock as a one-call inductive step against a reference block parser: "
                     "arbitrary block partition (<= 4 items), destination capacity 1..4 and prior size, arbitrary reader state: delivered batch = next min(capacity, remaining) items, progress, end-of-stream flag.",
                note="std::vector modelled through an intercepted resize; ReadMap (F5) not covered; single-byte block lengths."),
    "C15": dict(engine="llsym+pysym",
                text="Bounded symbolic execution (llsym) of ReadHeader with symbolic magic/version bytes and schema bytes: returns normally only for magic 'yardl' and version 1, "
                     "returns the embedded schema verbatim, otherwise throws before consuming bytes beyond the header.",
                note="std::string stubbed; the schema comparison itself lives in generated code (emitter-level check pending)."),
    "C04": dict(text="Bounded symbolic execution (gosym) of the real validation pipeline and schema writer (Validate, GetProtocolSchema, removeComments, json.go) on a "
                     "symbolic model family: wire-neutral decorations leave the schema text unchanged; every single wire-affecting edit changes it (lengths and dimensions as 64-bit symbolic values).",
                note="One model family (stated in assumptions); the verbatim embedding of the schema string by each backend's emitter and the header writers are checked elsewhere "
                     "(C15/C01 parts) or not yet; encoding/json is a model validated by native replay."),
    "C11": dict(text="Bounded symbolic execution (gosym) of generateImpl/validatePackage/parse*Namespaces/outputJson/WriteFileIfNeeded over all failure placements "
                     "(main, each import, nested import, previous version, evolution) x output configurations: an error anywhere gives a non-nil error and no write event; "
                     "every path is replayed natively on real package directories.",
                note="Leaf calls are stubs under gosym (listed in assumptions) and real in the native replay; partial output when a generator itself fails is out of scope "
                     "(as in the property). One genuine defect (error in an imported package ignored) is triaged in known_findings.json."),
    "C02": dict(text="Bounded symbolic execution (gosym) of the union tag-or-not decision of both NDJSON generators on symbolic unions (2 cases quick, 3 + null thorough): "
                     "untagged iff the documented JSON kinds are pairwise disjoint; C++ and Python agree. Two genuine defects found this way were repaired (fix: commits).",
                note="Decides the generator-side mapping only; the _ndjson.py converters themselves are checked by the pysym part when registered; the C++ NDJSON runtime "
                     "(nlohmann-json absent) and JSON text formatting are outside. Kind table trusted."),
    "C18": dict(text="Bounded symbolic execution (gosym) of LoadPackage/collectPackages/GetAllReferencedPackages over all import multigraphs on 3 packages "
                     "(out-degree <= 2, symbolic namespaces), all DAGs (+1 arbitrary edge) on 4 packages in both list orders, and chains at the real depth limit "
                     "with a shortcut import: cycles, namespace conflicts and over-deep chains are errors; otherwise every reachable package is loaded once and every import resolved.",
                note="The two I/O seams (readPackageInfo, fetchAndCachePackages) are replaced by an in-memory package store under gosym; each explored path is "
                     "replayed natively on real _package.yml files with the unmodified loader. git/https imports and the cache are out of scope. One genuine defect is recorded in known_findings.json."),
    "C12": dict(text="Bounded symbolic execution (gosym) of the diagnostic sinks' real comparators and of WriteFileIfNeeded: rendered diagnostics are "
                     "independent of recording order for all symbolic records (2 quick / 3 thorough), and regenerating identical content performs no write.",
                note="Covers the diagnostic-order and idempotent-write mechanisms only; map-iteration-order independence of generators is not yet covered. "
                     "Assumes positions >= 1; sort.Slice replaced by a stable reference sort; virtual file system for os calls."),
    "C14": dict(text="Bounded symbolic execution (gosym) of the four binary type->serializer recursions on one symbolic type: every emitted "
                     "expression denotes Plan(T) for all shapes within the depth bound and all 64-bit lengths/dimensions; violations are replayed natively.",
                note="Trusts the head tables (meaning of runtime entry points), the gosym intrinsic models listed in evidence.stubs, and z3. "
                     "Python NDJSON converter structure and HDF5 are outside this check."),
    "C06": dict(text="Bounded symbolic execution (gosym) of compareTypes and the warning/error classifiers on symbolic type pairs: totality, "
                     "reflexivity on equal-shaped copies, silence implies equal wire plan, symmetry of silence/error, warnings for partial changes.",
                note="Type-level only (no named record/enum definitions, no protocol-level step changes yet); depth-bounded shapes; z3 and intrinsic models trusted."),
}
