# property id -> [(module under parts/, function, kwargs)]
G = "gosym_part"

C06_ASSUME = ["type shapes limited to harness generator anyStructural (primitives, aliases of primitives, optional/union/vector/array/map/stream over them)",
              "evolution context empty (no named record/enum definitions) in the type-pair harness"]

C18_ASSUME = ["readPackageInfo / fetchAndCachePackages replaced under gosym by an in-memory package store (verifRepl_ functions); "
              "natively the same graph is materialised as _package.yml files and the unmodified loader runs",
              "local directory imports only (no git/https fetching)"]


C18_NS_SITES = ("import-is-a-namespace-reference", "reference-not-duplicated", "reference-is-an-import", "one-namespace-object-per-package",
                "flattened-each-namespace-once", "flattened-imports-first", "child-references-each-once", "child-references-imports-first")
C18_TERM_DESC = (".  LoadPackage runs under verifBounded: exhausting the call-depth or instruction bound on these finite graphs violates terminates-without-panic "
                 "(natively: the case is first run in a child process under a wall-clock limit)")
C18_NS_PART = (G, "gosym_part", dict(name="c18_namespaces", entry="internal/cmd.VerifC18Namespaces", args_quick=(4,), args_thorough=(5,),
                               extra_quick=("-max-paths", "100000"), extra_thorough=("-max-paths", "2000000"),
                               required_sites=("terminates-without-panic", "acyclic-accepted") + C18_NS_SITES,
                               assumptions=C18_ASSUME + ["dsl.ParsePackageContents replaced under gosym by an empty namespace carrying the package's name (natively: real, on directories without model files)"],
                               desc="every acyclic import graph over n packages (every import-list order, one optional repeated import), real LoadPackage then the real parsePackageNamespaces / "
                                    "flattenNamespaces / Namespace.GetAllChildReferences: the namespace graph mirrors the import graph (every import of P is a reference of ns(P), no spurious or "
                                    "lost references, one namespace object per package); flattened and child-reference lists contain each namespace exactly once with imports before importers"))
C18_GRAPH_PART = (G, "gosym_part", dict(name="c18_graph", entry="pkg/packaging.VerifC18Graph", args_quick=(3, 2), args_thorough=(3, 3),
                               extra_quick=("-max-paths", "100000"), extra_thorough=("-max-paths", "2000000"),
                               required_sites=("terminates-without-panic", "cycle-or-conflict-rejected", "acyclic-accepted", "each-reachable-once", "shared-package-loaded-once"),
                               assumptions=C18_ASSUME,
                               desc="LoadPackage on every import multigraph over n packages (args: n, max out-degree; every list order, repeated and self imports) with symbolic namespaces: "
                                    "terminates; cycle or namespace conflict among reachable packages => error; otherwise success, each reachable package once, every import resolved" + C18_TERM_DESC))
# C10 (totality of the package loader): the same harness with out-degree <= 1 in the quick tier (every self-import,
# 2- and 3-cycle and chain over 3 packages), the full multigraph part in the thorough tier
C10_GRAPH_PART = (G, "gosym_part", dict(C18_GRAPH_PART[2], name="c10_loader_graph", args_quick=(3, 1), args_thorough=(3, 2),
                                        required_sites=("terminates-without-panic", "cycle-or-conflict-rejected", "acyclic-accepted")))
C18_DAG_PART = (G, "gosym_part", dict(name="c18_dag", entry="pkg/packaging.VerifC18Dag", args_quick=(4, 1), args_thorough=(4, 1),
                               extra_quick=("-max-paths", "200000"), extra_thorough=("-max-paths", "200000"),
                               required_sites=("terminates-without-panic", "cycle-or-conflict-rejected", "acyclic-accepted", "shared-package-loaded-once"), assumptions=C18_ASSUME,
                               desc="DAGs over n packages in every import-list order, one optional arbitrary extra edge listed first or last and a symbolic namespace on the last package" + C18_TERM_DESC))
C18_DAG5_PART = (G, "gosym_part", dict(name="c18_dag5", entry="pkg/packaging.VerifC18Dag", args_quick=(5, 0), args_thorough=(5, 0), tiers=("thorough",),
                               extra_quick=("-max-paths", "4000000"), extra_thorough=("-max-paths", "4000000"),
                               required_sites=("terminates-without-panic", "cycle-or-conflict-rejected", "acyclic-accepted", "shared-package-loaded-once"), assumptions=C18_ASSUME,
                               desc="DAGs over 5 packages with ascending / descending import lists, one optional arbitrary extra edge listed first or last and a symbolic namespace on the last package" + C18_TERM_DESC))
# C18 / C11 (a namespace claimed by two different directories): the package directories carry NAMES related in the ways a comparison of two locations can go wrong
C18_DIRS_PART = (G, "gosym_part", dict(name="c18_conflict_dirs", entry="pkg/packaging.VerifC18ConflictDirs", args_quick=(4, 1, 0), args_thorough=(4, 2, 1),
                               extra_quick=("-max-paths", "300000"), extra_thorough=("-max-paths", "2000000"),
                               required_sites=("loader-does-not-panic", "namespace-claimed-by-two-directories-rejected", "distinct-namespaces-in-distinct-directories-accepted",
                                               "package-read-from-its-own-directory", "each-reachable-package-listed-once"),
                               assumptions=C18_ASSUME + ["directory pairs: units/Units (letter case only), units/units2 (prefix), units/lib_units (suffix), va/units / vb/units (same last element), "
                                                         "Vendor/units / vendor/units (parents differ in case only), units/other; the native replays need a case-sensitive file system",
                                                         "import DAGs (node i imports a subset of the later nodes, every list order); cycles are decided by c18_graph / c18_dag"],
                               desc="import DAGs over 4 packages in every list order where two packages (any ordered pair of imported packages; thorough: also the root) live in a PAIR OF DIRECTORIES "
                                    "whose names are related (case-only, prefix, suffix, same leaf, case-only parent, unrelated) and the namespace of one (thorough: both) of them is symbolic: real LoadPackage "
                                    "fails iff two reachable packages declare the same namespace; otherwise every import is resolved to the package read from ITS OWN directory and every reachable package "
                                    "is listed exactly once (no directory silently stands in for another).  Under C11: such a package must not generate (generateImpl stops at the LoadPackage error: c11_all_or_nothing)"))
# C12 (diagnostics of a package that fails to LOAD): the loader's errors bypass the sorting error sink
C12_LOAD_PART = (G, "gosym_part", dict(name="c12_load_diagnostics_map_order", entry="pkg/packaging.VerifC12LoadDiagnostics", args_quick=(4,), args_thorough=(4,),
                               required_sites=("failing-load-is-rejected", "every-map-range-covered"),
                               assumptions=C18_ASSUME + ["map iteration order is a path decision (verifSetMapOrder(-2-i)): one map range of the loader at a time iterates in another order; natively Go "
                                                         "randomises the order, so a reported dependence is confirmed by repeating the load up to 64 times",
                                                         "the unchanged loader never ranges over a map: the site load-diagnostics-independent-of-map-iteration-order is then not reached (not a required site)"],
                               desc="real LoadPackage on 8 failing import graphs (cycles through 2 / 3 / 4 namespaces, entered directly or from outside, with already collected bystanders; a namespace "
                                    "claimed by sibling / cousin directories; a chain beyond the nesting limit; an import directory that does not exist): the error text is identical when any one map "
                                    "range executed by the loader iterates in a different order"))
# C11 / C09 (every language rule is enforced in imports and previous versions before anything is written): the REAL pipeline on a package tree
C11_RULES_PART = (G, "gosym_part", dict(name="c11_rule_placement", entry="internal/cmd.VerifC11RulePlacement", oracle=True, args_quick=(0,), args_thorough=(1,),
                               required_sites=("no-panic", "rule-violation-in-any-package-fails", "rule-violation-in-any-package-writes-nothing", "error-names-a-file-of-the-offending-package",
                                               "valid-package-tree-succeeds", "valid-package-tree-writes-output"),
                               assumptions=["gosym: the only seam is updatePackageInfoFromArgs (koanf); generateImpl, LoadPackage, readPackageInfo, fetchAndCachePackages, ParsePackageContents / "
                                            "ParseYamlInDir and the YAML layer (manifests and models are yaml.Node documents on the virtual file system; type strings and expressions through the native "
                                            "participle oracle), every pass of dsl.Validate, ValidateEvolution, outputJson, WriteFileIfNeeded are real; natively the marshalled documents are real files",
                                            "the native replay runs its cases in one process and resets the package-level koanf instance before each (every case is a one-shot run)",
                                            "23 rule violations, at least one per pass of dsl.Validate that reports errors; JSON output only; output directory populated (thorough: or empty)"],
                               desc="package tree main -> dep with previous versions none | v1 (-> dep) | v2 (-> depold), all holding the same valid model (2 records, enum, union alias, protocol): one of 23 "
                                    "rule violations (names of types / fields / computed fields / steps / enum symbols / type parameters badly cased or duplicated, reserved name, unknown types, stream "
                                    "outside a step, non-primitive map key, unused type parameter, generic protocol, reference cycle, union rules, duplicate dimension name, ill-typed computed field) "
                                    "in one symbolic package (the package, its import, a previous version, a previous version's own import): the real generateImpl fails, names a file of the "
                                    "offending package and writes nothing below the output directory; the unmodified tree generates"))


def c18_key(aid, events, outs):
    m = {e["name"]: e["value"] for e in events}
    if aid == "too-deep-rejected" and m.get("shortcut") == "1" and m.get("shortcut-first") == "1":
        return "c18:too-deep-chain-accepted-when-shortcut-import-listed-first"
    return "c18:%s:%s" % (aid, ",".join("%s=%s" % (k, v) for k, v in sorted(m.items()) if k.startswith("shortcut")))


def c09_key(aid, events, outs):
    o = {x["key"]: x["val"] for x in outs}
    if o.get("case") == "stream-in-type-argument-of-step" and aid == "violation-rejected":
        return "c09:stream-in-type-argument-of-step-accepted"
    return "c09:%s:%s" % (aid, o.get("rule", "?"))


def c10_key(aid, events, outs):
    o = {x["key"]: x["val"] for x in outs}
    p = o.get("panic", "")
    cls = "other"
    for c in ("index out of range", "nil pointer", "slice bounds", "interface conversion", "makeslice", "divide by zero"):
        if c in p:
            cls = c
    return "c10:%s:%s" % (aid, cls if aid == "validate-does-not-panic" else "")


def c11_versions_key(aid, events, outs):
    o = {x["key"]: x["val"] for x in outs}
    modes = [e["value"] for e in events if "_mode_" in e["name"]]
    bad = ["%d:%s" % (i, m) for i, m in enumerate(modes) if m not in ("same", "compat", "partial")]
    return "c11:%s:versions=%d:bad=%s:duplicate-labels=%s" % (aid, len(modes), "+".join(bad) or "none", o.get("duplicate-labels", "?"))


def c11_key(aid, events, outs):
    m = {e["name"]: e["value"] for e in events}
    role = {"mode_main": "main", "mode_impa": "import", "mode_impb": "import", "mode_dep": "import", "mode_v0": "version"}
    bad = set()
    for k, v in m.items():
        for rk, r in role.items():
            if k.endswith(rk) and v != "ok":
                bad.add("%s:%s" % (r, v))
    bad = sorted(bad)
    if any(k.endswith("evolution_bad") and v == "true" for k, v in m.items()):
        bad.append("evolution")
    return "c11:%s:%s" % (aid, "+".join(bad))


def c02_key(aid, events, outs):
    o = {x["key"]: x["val"] for x in outs}
    if aid.endswith("untagged-only-if-unambiguous"):
        return "c02:union-untagged-but-ambiguous:%s" % o.get("overlap", "?")
    m = {e["name"]: e["value"] for e in events}
    return "c02:%s:%s" % (aid, ",".join(v for k, v in sorted(m.items()) if "prim" in k or "casekind" in k))


C11_ASSUME = ["gosym: LoadPackage, ParsePackageContents, Validate, ValidateEvolution, python.Generate, updatePackageInfoFromArgs are scenario-driven stubs "
              "(verifRepl_*); generateImpl, validatePackage, parseAndFlattenNamespaces, parsePackageNamespaces, flattenNamespaces, outputJson, WriteFileIfNeeded are the real code",
              "each explored path is replayed natively on real package directories with no stubs (python + json outputs)",
              "scenario: main imports impa (imports dep) and impb, optional previous version v0; cpp/matlab outputs not configured"]

C04_ASSUME = ["model family: harness c04Model (enum with base, record with optional/array/fixed-vector fields, alias, generic record, protocol with plain/stream-union/map steps); "
              "primitive names, map key, enum base, vector length and both array dimension lengths symbolic",
              "encoding/json modelled structurally (json_model.go) calling the interpreted MarshalJSON methods; byte-for-byte validated by native replay on every sampled path"]

CC = "cc_kernels"
PY = "py_kernels"

C14_PART = (G, "gosym_part", dict(name="c14_type_plans", entry="internal/zzverif.C14Type", args_quick=(1, 1), args_thorough=(2, 1),
                                  extra_thorough=("-max-paths", "400000"),
                                  required_sites=("cpp-write-plan", "cpp-read-plan", "python-plan", "matlab-plan"),
                                  desc="one symbolic type (args: nesting depth, number of leaves ranging over all 18 primitives) through cpp/binary.typeRwFunction "
                                       "(write+read), python/binary.typeSerializer, matlab/binary.typeSerializer; each emitted expression parsed and mapped "
                                       "through the backend head table must equal Plan(T); vector lengths / array dimensions are symbolic 64-bit values",
                                  assumptions=["head tables in harness/go/internal/zzverif/zz_plan.go give the meaning of each runtime entry point",
                                               "type shapes limited to the generator in zz_gen.go (depth bound; union = 2 cases (+null); records 1-2 fields; one generic parameter)"]))

C08X_ASSUME = ["expression trees: leaf | -e | e as T | e op e with op in {+,-,*,/,**}; family 0: every tree of nesting depth <= d over field leaves (each leaf a different field, "
               "int and double fields alternating so that validation inserts implicit conversions); family 1: every tree of depth <= l whose leaves are fields, the negative integer "
               "literal -3, the floating-point literal 1.5, a field of a nested record (sub.innerValue) or another computed field; quick d=2, l=1; thorough d=3, l=2 (of a depth-3 binary operator, in the literal family of a depth-2 one, only one operand is deep, the other two levels shallower: about 35 000 trees)",
               "the operand of a unary minus is never a literal (the expression parser folds -literal into the literal); conversions to int, float, double, long",
               "subscripts, size()/dimension functions and switch expressions are outside this part (C10 forms / pysym C19 cover them differently)",
               "reader grammars: C++ [expr] precedence table (unary > * / % > + - > shifts > relational > equality > & ^ | && ||, all left-associative; maximal munch, so `--` / `++` are "
               "decrement / increment); Python reference 6.17 (** right-associative and binding tighter than a unary operator on its left); MATLAB operator precedence (^ left-associative, "
               "binding tighter than unary minus on its left, unary operators allowed directly after ^)"]

C08_EXPR_PART = (G, "gosym_part", dict(name="c08_computed_expr_text", entry="internal/zzverif.C08ComputedExpr", args_quick=(2, 1), args_thorough=(3, 2),
                                  extra_thorough=("-max-paths", "400000"),
                                  required_sites=("cpp-text-is-one-complete-expression", "cpp-expression-has-no-side-effect", "cpp-expression-denotes-the-source-tree",
                                                  "python-body-is-one-return-statement", "python-text-is-one-complete-expression", "python-expression-denotes-the-source-tree",
                                                  "matlab-body-is-one-assignment-to-res", "matlab-text-is-one-complete-expression", "matlab-expression-denotes-the-source-tree"),
                                  assumptions=C08X_ASSUME,
                                  desc="real dsl.Validate on a record with one computed field, the resolved expression through the real cpp/types, python/types and matlab/types "
                                       "writeComputedFieldExpression.  Each emitted text is read back by an expression reader of the target language (tokens by maximal munch; C++ precedence and "
                                       "associativity, static_cast<T>(e), calls, member access; Python: ** right-associative; MATLAB: ^ left-associative; both bind tighter than a unary minus on "
                                       "their left).  C++: the text is one complete expression, contains no increment / decrement / assignment operator (the accessor is a const member function) and "
                                       "denotes exactly the tree of the resolved source expression, with std::pow(a, b) read as a ** b, static_cast<T> as the conversion to the documented C++ type, "
                                       "field names mapped to the members the struct in types.h declares (read back).  Python / MATLAB: the body is one `return <expr>` / `res = <expr>; return` and "
                                       "<expr> denotes the same tree (// and / read as division, .* ./ as the element-wise operators, int()/float() resp. int32()/int64()/single()/double() as the "
                                       "documented conversions): the three emitters denote the same tree"))

C14_TRIVIAL_PART = (G, "gosym_part", dict(name="c14_memcpy_guard", entry="internal/zzverif.C14TriviallySerializable", args_quick=(3,), args_thorough=(4,),
                                     required_sites=("specialization-is-for-the-record-type", "guard-is-a-known-constant-expression", "memcpy-only-if-standard-layout",
                                                     "memcpy-only-if-every-field-trivially-serializable", "memcpy-only-if-members-in-field-order", "memcpy-only-if-no-padding"),
                                     desc="the IsTriviallySerializable<Record> specialization cpp/binary emits (the compile-time guard of the memcpy fast path of WriteX/ReadX, vectors, arrays "
                                          "and blocks of records) is read back, its `value` initializer parsed as a C++ constant expression (&&, ||, !, ==, <, +, sizeof, alignof, offsetof, "
                                          "is_standard_layout_v, IsTriviallySerializable<decltype(member)>::value) and evaluated over a symbolic struct layout: per member a solver-chosen size "
                                          "and alignment, ABI offsets, a nondeterministic member declaration order, symbolic standard-layout / per-field-trivial facts.  Guard true implies "
                                          "standard layout, every field trivially serializable, members in field order, first member at offset 0 and no padding byte anywhere "
                                          "(sizeof(T) = sum of member sizes), i.e. the memcpy image is the field-by-field encoding the plan prescribes; the converse is not required.  The "
                                          "specialization must be for the record's own C++ type and mention only members the struct in types.h declares (read back from cpp/types)",
                                     assumptions=["records of 1-3 (thorough 4) fields, plain or with one generic parameter, field names that map to themselves or to different C++ identifiers",
                                                  "layout model: alignment in {1,2,4,8,16}, size a non-zero multiple of the alignment <= 64, offset_i = roundup(offset_{i-1}+size_{i-1}, align_i), "
                                                  "sizeof(T) = end rounded up to the largest member alignment (Itanium / MSVC rule for standard-layout structs without bit-fields or packing pragmas)",
                                                  "IsTriviallySerializable<member type> is taken (inductively) to mean that the member's memcpy image is its encoding"]))

C02_UNION3_PART = (G, "gosym_part", dict(name="c02_union_tagging_3", entry="internal/zzverif.C02Union", args_quick=(3, 0, 1), args_thorough=(3, 1, 1), key_fn=None,
                                         required_sites=("cpp-python-agree", "python-untagged-only-if-unambiguous", "python-tagged-only-if-ambiguous"),
                                         desc="C++ and Python NDJSON generators take the same tag-or-not decision on 3-case unions over a reduced case vocabulary",
                                         assumptions=["JSON kind table transcribed from docs/reference/ndjson.md (harness specKinds)"]))

C09_ASSUME = ["models are built at the level dsl.Validate receives them (YAML text -> AST is outside)",
              "base model: harness baseModel (enum, record, alias, generic record + instantiation, protocol) in a main namespace and in an imported namespace",
              "one violation per run; names drawn from small finite domains decided by the solver"]

C09_GENERIC_ASSUME = C09_ASSUME + ["generic carriers: harness zz_c09_generic.go (Lib.Box<T>, Lib.Seq<T> = T*, Lib.Two<A,B>, Lib.Choice<T> = [string, T], local Pair<A,B>, "
                                   "local LocalBox<T> = Lib.Box<T>, two-level nests, vector argument); namespaces Lib <- Dep <- Main"]

C10_ASSUME = ["arbitrary bytes / YAML text are outside this technique (yaml.v3, participle); models are arbitrary at the AST level dsl.Validate receives",
              "expression vocabulary: harness zz_c10.go (depth 1: arguments are leaves)"]

def only_thorough(spec):
    mod, fn, kw = spec
    return (mod, fn, dict(kw, tiers=("thorough",)))


C10_PARSER_PART = (G, "gosym_part", dict(name="c10_expression_parser", entry="pkg/dsl.VerifC10Parser", args_quick=(4,), args_thorough=(6,),
                                         extra_quick=("-max-paths", "200000", "-replay-sample", "24"), extra_thorough=("-max-paths", "4000000", "-replay-sample", "48"),
                                         required_sites=("parser-terminates", "parser-does-not-panic", "expression-or-error", "error-is-positioned"),
                                         assumptions=["the regular-expression lexer (participle) is outside the executor: its output is over-approximated by EVERY sequence of n tokens over "
                                                      "the 19 token kinds of expressionLexer (symbolic token type per position; token text symbolic over {\"1\", \"09\"}: only Int tokens interpret it) followed by EOF",
                                                      "participle's PeekingLexer / lexer.Upgrade / Token.EOF are the library's own code, interpreted; lexer.MustSimple / Symbols are modelled "
                                                      "(rule i gets token type EOF-1-i, as in participle v2.1.4)",
                                                      "termination = the parse completes within 400 nested calls and 400000 SSA instructions (verifBounded); natively a 5 s child process"],
                                         desc="the hand-written precedence parser for computed-field expressions (parseExpr, parseExprWithPrecedence, parseAtom, parseCall, parseSubscript, "
                                              "parseSubscriptArg, combineOperands) on every token sequence of length n (arg): terminates, does not panic, returns exactly one of (expression, error)"))

C10_DEFUSE_PART = (G, "gosym_part", dict(name="c10_def_use", entry="internal/zzverif.C10DefUse", args_quick=(), args_thorough=(),
                                         required_sites=("validate-terminates", "validate-does-not-panic", "violation-rejected"),
                                         assumptions=C10_ASSUME + ["termination = dsl.Validate completes within 200 nested calls and 3 000 000 SSA instructions (verifBounded); natively a child process with a stack and time limit"],
                                         desc="validation passes continue after an earlier pass recorded an error: each of the 22 definition-level rule violations of the C09 harness "
                                              "(incl. reference cycles through records, through aliases with containers, and through plain aliases) combined with a USE of the offending "
                                              "definition at 15 kinds of type position (the 10 of C09 plus map key, enum base, flags base, type argument, conversion target) x {main, imported "
                                              "namespace}: Validate terminates, does not panic, rejects the model and names the file"))


C10_CYCLE_SPELLINGS_PART = (G, "gosym_part", dict(name="c10_alias_cycle_spellings", entry="internal/zzverif.C10AliasCycleSpellings", args_quick=(0,), args_thorough=(1,),
                                         extra_thorough=("-max-paths", "400000"),
                                         required_sites=("validate-terminates", "validate-does-not-panic", "violation-rejected", "error-names-offending-file"),
                                         assumptions=C10_ASSUME + ["termination = dsl.Validate completes within 200 nested calls and 3 000 000 SSA instructions (verifBounded); natively a child process with a stack and time limit",
                                                                   "link spellings: plain reference, one-element sequence `[B]`, single explicitly tagged case `!union {only: B}`, `B?`, `B*`, `string->B`; "
                                                                   "cycle lengths 1-3 (length 3: one spelling for all links; quick: the second link of a length-2 cycle is plain / one-element list / "
                                                                   "single-case union / same as the first, main namespace only; thorough: every pair x {main, imported})"],
                                         desc="alias reference cycles whose links are SPELLED in 6 ways (the wrappers that resolve transparently - one-element list, single-case union - and "
                                              "optional / vector / map value), combined with a use of a symbolic member of the cycle as map key, enum base, flags base, type argument, conversion "
                                              "target, record field, union case next to another member, vector item: Validate terminates, does not panic, rejects the model and names the file"))


def c10_budget_key(aid, events, outs):
    # one stable key per family for the family the unchanged tree is known to fail on; the others are keyed per n so that
    # every size that exceeds its budget is replayed (and reported) on its own
    o = {x["key"]: x["val"] for x in outs}
    fam = o.get("family", "?")
    if aid != "validate-terminates-within-budget":
        return "c10:budget:%s:%s" % (fam, aid)
    if fam == "generic-alias-chain":
        return "c10:budget:generic-alias-chain"
    return "c10:budget:%s:n=%s" % (fam, o.get("n", "?"))


C10_BUDGET_ASSUME = ["models are built at the level dsl.Validate receives them (YAML text -> AST is outside)",
                     "work = SSA instructions gosym executes inside the real dsl.Validate (verifBounded stops the call at the budget); budget(n) = 8 * (a + b*n + c*n*n) with "
                     "(a, b, c) fitted to the unchanged tree measured at n = 4, 8, 12, 16 (C10BudgetMeasure): record chain 103128 / 214672 / 354648 / 523504 -> (20000, 17500, 900); "
                     "closed alias chain 63246 / 101874 / 140502 / 179130 -> (25000, 9700, 0); nested types 84106 / 155262 / 226418 / 297574 -> (13000, 17800, 0); call depth <= 200 + 40 n",
                     "generic alias chain: the unchanged tree is NOT polynomial (n = 1..6: 53907, 100781, 231765, 688021, 2423113, 9229129 instructions, x3.8 per level; real CLI: "
                     "n = 10 7.7 s / 1.3 GB, n = 12 140 s / 20 GB); its budget (30000, 25000, 1000) is 2.5 x the closed chain's per-level cost plus a quadratic term and is met for n <= 4 only",
                     "native replay: the work of the native run is the number of heap objects allocated while dsl.Validate runs (verifBoundedMaxMallocs; stable to +-5 between runs), budget "
                     "4 * (a' + b'*n + c'*n*n): record chain 414 / 921 / 1618 / 2520 -> (110, 52, 7); closed alias chain 355 / 600 / 845 / 1087 -> (115, 62, 0); nested types "
                     "131 / 181 / 229 / 278 -> (85, 13, 0); generic alias chain (600, 500, 20) (n = 4: 7018 allocations within, n = 5: 26300 beyond; instruction coefficients of this family re-fitted to (60000, 50000, 2000) after the fixes 9ceb8f6 / 5f48fb4 doubled its constant); the native factor is the smaller "
                     "one so that a run beyond the instruction budget is confirmed natively"]
C10_BUDGET_PART = (G, "gosym_part", dict(name="c10_validate_budget", entry="internal/zzverif.C10Budget", args_quick=(12, 8), args_thorough=(16, 8), key_fn=c10_budget_key,
                                         extra_quick=("-max-depth", "2000"), extra_thorough=("-max-depth", "2000"),
                                         required_sites=("validate-terminates-within-budget", "validate-does-not-panic", "valid-model-accepted"),
                                         assumptions=C10_BUDGET_ASSUME,
                                         desc="'terminates promptly' as a polynomial work budget: the real dsl.Validate on VALID models of size n = 1..12 (16) - (a) a chain of n records whose "
                                              "computed field reads the inner record's computed field twice (v: inner.v + inner.v), (b) a chain of n aliases each instantiating the generic "
                                              "record Pair on the previous alias twice, (c) n nested [string, ...]* union/vector levels as field and step type, (d, n <= 8) a chain of n GENERIC "
                                              "aliases each instantiating the previous generic alias twice - accepts the model within 8 x the fitted instruction count of the unchanged tree"))

def c10_yaml_key(aid, events, outs):
    o = {x["key"]: (x.get("val") or "") for x in outs}
    detail = o.get("unmarshal-panic") or o.get("validate-panic") or o.get("parse-error") or o.get("validation-error") or ""
    for c in ("index out of range", "nil pointer", "slice bounds", "interface conversion", "makeslice", "math/big", "unreachable"):
        if c in detail:
            return "c10:yaml:%s:%s" % (aid, c)
    return "c10:yaml:%s" % aid


YAML_ASSUME = ["yaml.Node trees as yaml.v3 hands them to yardl's UnmarshalYAML methods: one document; scalar, mapping and sequence nodes; every node carries a short tag and a "
               "position; a plain scalar's tag is the one yaml.v3 resolves for its text (one symbolic descriptor decides both); anchors / aliases / merge keys / multi-document "
               "files and the byte -> node step itself (yaml.v3's scanner) are outside",
               "tags, scalar texts and mapping keys are symbolic strings over finite vocabularies (22 scalar forms incl. type strings, integers beyond 64 bits, null, custom-tagged "
               "scalars; 15 keys; 12 mapping tags; 7 sequence tags): the forks are the branches of the real code",
               "yaml.v3 (*Node).DecodeWithOptions is a model (dispatch to the interpreted UnmarshalYAML, pointer allocation, null, scalar->int) validated by the native replays; "
               "participle-generated parsers (type strings) are evaluated on concrete strings by a native oracle built from the tree under test",
               "located = the error, passed through the real validation.NewValidationError as ParseYamlInDir does, carries a line; every validation error line reads <file>:<line>"]

C10_YAML_CTX = {0: "Name: X (alias or tagged definition)", 1: "record field type", 2: "protocol step type", 3: "!enum / !flags {base: scalar, values: X}",
                4: "type tag with symbolic keys {k1: X, k2: scalar}", 5: "definition names (generic parameter lists, non-string names) x record / alias",
                6: "computed field expression (27 expression texts of every tag, !switch mappings with 7 pattern forms, sequences)",
                10: "Name: X where a node may also be an alias (*anchor) of an anchored node elsewhere or of its enclosing node (cyclic document); termination is an obligation",
                11: "record field type, with alias nodes", 12: "protocol step type, with alias nodes"}


def c10_yaml_part(ctx, quick=True, depth=1, pairs=2, items=2, name=None):
    spec = (G, "gosym_part", dict(name=name or "c10_yaml_ctx%d" % ctx, entry="internal/zzverif.C10Yaml", args_quick=(ctx, depth, pairs, items), args_thorough=(ctx, depth, pairs, items),
                                  extra_quick=("-max-paths", "60000"), extra_thorough=("-max-paths", "400000"), key_fn=c10_yaml_key, oracle=True,
                                  required_sites=("unmarshal-does-not-panic", "parse-error-has-line", "validate-does-not-panic"), assumptions=YAML_ASSUME,
                                  desc="yardl's own YAML layer (pkg/dsl/yaml.go: Namespace/DefinitionMeta/RecordDefinition/ProtocolDefinition/EnumDefinition.UnmarshalYAML, UnmarshalTypeYAML, "
                                       "Unmarshal{Vector,Array,Map,Stream,Union,Generic}..., convertType) followed by the position post-pass of ParseYamlInDir and dsl.Validate, on every node tree "
                                       "of depth <= %d (<= %d pairs / %d items per node) in context '%s': no panic, every parse error has a line, every AST node has a position, every validation "
                                       "error names file and line" % (depth, pairs, items, C10_YAML_CTX[ctx])))
    return spec if quick else only_thorough(spec)


C10_MANIFEST_PART = (G, "gosym_part", dict(name="c10_manifest", entry="internal/zzverif.C10Manifest", args_quick=(1, 1, 1), args_thorough=(2, 1, 1), key_fn=c10_yaml_key,
                                           extra_quick=("-max-paths", "60000"), extra_thorough=("-max-paths", "400000"),
                                           required_sites=("manifest-reader-does-not-panic", "decode-error-has-line", "accepted-manifest-has-namespace"),
                                           assumptions=YAML_ASSUME[:1] + [
                                               "the real packaging.readPackageInfo on a virtual package directory; yaml.NewDecoder(file).Decode(&PackageInfo) is the engine's model of yaml.v3 decoding into "
                                               "structs (fields by yaml tag, KnownFields, duplicate keys, scalars into string / bool / int, collected type errors, Unmarshaler dispatch incl. the "
                                               "alias-typed re-decode of the codegen options), validated against the real library by the native replays",
                                               "manifest documents: a mapping with an optional valid namespace and 1 (2) further pairs, key over the 7 manifest fields and an unknown one, value an arbitrary "
                                               "node of depth <= 1 (mapping / sequence of <= 1 entry; 8 scalar forms; sub-keys over option names, a version label, an ill-formed label, an unknown name, a "
                                               "non-string key), or a scalar / null / sequence document",
                                               "errors of validate() (missing / ill-cased namespace, version label format, empty output directory) name the manifest but carry no line: the manifest's "
                                               "positions are not kept after decoding; only decode-stage errors are required to carry a line"],
                                           desc="totality of the manifest reader: no panic, a manifest or an error, every error names _package.yml, every decoding error carries a line"))

C10_YAML = [C10_MANIFEST_PART, c10_yaml_part(0), c10_yaml_part(5), c10_yaml_part(6, depth=0), c10_yaml_part(10, pairs=1, items=2), c10_yaml_part(3, quick=False), c10_yaml_part(1, quick=False), c10_yaml_part(2, quick=False),
            c10_yaml_part(4, quick=False), c10_yaml_part(6, quick=False, name="c10_yaml_ctx6_switch"), c10_yaml_part(11, quick=False, pairs=1, items=2), c10_yaml_part(12, quick=False, pairs=1, items=2)]

def c13_layout_part(bad, name, sites, desc):
    return (G, "gosym_part", dict(name=name, entry="internal/zzverif.C13Layouts", args_quick=(bad, 2 + bad), args_thorough=(bad, 4 + bad), oracle=True,
                                  extra_quick=("-max-paths", "60000"), extra_thorough=("-max-paths", "400000"), required_sites=sites,
                                  assumptions=["the real dsl.ParseYamlInDir on a virtual package directory: os.Stat, filepath.Walk (the library's algorithm incl. its SkipDir / SkipAll rules), "
                                               "os.Open and yaml.NewDecoder(file).Decode are engine models over the virtual file system; a model file's content is a sequence of yaml.Node "
                                               "documents registered by the harness (natively: marshalled to text in a scratch directory and read by the real decoder)",
                                               "layouts: 4 (5) definitions, the last 2 (all) of them placed in any of {a.yml, b.yaml, sub/c.yml, sub/deep/d.yml}, definitions sharing a file in one "
                                               "document or one document each; next to them _package.yml, optionally notes.txt and one hidden non-model file (.gitignore / .DS_Store) in the "
                                               "package directory or a sub-directory",
                                               "this part enumerates layouts through the decision mechanism; it has no symbolic data (0 solver queries)"],
                                  desc=desc))


C13_LAYOUT_PARTS = [
    c13_layout_part(0, "c13_file_layouts", ("every-layout-parses", "no-definition-lost-or-duplicated", "same-schema-as-single-file", "every-node-carries-the-file-it-was-read-from"),
                    "the same definitions distributed over files, extensions, sub-directories and YAML documents: ParseYamlInDir finds every model file, no definition is lost or "
                    "duplicated, Validate accepts, and the embedded schema equals that of the single-file layout"),
    c13_layout_part(1, "c13_file_layouts_violation", ("violation-in-any-model-file-is-rejected",),
                    "one more definition that violates a language rule, placed in any model file of any layout: rejected, naming that file"),
]

C13_YAML_PART = (G, "gosym_part", dict(name="c13_yaml_spellings", entry="internal/zzverif.C13Yaml", args_quick=(1,), args_thorough=(2,), oracle=True,
                                       extra_quick=("-max-paths", "60000"), extra_thorough=("-max-paths", "400000"),
                                       required_sites=("both-spellings-accepted-or-both-rejected", "same-schema"), assumptions=YAML_ASSUME + [
                                           "spelling pairs: primitive aliases (int/int32, uint/uint32, long/int64, ulong/uint64, float/float32, double/float64); T? vs [null, T]; T* vs !vector {items}; "
                                           "T*N vs !vector {items, length} (N incl. 0, 2^64-1, 2^64, 10^23); K->V vs !map {keys, values}; T[] / T[,] / T[x,y] / T[x:2,y:N] / T[2,N] vs !array with "
                                           "dimensions as count / list / map; Box<T> vs !generic {name, args: [T] | T}; T?* vs !vector {items: [null, T]}; nested to depth 1 (2); the same type as "
                                           "record field, protocol step and stream item",
                                           "unions with explicit tags (!union) are a different model by design (explicitTag is part of the schema) and are not paired"],
                                       desc="the same model written with shorthand type strings and with expanded YAML type syntax goes through the real YAML layer, dsl.Validate and the schema writer: "
                                            "both spellings are accepted or both rejected, and the embedded schema text is identical"))

C13_YAML_BACKENDS_PART = (G, "gosym_part", dict(name="c13_yaml_spellings_python", entry="internal/zzverif.C13YamlPython", args_quick=(), args_thorough=(), oracle=True,
                                       required_sites=("both-spellings-accepted-or-both-rejected", "python-types-identical-for-both-spellings", "python-binary-identical-for-both-spellings",
                                                       "python-ndjson-identical-for-both-spellings", "python-package-identical-for-both-spellings",
                                                       "cpp-sources-identical-for-both-spellings", "matlab-package-identical-for-both-spellings"),
                                       assumptions=YAML_ASSUME + [
                                           "spelling pairs (T over int / string / record Foo, K over string / int): T? = [null, T]; T?* = !vector {items: [null, T]}; T?*3; K->T? = !map {keys, values: "
                                           "[null, T]}; T?[] / T?[x, y] / T?[2, 3] = !array {items: [null, T] (, dimensions)}; T* = !vector {items: T}; !vector {items: T?} = !vector {items: [null, T]}; "
                                           "Box<T?> = !generic {name: Box, args: [[null, T]]}; T?*? = [null, !vector {items: [null, T]}] - the shorthand builds a NESTED tree (container of an optional), "
                                           "the expanded syntax a FLAT one (container carrying the cases); the type is used as record field, protocol step and stream item",
                                           "C++: the types / protocols / binary / NDJSON writers (no HDF5, mocks, CMake); Python and MATLAB: the complete generators; static files stubbed under gosym"],
                                       desc="the same package written with shorthand and with expanded syntax for optional-bearing element types goes through the real YAML layer, dsl.Validate and the "
                                            "complete real Python generator (plus the C++ writers and the MATLAB generator): both accepted or both rejected, and every generated file - types.py, binary.py, "
                                            "ndjson.py, protocols.py, __init__.py, the C++ sources, the MATLAB package - is byte-identical for the two spellings"))

C10_FORMS = {
    0: (G, "gosym_part", dict(name="c10_computed_form0", entry="internal/zzverif.C10Computed", args_quick=(1, 0), args_thorough=(1, 0), key_fn=c10_key,
                               required_sites=("validate-does-not-panic",), assumptions=C10_ASSUME,
                               desc="dsl.Validate on a record with every kind of field and one computed field whose expression is: leaf (literal / field access / nested member access); no panic, errors carry a file position")),
    1: (G, "gosym_part", dict(name="c10_computed_form1", entry="internal/zzverif.C10Computed", args_quick=(1, 1), args_thorough=(1, 1), key_fn=c10_key,
                               required_sites=("validate-does-not-panic",), assumptions=C10_ASSUME,
                               desc="dsl.Validate on a record with every kind of field and one computed field whose expression is: unary minus; no panic, errors carry a file position")),
    2: (G, "gosym_part", dict(name="c10_computed_form2", entry="internal/zzverif.C10Computed", args_quick=(1, 2), args_thorough=(1, 2), key_fn=c10_key,
                               required_sites=("validate-does-not-panic",), assumptions=C10_ASSUME,
                               desc="dsl.Validate on a record with every kind of field and one computed field whose expression is: binary arithmetic; no panic, errors carry a file position")),
    3: (G, "gosym_part", dict(name="c10_computed_form3", entry="internal/zzverif.C10Computed", args_quick=(1, 3), args_thorough=(1, 3), key_fn=c10_key,
                               required_sites=("validate-does-not-panic",), assumptions=C10_ASSUME,
                               desc="dsl.Validate on a record with every kind of field and one computed field whose expression is: subscript (0-2 arguments, optional labels) on vector/array/map/scalar targets; no panic, errors carry a file position")),
    4: (G, "gosym_part", dict(name="c10_computed_form4", entry="internal/zzverif.C10Computed", args_quick=(1, 4), args_thorough=(1, 4), key_fn=c10_key,
                               required_sites=("validate-does-not-panic",), assumptions=C10_ASSUME,
                               desc="dsl.Validate on a record with every kind of field and one computed field whose expression is: function call size/dimensionIndex/dimensionCount/unknown with 0-3 arguments; no panic, errors carry a file position")),
    5: (G, "gosym_part", dict(name="c10_computed_form5", entry="internal/zzverif.C10Computed", args_quick=(1, 5), args_thorough=(1, 5), key_fn=c10_key,
                               required_sites=("validate-does-not-panic",), assumptions=C10_ASSUME,
                               desc="dsl.Validate on a record with every kind of field and one computed field whose expression is: type conversion; no panic, errors carry a file position")),
    6: (G, "gosym_part", dict(name="c10_computed_form6", entry="internal/zzverif.C10Computed", args_quick=(1, 6), args_thorough=(1, 6), key_fn=c10_key,
                               required_sites=("validate-does-not-panic",), assumptions=C10_ASSUME,
                               desc="dsl.Validate on a record with every kind of field and one computed field whose expression is: switch over optional/union/scalar targets with 1-2 cases and every pattern kind; no panic, errors carry a file position")),
}

C10_SHAPES_ASSUME = ["arbitrary bytes / YAML text are outside this technique (yaml.v3, participle); type shapes are arbitrary at the AST level dsl.Validate receives, restricted to "
                     "what yaml.go (UnmarshalTypeYAML, Unmarshal{Vector,Array,Map,Stream,Union}YAML, UnmarshalGenericNode) and convertType can produce",
                     "shape vocabulary: harness zz_c10_shapes.go, one family per part; array / vector lengths absent, 0 or 3; dimension names, tags and type names from small finite sets "
                     "(type names decided by the solver); host model: enum, record, aliases, generic record, generic alias, protocol",
                     "precondition of dsl.Validate: no nil entry in SimpleType.TypeArguments (UnmarshalGenericNode rejects `args: [null]` at parse time since fix 70c3945); such hand-built ASTs are excluded"]
C10_SHAPE_FAMILIES = ["arrays of rank 0-2 (3) whose dimensions independently have / lack a length (0 or 3) and a name (incl. empty, duplicate, badly cased), `dimensions` absent or empty",
                      "case lists (empty, [null], [T], [null,T], [T,U], [null,T,T'], [T,null], [null,null]) under no dimensionality / vector / fixed vector of length 0 / 3 / map / array / stream",
                      "simple type names that are unknown, primitives, records, enums, generics, type parameters, protocols, qualified, with 0-2 type arguments incl. unresolvable, compound and ill-formed arguments (null type arguments excluded: rejected by the parser)",
                      "maps whose key is a record / enum / alias / type parameter / unknown / protocol / generic instantiation / vector / optional / union / empty union / map, over 8 value case lists",
                      "generalized types (7 dimensionalities x 3 case lists) nested directly as optional inner, union case, vector / array element or map key of another generalized type",
                      "`!union` maps with 0-3 explicitly tagged cases (null types, duplicate types, unknown types) and tags from {a, b, A, empty} (so duplicate, empty, badly cased), plain or as vector element"]
C10_SHAPES = [(G, "gosym_part", dict(name="c10_type_shapes", entry="internal/zzverif.C10TypeShapes", args_quick=(-1, 0, 0), args_thorough=(-1, 1, 1), extra_thorough=("-max-paths", "200000"), key_fn=c10_key,
                                     required_sites=("validate-does-not-panic", "error-is-located"), assumptions=C10_SHAPES_ASSUME,
                                     desc="dsl.Validate on a host model with one producible, possibly rule-violating type shape at a symbolic position (record field, union case, vector element, "
                                          "map value, alias target, protocol step, generic argument, field / alias target of a generic definition; thorough: + optional inner, stream item, "
                                          "map key, enum base, array element): no panic, and a returned error names the file.  Shape families: " + "; ".join(
                                              "(%d) %s" % (i, t) for i, t in enumerate(C10_SHAPE_FAMILIES))))]


def c05_key(aid, events, outs):
    o = {x["key"]: x["val"] for x in outs}
    return "c05:%s:%s->%s" % (aid, o.get("from", "?"), o.get("to", "?"))


def c05_nested_key(aid, events, outs):
    o = {x["key"]: x["val"] for x in outs}
    # one key per distinct emitter defect (statement forms of writeTypeConversion that are not well-formed C++)
    if aid in ("no-redeclared-variable", "subscript-store-only-on-vector-or-array") and o.get("redeclared"):
        return "c05:nested-vector-conversion-shadows-loop-variable"
    if aid in ("resize-only-on-vector", "subscript-store-only-on-vector-or-array") and "optional" in (o.get("resize-on"), o.get("subscript-store-on")) and not o.get("redeclared"):
        return "c05:optional-vector-conversion-resizes-optional"
    if aid == "resize-only-on-vector" and o.get("resize-on") == "array":
        return "c05:fixed-vector-conversion-resizes-array"
    if "chain" in o:
        return "c05:%s:wrappers=%s" % (aid, o.get("chain") or "none")
    return "c05:%s:%s" % (aid, o.get("change", "?"))


C05_ASSUME = ["the emitted guard text is read back through the four statement forms writeTypeConversion emits today (`src > limits<T>::max()`, `src < limits<T>::lowest()`, `src < 0`, throw)",
              "C++ integer comparison/`numeric_limits` semantics transcribed as 64-bit arithmetic in the harness; static_cast of an in-range value preserves it"]

def c06_key(aid, events, outs):
    o = {x["key"]: x["val"] for x in outs}
    if o.get("container") in ("1", "2") and aid in ("compatible-change-accepted", "partial-change-accepted"):
        return "c06:change-to-record-used-as-map-value-or-array-element-rejected"
    if (o.get("nested-spelling") == "true" and o.get("spelling-verdict") == "error" and o.get("flat-verdict") in ("silent", "warning")
            and aid in ("nested-spelling-documented-class", "nested-spelling-same-verdict-as-flat")):
        return "c06:item-type-spelled-as-nested-optional-or-union-rejected"
    if aid == "retargeted-alias-has-the-class-of-the-change-made-in-place":
        # known finding: only when the record the alias used to name ALSO changed (its own non-nil change is the one kept for the old definition)
        if o.get("retarget-previous-target-also-changed") == "true" and o.get("retargeted-class") in ("0", "1") and o.get("twin-class") in ("1", "2") \
                and int(o.get("retargeted-class")) < int(o.get("twin-class")):
            return "c06:alias-retarget-accepted-when-the-previous-target-also-changed"
        return "c06:alias-retarget:" + aid
    if o.get("closed-pair") == "true":
        return "c06:type-arguments-not-compared-through-differently-named-closed-aliases"
    return "c06:%s:%s" % (aid, o.get("edit", "?"))


C06_INSTANCES_SITES = ("both-versions-valid", "verdict-without-panic", "breaking-change-rejected", "partial-change-accepted", "partial-change-warned", "every-partial-change-warned",
                       "compatible-change-accepted", "compatible-change-silent")
C06_INSTANCES_ASSUME = ["oracle from docs/cpp/evolution.md: the class of a record edit (optional field added / fields reordered = compatible; required field added or removed, number -> number, "
                        "field made optional = partially compatible, 'yardl will emit a warning for each of these'; field type string -> datetime, scalar -> vector = breaking) does not depend on "
                        "how the protocol reaches the record; both versions use the same step types, only record definitions differ; records unreached by every step are not edited",
                        "no maps / arrays (known finding c06:change-to-record-used-as-map-value-or-array-element-rejected); only the definitions the steps need are declared"]
C06_PREDECESSORS_SITES = ("verdict-without-panic", "breaking-change-rejected", "partial-change-accepted", "partial-change-warned", "compatible-change-accepted", "compatible-change-silent",
                          "fails-iff-some-predecessor-alone-fails", "error-is-the-first-failing-predecessors-own", "warnings-of-predecessor-equal-those-of-validating-it-alone",
                          "warnings-after-first-failure-are-absent-or-its-own", "every-warning-is-labelled-with-its-predecessor", "alone-every-warning-is-labelled")
C06_PREDECESSORS_ASSUME = ["every run (all predecessors together, each predecessor alone) uses freshly built and validated models, because ValidateEvolution renames the predecessors' definitions "
                           "and annotates the latest model", "ValidateEvolution stops at the first failing predecessor: predecessors listed after it need not be diagnosed (absent or their own warnings)",
                           "diagnostics are attributed by their '[label] ' prefix; the class of each alone verdict is the documented one (docs/cpp/evolution.md), which keeps the relational obligation non-vacuous"]


def c07_key(aid, events, outs):
    m = {e["name"]: e["value"] for e in events}
    if any(k.endswith("from-end") for k in m):
        return "c07:long-protocol-state-wraps"
    return "c07:%s" % aid


C07_ASSUME = ["the emitted method bodies are read back through the statement forms the emitter produces today (if (unlikely(state_ != c)), if (state_ == c), state_ = c;, "
              "...InvalidState(...), return ..., Impl calls); any other form fails the only-known-statement-forms obligation",
              "C++ semantics of the unsigned state_ member (width read from the emitted declaration) transcribed in the harness; Impl results are arbitrary booleans"]
C07M_ASSUME = ["the emitted .m files are read through the MATLAB forms the emitter produces today (classdef < handle, properties / methods sections, function ... end, "
               "if / elseif / else / while / arguments blocks, assignments to locals and to declared properties, method calls, throw(yardl.ProtocolError(fmt, ...)), integer / string "
               "literals, == ~= ~ && ||); any other form fails the only-known-statement-forms obligation",
               "MATLAB semantics transcribed in the harness: handle-class property assignment is visible to the caller, short-circuit && / ||, MException sprintf-style message; "
               "abstract hooks (write_<s>_, read_<s>_, has_<s>_, end_stream_, close_) are recorded, has_ answers are arbitrary booleans; MATLAB / Octave are not installed: nothing is executed",
               "rule taken from docs/matlab/language.md (Protocols): streams are ended explicitly by end_<step>() (writer) / observed by has_<step>() answering false (reader); close() "
               "does not end an open stream; close() calls close_ before checking (as the Python backend does), so only 'no step hook' is required of a refused close; "
               "skip_completed_check=true (reader constructor option, default false) is an explicit opt-out of the close check"]
PYG = "py_generated"

C04_EMBED_PART = (G, "gosym_part", dict(name="c04_embed", entry="internal/zzverif.C04Embed",
                                        required_sites=("cpp-embeds-schema-verbatim", "python-embeds-schema-verbatim", "matlab-embeds-schema-verbatim",
                                                        "cpp-reader-uses-writer-schema", "cpp-version-from-schema-ends-in-throw", "schema-has-no-delimiter-clash"),
                                        assumptions=["model family of C04 with concrete lengths; comments on/off; primitive names symbolic"],
                                        desc="the real C++, Python and MATLAB protocol emitters embed GetProtocolSchemaString(P) verbatim exactly once as the writer's schema, "
                                             "readers refer to the writer's schema, and the emitted C++ VersionFromSchema compares with schema_ and ends in a throw"))

C04_PURE_PART = (G, "gosym_part", dict(name="c04_generators_pure", entry="internal/zzverif.C04GeneratorsPure", args_quick=(0,), args_thorough=(1,),
                                       required_sites=("generator-leaves-the-schema-unchanged", "generator-leaves-the-model-unchanged", "generator-leaves-the-model-json-unchanged",
                                                       "cpp-embeds-the-validated-schema", "python-embeds-the-validated-schema", "matlab-embeds-the-validated-schema"),
                                       assumptions=["model: a !flags and an !enum definition whose three symbols carry a symbolic assignment of the values 1, 2, 4 (declared ascending, descending, mixed; "
                                                    "thorough: independent assignments), with or without explicit base, a record with optional / union / vector fields, an alias of a map, a protocol "
                                                    "with a stream and a nullable union step; unions whose cases are aliases (of a primitive, a vector, a record) as a stream item and as a record field",
                                                    "C++ = the types, protocols, binary and NDJSON writers (no HDF5, mocks, CMake, embedded headers); Python = python.Generate; MATLAB = matlab.Generate; "
                                                    "static files stubbed under gosym; the three backends run in all 6 orders on ONE resolved model, as one `yardl generate` does",
                                                    "the model as data = every list of it in declaration order (enum values, fields, cases, steps, definitions) and the engine's structural encoding/json of "
                                                    "the namespaces (validated byte-for-byte by the native replays)"],
                                       desc="running a backend does not change the model: after each of the three backends (symbolic order) GetProtocolSchemaString, the model's lists and its JSON are what "
                                            "they were after validation; and in every order each backend embeds exactly the schema text of the model as validated (protocols.cc, protocols.py, "
                                            "ProtoWriterBase.m): the schema text is the same for every target language"))

C04_DETERMINES_PART = (G, "gosym_part", dict(name="c04_determines", entry="internal/zzverif.C04Determines", args_quick=(1,), args_thorough=(0,),
                               required_sites=("wire-edit-changes-schema", "same-model-same-schema"), assumptions=C04_ASSUME,
                               desc="one wire-affecting edit (symbolic new primitive / key / enum base / vector length / array dimension, or unnamed fixed-array dimension, field type of an imported record sharing its simple name with a local one, or one of 10 structural edits): "
                                    "schema text differs whenever the edit changes the wire plan, and is identical otherwise"))

C04_TYPEARGS_PART = (G, "gosym_part", dict(name="c04_determines_type_arguments", entry="internal/zzverif.C04TypeArgs", args_quick=(1,), args_thorough=(0,),
                               required_sites=("wire-edit-changes-schema", "same-model-same-schema", "schema-lists-every-type-the-protocol-depends-on", "base-validates", "edited-validates"),
                               assumptions=["model family: harness zz_c04_typeargs.go: a record / enum / alias of Ns or a record of the imported Lib that the protocol reaches ONLY as a type "
                                            "argument X of Pair<X,int>, Lib.Box<X>, Opt<X> (= X?), Lib.Seq<X> (= X*), Lib.Box<Pair<int,X>>, Pair<Lib.Seq<X>,string>, LocalBox<X> (= Lib.Box<X>), "
                                            "Lib.Box<X*>, or ONLY through a position of a structural type: string->X, X->int (map key), X[], X*3, [int, X], (uint->X)*, the base of an !enum / !flags (where the real validator refuses the "
                                            "target in that position nothing is asserted), written as step type / stream item / record field / closed alias (quick: two of the four placements per carrier)",
                                            "the protocol may also use every generic of the family with primitive arguments in a step before (thorough: or after) the carrier, so that the target is reached only through a "
                                            "second (an earlier) instantiation of the same generic",
                                            "closure oracle: reachability over the model as written (names before validation), following definitions' bodies and type arguments; type parameters "
                                            "and primitives are leaves",
                                            C04_ASSUME[1]],
                               desc="definitions reachable only through a type argument of a generic instantiation: the schema lists every named type the protocol's encoding depends on, and "
                                    "one wire-affecting edit of such a definition (symbolic new field primitive / enum base / alias target, fields reordered or dropped, enum value changed or "
                                    "symbol added, alias target made optional / a vector) changes the schema text; the same model gives the same text"))

# ---- emitted C++ schema tables (protocols.h + protocols.cc read back as one translation unit) --
C04_CPP_SCHEMAS_PART = (G, "gosym_part", dict(name="c04_cpp_schema_tables", entry="internal/zzverif.C04CppSchemas", args_quick=(2, 6, 4), args_thorough=(3, 6, 6),
                               extra_thorough=("-max-paths", "400000"),
                               required_sites=("documented-compatible-changes-accepted", "emitted-unit-understood", "static-initialised-before-use", "version-enum-lists-each-label-once",
                                               "schema-member-carries-current-schema", "header-schema-is-that-versions-schema", "schema-of-listed-version-accepted",
                                               "reader-selects-version-of-that-schema", "foreign-schema-refused", "table-index-in-bounds"),
                               assumptions=["the output of cpp/protocols writeDeclarations + writeDefinitions is read back as one C++ translation unit at token level by "
                                            "harness/go/internal/zzverif/zz_c04_cppschemas.go (comments, preprocessor lines, (raw) string literals, namespaces, class bodies skipped as declarations, "
                                            "enum definitions, function definitions, definitions of namespace-scope / static-member objects); any other form fails emitted-unit-understood",
                                            "C++ semantics transcribed in the harness: objects with static storage duration of one translation unit are zero-initialised, then dynamically initialised in "
                                            "definition order (a read of a not-yet-initialised object is reported and yields the empty value); unqualified names in the definition of C::m are looked up in C; "
                                            "switch with fall-through, first true branch of an if / else-if chain, subscript out of range reported",
                                            "two protocols (P: number, record, optional string; Q: vector of the record); previous versions identical / step of another integer type / record without its "
                                            "optional field / last step absent (thorough: + second integer type); how the generated binary reader / writer use the two functions "
                                            "(constructor arguments in cpp/binary) is not part of this part"],
                               desc="real dsl.Validate + ValidateEvolution on a current model and m previous versions (args: m, kinds, label pool size) whose labels are symbolic strings (pairwise "
                                    "distinct, out of {v9, v10, a, B}: lexicographic order differs from declaration order) and whose models are per version (symbolic) identical or changed in a "
                                    "documented compatible way; the emitted enum class Version, schema_, previous_schemas_ (writer and reader copies), SchemaFromVersion and VersionFromSchema are "
                                    "evaluated with C++ static-initialisation-order semantics: for EVERY enumerator L the schema the writer puts in the header for Version::L is the schema text of "
                                    "version L's own model (dsl.GetProtocolSchemaString of that version's independently validated model), VersionFromSchema of that text selects a version with "
                                    "that same schema text, no initialiser reads an object defined later, and texts that are no version's schema (incl. the empty one) are refused"))

# the same obligations for labels that need escaping as C++ enumerators (`Current`, keywords), with unchanged versions only
C04_CPP_LABELS_PART = (G, "gosym_part", dict(C04_CPP_SCHEMAS_PART[2], name="c04_cpp_version_labels", args_quick=(2, 1, 6), args_thorough=(3, 2, 6)))

# ---- emitted C++ binary protocol methods read back and evaluated (h-cppgen) -------------------
CPP_PROTO_ASSUME = ["the emitted method bodies are read back into statements (if / switch (version_) with C++ fall-through / element-wise for / simple) by "
                    "harness/go/internal/zzverif/zz_cppstmt.go; any unrecognised form fails the only-known-statement-forms obligation",
                    "meaning of the runtime entry points the bodies call (WriteBlock, WriteVector, WriteInteger(0U), ReadBlock, ReadBlocksIntoVector, value (de)serializers via the "
                    "zz_plan.go head tables) is the documented interpretation at the top of zz_cppstmt.go; the kernels themselves are checked by c01_cc_kernels / c17_cc_blocks",
                    "value-dependent conversion errors (numeric overflow guards) are documented partial compatibility and are not followed"]
C01_CPP_PROTO_WRITER = (G, "gosym_part", dict(name="c01_cpp_proto_writer", entry="internal/zzverif.C01CppProto", args_quick=(2, 4, 0), args_thorough=(3, 8, 0),
                                              extra_thorough=("-max-paths", "400000"),
                                              required_sites=("only-known-statement-forms", "value-step-writes-one-value", "single-write-is-one-block", "block-length-nonzero",
                                                              "block-holds-exactly-its-length", "batch-is-a-sequence-of-blocks", "batch-writes-every-item-once",
                                                              "end-writes-one-length", "end-writes-zero-length"),
                                              assumptions=CPP_PROTO_ASSUME,
                                              desc="cpp/binary.writeProtocolMethods on a protocol of n steps, each a value or a stream (symbolic) of a symbolic element type (args: n, "
                                                   "vocabulary size, 0): every emitted writer method evaluated on a batch of symbolic length: value step = one value of Plan(T); each stream "
                                                   "Write emits zero or more blocks with NON-ZERO length followed by exactly that many items, every item passed exactly once; "
                                                   "End emits exactly the zero length"))
C01_CPP_PROTO_READER = (G, "gosym_part", dict(name="c01_cpp_proto_reader", entry="internal/zzverif.C01CppProto", args_quick=(2, 4, 1), args_thorough=(3, 8, 1),
                                              extra_thorough=("-max-paths", "400000"),
                                              required_sites=("only-known-statement-forms", "value-step-reads-one-value", "single-read-reports-item-iff-read",
                                                              "length-consumed-only-when-block-exhausted", "single-read-delivers-one-item", "block-remaining-decremented",
                                                              "end-of-stream-reads-no-item", "batch-read-is-one-kernel-call", "batch-read-delivers-the-items-read",
                                                              "batch-read-reports-more-iff-not-ended"),
                                              assumptions=CPP_PROTO_ASSUME,
                                              desc="same protocols, every emitted reader method evaluated from a symbolic current_block_remaining_ and a symbolic next block length: "
                                                   "a single read consumes a length only when the block is exhausted, reports false iff that length is zero, otherwise delivers one item of "
                                                   "Plan(item); a batch read delivers what ReadBlocksIntoVector read and reports more-may-follow iff the zero length was not consumed"))
C05_SWITCH_SITES = ("documented-compatible-changes-accepted", "only-known-statement-forms", "version-switch-labels-distinct", "absent-step-writes-nothing")
C05_SWITCH_DESC = ("real dsl.ValidateEvolution on a current model and m previous versions (args: m, shapes, element families, side) in which a stream / vector / optional step "
                   "of a number or a record is, per version (symbolic), unchanged with the protocol identical / unchanged next to another changed step / absent / of a different "
                   "compatible type, with version labels assigned by a symbolic permutation of labels whose lexicographic and numeric orders differ; "
                   "cpp/binary.writeProtocolMethods output read back: for EVERY label and Current, every %s method routes version_ to a body that %s exactly that "
                   "version's wire format (oracle: the step looked up by name in that version's own validated model; absent step = nothing, no end-of-stream length)")
C05_SWITCH_WRITER = (G, "gosym_part", dict(name="c05_version_switch_writer", entry="internal/zzverif.C05VersionSwitch", args_quick=(2, 3, 2, 0), args_thorough=(3, 3, 2, 0),
                                           extra_thorough=("-max-paths", "400000"),
                                           required_sites=C05_SWITCH_SITES + ("value-step-writes-one-value", "single-write-is-one-block", "block-length-nonzero",
                                                                              "batch-writes-every-item-once", "end-writes-zero-length"),
                                           assumptions=CPP_PROTO_ASSUME, desc=C05_SWITCH_DESC % ("writer (Write, batch Write, End)", "writes")))
C05_SWITCH_READER = (G, "gosym_part", dict(name="c05_version_switch_reader", entry="internal/zzverif.C05VersionSwitch", args_quick=(2, 2, 2, 1), args_thorough=(3, 3, 2, 1),
                                           extra_thorough=("-max-paths", "400000"),
                                           required_sites=("documented-compatible-changes-accepted", "only-known-statement-forms", "absent-step-reads-nothing", "absent-stream-reports-end",
                                                           "absent-step-yields-default", "value-step-reads-one-value", "single-read-reports-item-iff-read",
                                                           "single-read-delivers-one-item", "batch-read-delivers-the-items-read", "batch-read-reports-more-iff-not-ended"),
                                           assumptions=CPP_PROTO_ASSUME + ["between steps current_block_remaining_ is 0 (every earlier stream was read to its zero length)"],
                                           desc=C05_SWITCH_DESC % ("reader (Read, batch Read)", "reads")))

C20_ASSUME = ["gosym goroutine scheduler: one goroutine runs at a time; switches only at go / channel / select / timer / mutex / atomic / file-system operations and verifYield; "
              "at most `preemptions` switches away from a goroutine that could continue (blocking switches are free); data races on plain memory between those points are not explored",
              "time is abstract: an armed debounce timer may fire at any later scheduling point (covers every ratio of debounce delay to regeneration time)",
              "LoadPackage / ParsePackageContents are replaced under gosym by functions reading the same files of the virtual file system (yaml.v3 is outside the executor); "
              "updatePackageInfoFromArgs is a no-op (koanf is opaque): effects of the shared koanf instance are outside the claim; JSON output only; one package without imports",
              "the harness is the file-system notifier: one event per save on Watcher.Events (real fsnotify natively)",
              "native replay cannot impose a schedule: a slow regeneration is realised by a bulky model (1500 extra records) saved 60 ms before the next save"]

C02_CPP_ENUM_ASSUME = ["the emitted to_json / from_json bodies and symbol table are read back into statements by zz_cppstmt.go / zz_c02_cppenum.go; any unrecognised form fails "
                       "only-known-statement-forms", "meaning of BaseFlags::HasFlags/UnsetFlags/Value/==/|= and of the nlohmann::json calls is the documented interpretation at the top of "
                       "zz_c02_cppenum.go (transcribed from tooling/internal/cpp/include/yardl.h.tmpl)", "generated enumerators are named k<PascalCase symbol> (types emitter convention)",
                       "flag / enum literal values are concrete per path (math/big is modelled for concrete values only); the serialized value v is a symbolic bit-vector"]

C02_NULLFORM_PART = (G, "gosym_part", dict(name="c02_nullable_union_null_forms", entry="internal/zzverif.C02Union", args_quick=(2, 1, 1), args_thorough=(2, 1, 0), key_fn=None,
                               required_sites=("cpp-python-agree", "cpp-tagged-nullable-union-reads-bare-null"),
                               desc="nullable unions of 2 symbolic cases: same tagging decision in both generators, and the emitted C++ reader of a tagged nullable union takes a bare JSON null "
                                    "(the Python writer's rendering of the null case) as the null case before looking for a tag; the converse (Python reading the C++ rendering {\"<tag>\": null}) "
                                    "is an obligation of c02_py_converters",
                               assumptions=["JSON kind table transcribed from docs/reference/ndjson.md (harness specKinds)",
                                            "the null-guard is recognised textually in the emitted from_json body (if (j.is_null()) { value = std::monostate{}; return; } before j.begin())"]))

C05_NESTED_READ = (G, "gosym_part", dict(name="c05_nested_conversion_read", entry="internal/zzverif.C05NestedConversion", args_quick=(0,), args_thorough=(0,), key_fn=c05_nested_key,
                               required_sites=("nested-integer-change-accepted", "emitted-conversion-understood", "element-wise-data-flow", "one-element-conversion",
                                               "assigns-static-cast-to-target", "no-silent-wrap", "no-spurious-overflow-error"),
                               assumptions=C05_ASSUME + ["wrapper chains: none, optional, vector, stream (batched), vector of optional, stream of optional; the emitted statements are read back as a data-flow trace "
                                                         "(has_value test, resize, element loop, item declaration, guard+throw, static_cast assignment, item store) and compared with the element-wise flow the wrapper chain requires",
                                                         "not covered: vector of vector / stream of vector (batched), fixed-length vector and optional of vector around a changed element: the emitter "
                                                         "shadows `i` / `item`, calls resize on std::array / std::optional (reported as suspected C++ well-formedness defects)"],
                               desc="real compareTypes on wrappers(old int) vs wrappers(new int) for all 72 ordered pairs of integer primitives, then cpp/binary.writeTypeConversion on the resulting change, reading an old stream: "
                                    "the innermost element conversion reads the element of the source container, throws iff the symbolic 64-bit value does not fit the new element type, else stores static_cast<new> "
                                    "into the destination container"))

def c05_bulk_key(aid, events, outs):
    o = {x["key"]: x["val"] for x in outs}
    # one key for the emitter / runtime defect, whatever record shape, change and container exhibit it
    if aid == "bulk-path-preserves-element-function":
        return "c05:compat-serializer-bypassed-by-bulk-path"
    return "c05:%s:%s:%s" % (aid, o.get("family", "?"), o.get("context", "?"))


def c05_assign_key(aid, events, outs):
    o = {x["key"]: x["val"] for x in outs}
    stale = (o.get("left-stale") or "").split(": ")[-1].split(",")
    if aid == "compat-reader-assigns-every-field" and stale != [""] and not any(m in ("value", "value.f") for m in stale):
        return "c05:%s:fields-the-previous-version-lacks" % aid   # whatever else changed in the record
    return "c05:%s:%s" % (aid, o.get("change", "?"))


C05_BULK_ASSUME = ["meaning of the runtime combinators (which of them have the `if constexpr (IsTriviallySerializable<T>::value)` bulk path, and the runtime's own IsTriviallySerializable "
                   "specializations) transcribed from tooling/internal/cpp/include/detail/binary/serializers.h; every native replay re-derives both lists from the embedded header and "
                   "must agree (a changed header makes the part INCONCLUSIVE until the transcription is redone)",
                   "struct layout by the LP64 little-endian ABI: sizes / alignments of the fixed-width C++ types, members at the next multiple of their alignment in declaration order; "
                   "the record's emitted IsTriviallySerializable guard is evaluated on that layout (c14_trivially_serializable decides that a true guard means memcpy image = field-by-field encoding)",
                   "emitted texts read back: types.h members (structs, `using` aliases incl. the compatibility aliases), the IsTriviallySerializable specializations, the serializers and "
                   "compatibility serializers (stream calls in order; other statements must be declarations / assignments / control flow without stream access), the protocol methods (zz_cppstmt.go)",
                   "model family: record Rec {a, b} with field added / field removed (from the middle) / field a retyped (number -> number) / unchanged, or alias Rec = number retyped, per previous "
                   "version; a over {float32, float64, uint8, complexfloat32, bool, float32*2, int32, string}, b over {float32, uint8, string} (thorough: + float64, complexfloat32, int32); "
                   "the step is Rec / Rec* / stream of Rec / Rec*3 / Rec? / a record holding Rec* / string->Rec / a record holding uint32->Rec; a changed record as a map value is rejected by the unchanged "
                   "evolution analyser (known finding C06): acceptance is not required there, but IF the change is accepted every obligation on the emitted code applies; arrays of changed records "
                   "are rejected as well and are not in the family"]
C05_BULK_BYPASS = (G, "gosym_part", dict(name="c05_compat_bulk_bypass", entry="internal/zzverif.C05BulkBypass", args_quick=(1, 8, 3, 0), args_thorough=(2, 8, 6, 0),
                               extra_thorough=("-max-paths", "400000"), key_fn=c05_bulk_key,
                               required_sites=("documented-compatible-changes-accepted", "emitters-total", "only-known-statement-forms", "only-known-serializer-forms",
                                               "bulk-path-preserves-element-function"),
                               assumptions=C05_BULK_ASSUME,
                               desc="real Validate / ValidateEvolution on a symbolic record / alias change in a symbolic container context, then the real C++ types, IsTriviallySerializable, serializer, "
                                    "compatibility-serializer and protocol-method emitters, read back: at EVERY call of a runtime combinator that has a bulk (memcpy) path — "
                                    "{Read,Write}Vector / Array / NDArray..., ReadBlocksIntoVector — instantiated <T, F>, reached from any writer / reader method under any version: if T (the type the "
                                    "compatibility alias resolves to, i.e. the CURRENT definition) is trivially serializable by the runtime's and the generator's own rules, the memcpy image of T is "
                                    "exactly the wire plan the element function F reads / writes; otherwise the previous version's compatibility serializer is never called and sizeof(current T) bytes "
                                    "per element are read from / written to a stream laid out for the previous version"))
C05_STRUCT_PLANS = (G, "gosym_part", dict(name="c05_compat_struct_plans", entry="internal/zzverif.C05BulkBypass", args_quick=(1, 8, 3, 1), args_thorough=(2, 8, 6, 1),
                               extra_thorough=("-max-paths", "400000"), key_fn=c05_bulk_key,
                               required_sites=("documented-compatible-changes-accepted", "emitters-total", "only-known-statement-forms", "only-known-serializer-forms",
                                               "value-step-writes-one-value", "value-step-reads-one-value", "single-write-is-one-block", "batch-writes-every-item-once",
                                               "single-read-delivers-one-item", "batch-read-is-one-kernel-call", "batch-read-delivers-the-items-read"),
                               assumptions=C05_BULK_ASSUME + ["every combinator is given its element function's meaning here (the premise c05_compat_bulk_bypass decides), so that a wrong "
                                                              "compatibility serializer or a wrong routing of version_ is reported under its own key"] + CPP_PROTO_ASSUME,
                               desc="same models and emitted texts: for every listed previous version and Current, every writer (Write, batch Write, End) and reader (Read, batch Read) method routes "
                                    "version_ to a body that writes / reads exactly THAT version's wire format, with STRUCTURAL plans — a record is the sequence of its fields' plans, taken on the "
                                    "oracle side from that version's own validated model and on the emitted side from the stream calls of the (compatibility) serializer the body names "
                                    "(field added: not read, reset; field removed: read into / written from a temporary; field retyped: read / written in the old type); block rules as in C01"))
C05_ASSIGN_ASSUME = ["abstract store: every variable is stale (what the caller's reused object held) / zero (`= {}`, clear()) / set (assigned from the wire or from an expression over non-stale "
                     "variables); a stream read call assigns its whole argument (kernels: c17_cc_reuse; element functions: compat-reader-assigns-every-field of the same part); "
                     "`xs.resize(ys.size())` makes xs stale until the element loop over ys has stored a non-stale item at [i]",
                     "every data-dependent condition of the emitted code (has_value(), index() == k, switch (x.index()), range guards, the block read delivering an item) is a symbolic input; "
                     "`if constexpr (IsTriviallySerializable<T>::value)` is evaluated as in c05_compat_bulk_bypass; a catch (...) handler must re-throw",
                     "change kinds (one per TypeChange the analyser produces): " + "int32->int64, int64->int32, float64->int32, complexfloat64->complexfloat32, int32->string, string->int32, int32->int32?, "
                     "int32?->int32, int32->[string,int32], [string,int32]->int32, int32?->int64?, [null,int32,string]->int32?, int32?->[null,int32,string], [int32,string]->[int32,string,bool], "
                     "[int32,string,bool]->[string,int32], int32?->string?, unchanged; contexts: the step, vector element, stream item, field of a record that also gains (g: int32, o: string?) and "
                     "loses (h: string) fields as a step and as a stream item, alias target; the current protocol has two added steps (t: int32?, u: stream of int32); one emitted function per path",
                     "not covered: conversions nested two containers deep (vector of vector, optional of vector, fixed vector: emitted as ill-formed C++, known findings), maps / arrays (changes rejected)"]
C05_DEFINITE_ASSIGNMENT = (G, "gosym_part", dict(name="c05_definite_assignment", entry="internal/zzverif.C05DefiniteAssignment", args_quick=(16, 6, 0), args_thorough=(16, 6, 1),
                               extra_thorough=("-max-paths", "400000"), key_fn=c05_assign_key,
                               required_sites=("documented-compatible-changes-accepted", "emitters-total", "only-known-statement-forms", "read-target-definitely-assigned",
                                               "compat-reader-assigns-every-field", "written-value-definitely-assigned"),
                               assumptions=C05_ASSIGN_ASSUME,
                               desc="real Validate / ValidateEvolution on one change of every kind in a symbolic context, then the real serializer / compatibility-serializer / protocol-method emitters, "
                                    "read back and run on an abstract store with symbolic branch conditions: on every path that does not throw, a reader method that reports a value has assigned its "
                                    "(reused) destination — from the wire, from a conversion of what was read, or the documented zero value — and never left it as it was; a (compatibility) serializer "
                                    "reading a record assigns EVERY member of the destination (fields the previous version lacks are reset); whatever a writer passes to the stream was assigned or "
                                    "declared zero before"))

C13_IMPORTED_GENERICS = (G, "gosym_part", dict(name="c13_order_imported_generics", entry="internal/zzverif.C13ImportedGenerics", args_quick=(0, 1), args_thorough=(1, 2),
                               required_sites=("reordered-accepted", "reordered-does-not-panic", "same-schema", "dependencies-first", "oracle-sees-through-imported-generics",
                                               "same-field-plan", "same-python-serializer", "same-step-plan"),
                               assumptions=["model family: harness c13ImportedDefs: imported namespace Lib (Box<T>, Two<A,B>, Many<T> = T*) and 6 local definitions (Inner<T>, Wrapper<T> using "
                                            "Inner<T>, Seq<T> = T*n, enum Kind, record User, alias Top) where the local generics are mentioned only inside type arguments of the imported "
                                            "generics (Lib.Box<Wrapper<p>>, Lib.Many<Seq<Kind>>, Lib.Two<string, Lib.Box<Inner<p>>>, Lib.Two<User, Wrapper<Kind>>); quick: all 120 orders of "
                                            "the 5 non-enum definitions with the enum first or last, type-argument primitive symbolic; thorough: all 720 orders of the 6 definitions, enum base "
                                            "symbolic too; vector length symbolic; file layout (one / alternating / other file) derived from the order",
                                            "YAML text -> AST (yaml.v3, participle) is outside: models are built at the level dsl.Validate receives them"],
                               desc="real dsl.Validate + schema writer + python serializer emitter on local definitions that depend on each other through type arguments of imported generic "
                                    "types, listed in every order: accepted in every order, identical schema text / plans / serializer expressions, and every local definition listed "
                                    "after the local definitions it mentions (also inside type arguments of imported generics)"))

C19_CONV = dict(required_sites=("operand-is-the-declared-field", "operand-is-brought-to-the-result-type", "intermediate-holds-every-operand-value-the-result-type-holds"),
                assumptions=["specification lattice (harness, from the documented primitive types): integers by signedness and bits, float32 / complexfloat32 component = 24-bit significand, "
                             "float64 / complexfloat64 component = 53-bit significand; an intermediate type I of a chain S -> ... -> R is sound iff it holds every value of S or every (real) value of R",
                             "every backend emits one cast per TypeConversionExpression node of the resolved tree (C++ static_cast, MATLAB single()/double(), Python float()/complex()); the emitters' "
                             "casts themselves are covered by c19_py_computed"],
                desc="real dsl.Validate (resolveComputedFields, insertConversion, adjustConversion, GetCommonType) for symbolic numeric primitive types S, T (13 x 13) where a conversion arises "
                     "(arg 0: `a as T`; 1: `a op b` and `b op a`, 5 operators; 2: unification of switch-case expressions): the chain of TypeConversionExpression nodes above each operand starts at the "
                     "operand's declared type, ends at (the representation of) the static type of the expression, keeps a complex operand complex, and every intermediate type "
                     "can represent every operand value that the result type can represent")
C20V_ASSUME = ["versions scenario: the YAML decoding of _package.yml and model.yml is replaced by token readers of the same files; LoadPackage, collectPackages, collectVersions, "
               "fetchAndCachePackages, GetAllReferencedPackages, validatePackage, dsl.Validate, dsl.ValidateEvolution (incl. GetProtocolSchemaString of the predecessors) are real",
               "the C++ generator (the only backend whose output depends on predecessor versions) is replaced under gosym by a stand-in that writes, per version label and protocol, the previous "
               "schema text computed by the real ValidateEvolution or 'unchanged'; natively the real C++ generator runs and whole output trees are compared"]
C20V_DESC = ("package Main with imports ../imp (namespace Imp) and two predecessor versions v1 (imports ../impold, also namespace Imp) and v2 (imports ../imp), C++ and JSON output: after start-up the "
             "watch list contains every directory of the closure (main, imp, v1, impold, v2); every save lands in a symbolic one of the five directories with symbolic content (field type long / "
             "unknown type / int, symbolic 64-bit tag in the record comment); after quiescence the output equals the one-shot output for the final contents, the watcher is alive, cwd is the package directory")
C08_CHILD_REFS = (G, "gosym_part", dict(name="c08_child_references", entry="internal/zzverif.C08ChildReferences", args_quick=(4,), args_thorough=(5,),
                               extra_quick=("-max-paths", "100000"), extra_thorough=("-max-paths", "2000000"),
                               required_sites=("child-references-each-once", "child-references-only-referenced", "child-references-dependencies-first"),
                               desc="the real Namespace.GetAllChildReferences on every reference DAG over n namespaces (every list order, one optional repeated reference): each transitively "
                                    "referenced namespace exactly once, nothing else, every namespace after the namespaces it references (the order the generators emit per-namespace code in)"))


def c08_init_key(aid, events, outs):
    o = {x.get("key"): x.get("val", "") for x in (outs or []) if isinstance(x, dict)}
    if aid == "init-accepts=>scaffold-loads-and-validates":
        e = o.get("validate-error", "")
        cls = ("empty-name" if o.get("name", None) == "" else "namespace-reads-back-as-null" if "field is missing" in e else
               "namespace-not-pascal-cased" if "must be PascalCased" in e else "manifest-not-readable")
        return "c08:init-scaffold-rejected-by-validate:" + cls
    if aid == "init-rejects=>nothing-written":
        return "c08:init-leaves-partial-scaffold"
    return "c08_init_scaffold:" + aid


C08_INIT_PART = (G, "gosym_part", dict(name="c08_init_scaffold", entry="internal/cmd.VerifC08InitScaffold", args_quick=(1,), args_thorough=(1,), key_fn=c08_init_key, oracle=True,
                               required_sites=("init-accepts=>scaffold-loads-and-validates", "init-rejects=>nothing-written", "existing-files-are-never-overwritten",
                                               "existing-package-is-refused", "namespace-is-the-documented-derivation", "scaffold-model-is-the-shipped-example",
                                               "scaffold-enables-the-documented-targets", "ordinary-name-is-accepted"),
                               assumptions=["the package name is a symbolic string over a 29-word vocabulary (plain / Pascal / separators - _ space / digits first and inside / . : # {} quotes / null Null NULL ~ "
                                            "true yes on nan / reserved words class int namespace import end / non-ASCII / empty / 70 characters); 7 states of the current directory (fresh, empty model "
                                            "directory, manifest exists, model.yml exists, both exist, `model` is a regular file, another model file exists)",
                                            "text/template runs natively inside the engine on the concrete template text; os.OpenFile / Write / Remove / MkdirAll on the virtual file system; the YAML TEXT init "
                                            "wrote is parsed by the real yaml.v3 parser in the native oracle (kind yaml.Documents) and decoded by the engine's decode model into yardl's own UnmarshalYAML methods; "
                                            "updatePackageInfoFromArgs (koanf) is the only seam; natively everything is real",
                                            "the scaffold is validated (validateImpl = LoadPackage + validatePackage), the C++ / Python / MATLAB generators are not run on it here"],
                               desc="the REAL initImpl (`yardl init <name>`) for a symbolic name in every state of the current directory, followed by the real validateImpl on what it wrote: init accepts => the "
                                    "scaffold loads and validates, its namespace is the Pascal-cased name, model.yml is the shipped example, cpp / python / matlab are enabled as documented; init rejects => the "
                                    "files on disk are exactly what they were (no partial scaffold); existing files are never overwritten and an existing package is refused; ordinary names are accepted"))

C12_WRITE_IF_NEEDED = (G, "gosym_part", dict(name="c12_write_if_needed", entry="internal/zzverif.C12WriteIfNeeded",
                               required_sites=("untouched-iff-identical", "created-when-missing", "final-content"),
                               desc="iocommon.WriteFileIfNeeded on symbolic old/new contents (SMT strings): a write happens iff contents differ or the file is missing",
                               assumptions=["os.ReadFile/WriteFile modelled by the virtual file system in env_intrinsics.go"]))


# ---- helper4B: emitted-C++ read-back parts (record converters, constructors, fallback batch read, names, switch expressions) ----
C02_CPP_RECORD_PART = (G, "gosym_part", dict(name="c02_cpp_record_converters", entry="internal/zzverif.C02CppRecord", args_quick=(3, 4, 2, 1), args_thorough=(3, 6, 2, 1),
                               required_sites=("only-known-statement-forms", "record-json-is-an-object", "object-has-no-other-keys", "field-present-under-its-model-name",
                                               "null-nullable-field-is-skipped", "from-json-accepts-what-to-json-wrote", "round-trip"),
                               assumptions=["nlohmann::ordered_json meaning transcribed in harness/go/internal/zzverif/zz_c02_cpprecord.go (validated against nlohmann/json 3.11 with g++): "
                                            "push_back({k, v}) inserts into an object but turns a null value into an ARRAY, operator[] / emplace turn null into an object, find on a non-object is end(), "
                                            "get_to assigns; ShouldSerializeFieldValue = has_value() / index() != 0 / true by member type (include/detail/ndjson/serializers.h)",
                                            "the struct is read back from the emitted types.h text (member types and names); member contents are abstract 64-bit values"],
                               desc="cpp/ndjson.writeRecordConverters on a record accepted by the real dsl.Validate with 1-3 fields of symbolic kinds (int, string?, [null,int,string], int*; thorough: "
                                    "+ optional record, non-null union), names incl. camelCase / reserved words, and a symbolic value (null state and content of every member): the emitted to_json "
                                    "evaluated on a null json yields a JSON OBJECT (never null / array) whose keys are exactly the model names of the fields that are not (nullable and null); the "
                                    "emitted from_json of that object gives the value back, into a value-initialised destination AND into a reused destination holding an arbitrary previous value "
                                    "(what CopyTo / batch reads do)"))
C05_CPP_CTORS_PART = (G, "gosym_part", dict(name="c05_cpp_binary_constructors", entry="internal/zzverif.C05CppConstructors", args_quick=(2, 4, 3), args_thorough=(3, 6, 6),
                               extra_thorough=("-max-paths", "400000"),
                               required_sites=("generated-class-and-constructors-understood", "writer-opens-the-stream-it-was-given", "writer-stores-the-version-it-was-asked-for",
                                               "header-schema-is-the-schema-of-the-version-the-writer-converts-to", "reader-opens-the-stream-it-was-given",
                                               "reader-version-is-a-version-with-the-schema-read", "stream-and-file-name-constructors-generated"),
                               assumptions=["binary/protocols.h is read back line-wise (class heads with base classes, constructors with parameter lists, default arguments and mem-initialiser lists); the "
                                            "mem-initialisers are evaluated on the translation unit of protocols.h/.cc as read by zz_c04_cppschemas.go (SchemaFromVersion, VersionFromSchema, schema_ evaluated)",
                                            "yardl::binary::BinaryWriter(dest, schema) writes `schema` into the stream header; yardl::binary::BinaryReader(src) leaves the header's schema in schema_read_ "
                                            "(include/detail/binary/reader_writer.h; the kernels are C15's llsym part)"],
                               desc="same model family as c04_cpp_schema_tables (m previous versions, symbolic labels and change kinds, real Validate + ValidateEvolution): for EVERY constructor of the "
                                    "generated Binary<P>Writer (std::ostream& and file-name overloads), every enumerator of Version as argument and the default argument: version_ is the version asked "
                                    "for and the schema handed to the base class is that version's own schema; for every constructor of Binary<P>Reader and every version's schema in the header: "
                                    "version_ is a version with exactly that schema; both overloads exist and open the stream / file they were given"))
C17_CPP_FALLBACK_PART = (G, "gosym_part", dict(name="c17_cpp_fallback_batch_read", entry="internal/zzverif.C17CppFallbackBatch", args_quick=(3, 4, 2), args_thorough=(4, 6, 3),
                               required_sites=("only-known-statement-forms", "vector-holds-exactly-the-items-read", "items-are-the-fresh-ones-in-stream-order", "returns-true-iff-an-item-was-delivered",
                                               "fallback-returns-true-iff-filled-to-capacity", "no-undefined-vector-access-no-reallocation-no-read-past-the-end", "capacity-unchanged"),
                               assumptions=["std::vector meaning transcribed in zz_c17_fallback.go: resize keeps the first min(size, n) elements and value-initialises the rest, pop_back, clear, v[i] needs "
                                            "i < size, capacity grows only when exceeded; `unlikely(state_ != N)` is false (the reader is at this step: order checking is C07's)",
                                            "the single-item Read<Step>Impl(T&) delivers the next item while any is left and reports the end exactly once"],
                               desc="cpp/protocols.writeDefinitions: the public Read<Step>(std::vector<T>&) and the fallback Read<Step>Impl(std::vector<T>&) inherited by the NDJSON / HDF5 readers, "
                                    "interpreted on an abstract vector with SYMBOLIC previous size p <= capacity c (1..3/4) and k (0..4/6) items left in the stream: afterwards the vector holds exactly "
                                    "the min(c, k) freshly read items in order (no stale item of an earlier batch, no filler), the call returns true iff an item was delivered, the fallback returns "
                                    "true iff it filled the vector to its capacity, no out-of-range access, no reallocation, no read after the end of the stream"))
C08_RESERVED_PART = (G, "gosym_part", dict(name="c08_reserved_names", entry="internal/zzverif.C08ReservedNames", args_quick=(7, 2), args_thorough=(7, 5),
                               required_sites=("identifier-is-not-a-reserved-word", "identifier-is-well-formed", "emitted-member-is-not-a-reserved-word", "emitted-enumerator-is-not-a-reserved-word",
                                               "emitted-type-name-is-not-a-reserved-word"),
                               assumptions=["reserved words transcribed from ISO C++20 [lex.key] tables 5 and 6 (keywords, alternative tokens) and Python 3.12 keyword.kwlist; library macro / typedef "
                                            "names (int8_t, INT8_MAX, ...) are not asserted",
                                            "regexp2 (ToSnakeCase) runs natively on concrete strings: the model name is a symbolic CHOICE over the derived vocabulary, not a symbolic string"],
                               desc="every naming function of internal/cpp/common and internal/python/common (field, computed field, enum value, type, version label, namespace, protocol method names) on "
                                    "a model name that is symbolic over a vocabulary derived from the reserved-word list itself: for each reserved word its camelCase / PascalCase / verbatim / glued "
                                    "spelling (not_eq -> notEq, NotEq, not_eq, noteq; char8_t -> char8T ...) alone and followed by Field (thorough: Value, Type, Version): the identifier is well formed "
                                    "and never a reserved word; in addition a record / enum / protocol carrying the name goes through the real dsl.Validate and the struct members and enumerators read "
                                    "back from the emitted types.h are not reserved words"))


def c08_injective_key(aid, events, outs):
    if aid == "distinct-names-give-distinct-identifiers":
        return "c08:identifier-mapping-not-injective"
    return "c08_identifier_injectivity:" + aid


C08_INJECTIVE_PART = (G, "gosym_part", dict(name="c08_identifier_injectivity", entry="internal/zzverif.C08IdentifierInjectivity", args_quick=(3, 2), args_thorough=(3, 5),
                               required_sites=("distinct-names-give-distinct-identifiers",), key_fn=c08_injective_key,
                               assumptions=["vocabulary as in c08_reserved_names; pairs of different spellings derived from the same reserved word"],
                               desc="two distinct model names that the same naming function accepts (fields / enum symbols / steps of one definition) must be given distinct identifiers. KNOWN to fail "
                                    "on the unchanged tree (key c08:identifier-mapping-not-injective): C++ fields `alignas` and `alignasField` (also `int` / `intField`) both become `*_field`; "
                                    "`int8T` / `int8t` both become `int8t` in C++ and Python; validateRecordFieldNames compares model spellings only"))
C08_SWITCH_PART = (G, "gosym_part", dict(name="c08_switch_expressions", entry="internal/zzverif.C08Switch", args_quick=(2, 4, 1, 15), args_thorough=(3, 4, 2, 15),
                               extra_thorough=("-max-paths", "400000"),
                               required_sites=("well-formed-switch-validates", "cpp-text-is-one-complete-expression", "cpp-only-known-forms", "cpp-every-identifier-is-declared-in-scope",
                                               "cpp-every-identifier-is-captured-by-the-enclosing-lambdas", "cpp-switch-denotes-the-source-switch",
                                               "python-every-identifier-is-assigned-before-use", "python-switch-denotes-the-source-switch",
                                               "matlab-every-identifier-is-assigned-before-use", "matlab-switch-denotes-the-source-switch"),
                               assumptions=["emitted C++ read back as immediately-invoked lambdas / std::visit with if, if constexpr, reference declarations and return; Python / MATLAB as assignments, if "
                                            "blocks and return (zz_c08_switch.go); case expressions are read by the expression readers of zz_c08_cppexpr.go",
                                            "documented type mapping int -> int32_t, string -> std::string, null -> std::monostate; Python union case class = PascalCased tag; MATLAB case index = position "
                                            "among the non-null cases",
                                            "the generated switches are the well-formed ones (every case reachable, all alternatives covered); dsl.Validate must accept them"],
                               desc="computed field = !switch over an optional / union / nullable union / single-type field, 1-2 (3) cases with symbolic patterns {type, declaration, discard, null}, one case "
                                    "expression using the declared variable or being a NESTED switch whose own case expressions use the outer variable (and their own); real dsl.Validate (incl. the "
                                    "rewrite that drops unused declarations), then the real C++ / Python / MATLAB emitters; for every combination of active alternatives the emitted text, evaluated "
                                    "with the target language's scoping (C++ lambda captures included), declares every identifier it uses and returns what the source switch denotes (the first "
                                    "matching case's OWN expression), computed from the harness's description of the switch"))
C08_NO_SHADOW_PART = (G, "gosym_part", dict(name="c08_cpp_no_shadowing", entry="internal/zzverif.C08CppNoShadowing", args_quick=(0, 6, 2, 5), args_thorough=(0, 6, 3, 5),
                               required_sites=("only-known-statement-forms", "declaration-does-not-hide-a-name-in-scope", "equality-operator-understood",
                                               "equality-compares-each-member-of-this-with-the-same-member-of-the-other-object"),
                               assumptions=["function bodies of binary/protocols.cc read back by zz_cppstmt.go; declarations recognised: `T name [= init]`, for-init, range-for, if-init",
                                            "single-level vectors only: the inner loop of a vector-of-vector conversion re-declaring i / item is the known finding c05:nested-vector-conversion-shadows-loop-variable"],
                               desc="record with 2 (3) fields whose names are symbolic over {value, stream, other, i, item, plain} and whose change from the previous version is symbolic (unchanged, removed, "
                                    "int -> long, int? -> long?, int* -> long*), or two converted protocol steps (int -> long, plain and stream) whose NAMES are symbolic over {count, value, values, readBlockSuccessful, "
                                    "stream, items}; real Validate + ValidateEvolution: in every emitted serializer, compatibility serializer and reader / writer method no "
                                    "declaration has the name of a parameter or of a variable declared in an enclosing or the same scope; the struct's operator==, read back with C++ name lookup (a "
                                    "parameter hides a member), compares each member of *this with the same member of the other object"))

C09_SCOPES_PART = (G, "gosym_part", dict(name="c09_scopes", entry="internal/zzverif.C09Scopes", key_fn=c09_key,
                               required_sites=("violation-rejected", "error-names-offending-file", "own-type-parameter-accepted", "no-panic"), assumptions=C09_GENERIC_ASSUME,
                               desc="scope of type-parameter names: a reference spelled like a type parameter of ANOTHER definition (symbolic name: second parameter of an earlier "
                                    "generic record / parameter of an earlier generic alias of the same namespace, of the base model's Pair, of a generic of an imported namespace, of a "
                                    "generic only the imported namespace has, of a LATER definition, or nobody's) at 13 positions (the 10 of c09_type_rules, argument of a nested "
                                    "imported generic, map key, computed-field conversion target) x host definition {not generic, generic with other parameters, declares the name "
                                    "itself} x {main, imported namespace}: rejected naming the file, unless the host declares the name (then accepted)"))

C08_REF_RETURNS_PART = (G, "gosym_part", dict(name="c08_cpp_reference_returns", entry="internal/zzverif.C08CppReferenceReturns", args_quick=(2, 2), args_thorough=(3, 6),
                               extra_thorough=("-max-paths", "400000"),
                               required_sites=("well-typed-reference-path-is-accepted", "struct-has-one-member-per-field-and-one-const-accessor-per-computed-field",
                                               "reference-return-is-a-known-expression-form", "reference-return-denotes-an-object-that-lives-as-long-as-this",
                                               "reference-return-binds-an-object-of-the-declared-type", "mutable-overload-delegates-to-a-reference-returning-const-accessor"),
                               assumptions=["emitted types.h of the namespace read back (zz_c08_refreturn.go): structs with data members, const accessors (declared return type, body), non-const overloads, "
                                            "`using` aliases; returned expressions read by the C++ expression reader of zz_c08_cppexpr.go / zz_c08_switch.go",
                                            "C++ meaning given to the forms: a data member of *this / of an object is part of that object; an accessor call yields a reference into the object it is applied to "
                                            "iff the accessor is DECLARED `T const&` (each accessor is subject to the same obligation, computed fields are acyclic), else a temporary; std::vector / std::array / "
                                            "std::unordered_map `.at`, `[]` and yardl::at(array, idx...) (`T const& at(Array const&, ...)` in yardl/detail/ndarray/impl.h) return a reference into their "
                                            "target; operators, std::pow, static_cast, literals, size(), yardl::size/shape/dimension and lambda calls / std::visit returning by value yield temporaries",
                                            "records Leaf / Inner / Outer (fields of a symbolic primitive P, vector, fixed vector, map, fixed / non-fixed / dynamic array, vector of records, record through an "
                                            "alias; helper computed fields: plain field, arithmetic, record / vector / map / array COPY via a single-case !switch, record / vector field, nested field, "
                                            "nested reference-returning computed field); Outer.c = a type-directed reference path of <= 2 (3) steps `.member` / `[index]` from any field or computed field, "
                                            "or the path wrapped in + 1, unary minus, `as float64`, a !switch case, size(), or a literal; P over 2 (6) primitives"],
                               desc="for every computed field whose emitted C++ accessor is DECLARED to return a reference (`T const&`, with its `T&` overload), the returned expression - read back from the "
                                    "emitted text through the real dsl.Validate and the real cpp/types generator - denotes an object that lives as long as *this and has the declared type (a field, a "
                                    "member path of such objects, a reference-returning accessor applied to such an object, an element of such a container), never a temporary (by-value accessor call, "
                                    "arithmetic, conversion, lambda call) or a part of one; the non-const overload delegates to a reference-returning const accessor"))

C06_REMOVALS_PART = (G, "gosym_part", dict(name="c06_removals", entry="internal/zzverif.C06Removal",
                               required_sites=("both-versions-valid", "verdict-without-panic", "removed-protocol-is-reported-not-silent", "every-diagnostic-is-located"),
                               assumptions=["the latest version = the previous one minus a symbolic selection (protocol P, protocol Q, every type definition); an empty latest model is a valid model",
                                            "whether a removed protocol is a warning or an error is not asserted (the documentation does not say); it must be mentioned, and every warning must carry a file"],
                               desc="definitions disappear between versions (down to an EMPTY latest model): the real ValidateEvolution returns a verdict without panicking, mentions every removed "
                                    "protocol and locates every warning in a model file"))

C09_CROSSNS_PART = (G, "gosym_part", dict(name="c09_cross_namespace_cycles", entry="internal/zzverif.C09CrossNamespaceCycle",
                               required_sites=("validate-terminates-without-panic", "acyclic-definitions-accepted", "cross-namespace-cycle-rejected", "error-names-a-model-file"),
                               assumptions=["Main imports Dep; Dep names a type of Main (the environment's symbol table holds every namespace, so the name resolves although Dep does not import Main); "
                                            "back-reference written directly / as optional / vector / map value; the cycle may run through one more record of either namespace",
                                            "a cycle of records is 'not supported' in the validator's own words: every generator recurses through definitions (accepted, it overflows the stack of `yardl generate`)"],
                               desc="a reference cycle whose members lie in two namespaces (Main.Foo -> Dep.Bar -> Main.Foo, optionally through one more record): the real dsl.Validate terminates without "
                                    "panic, rejects the model naming a model file, and accepts the same definitions without the back-reference"))

C09_MAPKEY_PART = (G, "gosym_part", dict(name="c09_generic_map_keys", entry="internal/zzverif.C09GenericMapKey",
                               required_sites=("no-panic", "instantiated-key-position-has-the-verdict-of-the-map-written-out", "error-names-the-file-of-the-instantiation"),
                               assumptions=C09_GENERIC_ASSUME + ["metamorphic oracle: the verdict of the real dsl.Validate on the map written out (X->int) in the same position",
                                                                 "key arguments: string, int, an alias of string, a record, an enum, an alias of a vector, an imported record; carriers: Lib.Dict<X,int> (= K->V), "
                                                                 "a local generic alias of it, Lib.Box<Lib.Dict<X,int>>, a generic record with a map field keyed by its parameter; as record field, alias target, step; "
                                                                 "in the main or the imported namespace"],
                               desc="the key position of a generic map alias / of a generic record's map field filled by a type argument: accepted iff the same map written out is accepted, "
                                    "and a rejection names the file in which the instantiation is written"))

C09_YAML_TYPEARGS_PART = (G, "gosym_part", dict(name="c09_yaml_type_argument_unions", entry="internal/zzverif.C09YamlTypeArgs", oracle=True,
                               required_sites=("unmarshal-does-not-panic", "validate-does-not-panic", "union-written-as-a-type-argument-has-the-verdict-of-the-union-written-in-place"),
                               assumptions=["yaml.Node documents through yardl's own UnmarshalYAML (engine model of yaml.v3 decoding, validated by the native replays on the real decoder) and the real dsl.Validate",
                                            "metamorphic oracle: the verdict on the same union written in place; unions: [int, float], [int, int], [int, null], [null], [uint64, size], [null, int, string], "
                                            "[string, int, string]; the instantiated form as a record field, an alias target, a protocol step"],
                               desc="a well- or ill-formed union written as a type argument (`!generic {name: G, args: [U]}`) through the real YAML layer (real source positions) and the real "
                                    "validator: rejected iff the union written in place is rejected"))


C09_UNARY_PART = (G, "gosym_part", dict(name="c09_unary_operand", entry="internal/zzverif.C09UnaryOperand",
                               required_sites=("no-panic", "negation-is-defined-iff-subtraction-is"),
                               assumptions=["metamorphic oracle: the verdict of the real validator on `x - x` (unary minus is not documented; an arithmetic operator is defined for numeric operands)",
                                            "operand: a field of an integer (4 primitives), floating-point / complex (3), string, vector, fixed vector, array, dynamic array, map, optional, union or record type"],
                               desc="`-x` as a computed field for a symbolic operand field: accepted by the real dsl.Validate iff `x - x` is"))


PARTS = {
    "C08": [
        C08_RESERVED_PART,   # identifiers derived from model names are never C++ / Python reserved words
        C08_INJECTIVE_PART,   # ... and distinct names stay distinct (known finding c08:identifier-mapping-not-injective)
        C08_SWITCH_PART,   # emitted !switch expressions declare what they use (C++ captures included) and denote the source switch
        C08_NO_SHADOW_PART,   # no emitted declaration hides a parameter / enclosing local; operator== is not confused by a field named like its parameter
        C08_REF_RETURNS_PART,   # a C++ computed-field accessor declared to return a reference never returns a temporary (or a part of one)
        C04_CPP_LABELS_PART,   # version labels become distinct, keyword-free C++ enumerators
        C08_EXPR_PART,   # emitted C++ / Python / MATLAB computed-field expressions are complete, side-effect-free expressions of their language
        C13_IMPORTED_GENERICS,   # definitions come out dependencies-first (also through type arguments of imported generics): generated Python modules import, C++ declares before use
        (G, "gosym_part", dict(name="c08_python_package", entry="internal/zzverif.C08PythonPackage",
                               required_sites=("generation-does-not-panic", "generation-succeeds", "imported-module-was-generated", "ndjson-written-iff-enabled"),
                               assumptions=["iocommon.CopyEmbeddedStaticFiles replaced by a no-op under gosym (embedded runtime files are not modelled); os.* on the virtual file system",
                                            "model: harness baseModel in a main namespace (with or without protocols) importing a types-only namespace"],
                               desc="the real python.Generate (types, protocols, binary, ndjson, __init__ writers) on a two-namespace model with symbolic generateNDJson and with/without "
                                    "protocols: completes without panic, and every module imported by a generated __init__.py from its own package was written")),
        (G, "gosym_part", dict(name="c08_python_imports", entry="internal/zzverif.C08PythonImports",
                               required_sites=("generation-does-not-panic", "generation-succeeds", "relative-import-resolves", "used-namespace-is-imported",
                                               "dtype-registered-before-use", "ndjson-written-iff-enabled", "one-package-per-namespace"),
                               assumptions=["iocommon.CopyEmbeddedStaticFiles replaced by a no-op under gosym: the runtime modules yardl_types/_dtypes/_binary (and _ndjson iff generateNDJson) are taken "
                                            "to be present next to the top-level package (checked against the real copy in the native replays)",
                                            "model: Top (with or without protocols) with no imports, or importing Mid -> Base as a chain, or Mid and Base directly in either list order; "
                                            "Mid has records with Base record / enum / generic-instance / union fields"],
                               desc="the real python.Generate for every generateNDJson x has-protocols x import-shape combination, emitted Python read back: every relative import of every generated "
                                    "module (__init__, types, protocols, binary, ndjson of the top-level package and of every sub-package) resolves to a module written in the same run; every "
                                    "namespace identifier a module uses is imported there (directly or via a star-imported sibling); in every types.py the dtype registrations are "
                                    "dependencies-first (an eagerly evaluated registration only mentions keys registered by earlier statements)")),
        C08_CHILD_REFS,
        (G, "gosym_part", dict(name="c08_python_names", entry="internal/zzverif.C08PythonNames", args_quick=(0,), args_thorough=(1,),
                               extra_quick=("-max-steps", "40000000"), extra_thorough=("-max-steps", "40000000"),
                               required_sites=("generation-does-not-panic", "generation-succeeds", "class-defined-once-per-module", "python-name-resolves",
                                               "union-serializer-class-resolves", "union-option-names-a-tag-of-its-class", "name-imported-from-types-is-defined-there",
                                               "one-types-module-per-namespace"),
                               assumptions=["iocommon.CopyEmbeddedStaticFiles replaced by a no-op under gosym (the runtime modules are not read)",
                                            "model family of c08_cpp_package (quick: no / all definition kinds; thorough: all 16 subsets; import shapes x protocols x symbolic generateNDJson) "
                                            "plus, under the unions feature, in every namespace: a named union with a case that is a vector of an anonymous union, a named vector of a union, "
                                            "a record with fields of both, and protocol steps of them",
                                            "emitted Python read back line by line (zz_c08_pynames.go): class statements, `X.Tag = type(...)` assignments, enum members, column-0 alias "
                                            "statements, constructor signatures, dtype registrations outside lambdas, UnionSerializer / UnionConverter expressions, `from .types import` lists; "
                                            "a class use is a dotted name whose head is PascalCase or a namespace identifier (generated class names are model names, which the family spells in PascalCase)"],
                               desc="the complete real python.Generate on the shared package family, emitted Python read back: in every types.py no class is defined twice (a second "
                                    "definition replaces the first and its tags); every class name evaluated at import time (constructor defaults and annotations, alias right-hand sides, "
                                    "eager dtype registrations) is bound in the types module it comes from and every `X.Tag` is an attribute the class bound to X has; every "
                                    "UnionSerializer / UnionConverter of binary.py / ndjson.py is built for a class that resolves and all its options name tags of that class; every name "
                                    "imported from .types by __init__ / protocols / binary / ndjson is bound there")),
        (G, "gosym_part", dict(name="c08_cpp_package", entry="internal/zzverif.C08CppPackage", args_quick=(0,), args_thorough=(1,),
                               extra_quick=("-max-steps", "40000000"), extra_thorough=("-max-steps", "40000000", "-max-paths", "100000"),
                               required_sites=("generation-does-not-panic", "generation-succeeds", "quoted-include-resolves", "no-include-of-a-disabled-format",
                                               "format-files-written-iff-enabled", "shipped-headers-copied-iff-format-enabled", "cmake-written-iff-enabled",
                                               "cmake-script-understood", "cmake-sources-exist", "cmake-lists-every-generated-source", "cmake-links-format-library-iff-enabled",
                                               "cmake-requires-cxx17", "declaration-visible-where-named", "override-header-replaces-default", "override-changes-no-other-include"),
                               assumptions=["documented options only (docs/cpp/packages.md, arrays.md): generateNDJson, generateHDF5, generateCMakeLists symbolic, overrideArrayHeader unset and set "
                                            "(every path generates both ways); the undocumented internal options (mocks, translator, symlinked static headers) stay off",
                                            "model family: Top alone | Top -> Base (types only) | Top -> Mid -> Base, with / without protocols in Top, definitions with / without generics "
                                            "(record, closed and open alias, imported generic instantiated with local and imported arguments), enum + flags, unions (named and inline, "
                                            "imported cases), computed fields (arithmetic and reference-returning, through imported records); quick: no / all definition kinds, "
                                            "thorough: all 16 subsets and two spellings of the override header",
                                            "embed.FS is an engine model (embed_intrinsics.go): the embedded file systems are read from the package directories of the tree under test, so the "
                                            "real iocommon.CopyEmbeddedStaticFiles runs (no stub); yardl.h goes through the text/template model of text_intrinsics.go; the native replays run "
                                            "the real packages",
                                            "file-level well-formedness only: the output is not compiled; CMake options are evaluated at their declared defaults; a third-party name belongs to "
                                            "a format if it contains hdf5 / h5 / json"],
                               desc="the complete real cpp.Generate (yardl.h template, real static-header copy, types, protocols, binary, ndjson, hdf5, CMakeLists) on a virtual file system "
                                    "for every option x import-shape x definition-kind combination, emitted text read back: every quoted #include of every file of the output tree "
                                    "resolves inside the tree; format-specific generated and shipped files exist iff the format is enabled and nothing includes a disabled format's file "
                                    "or third-party header; CMakeLists.txt (read as a script) is written iff enabled, builds exactly the generated .cc files, links and finds the HDF5 / "
                                    "JSON packages iff enabled and requires C++17; every `ns::Name` of a model namespace used in a generated file is declared above the use, in the "
                                    "file or in a (transitively) included one; the override array header stands exactly where the default one would be included")),
        (G, "gosym_part", dict(name="c08_matlab_package", entry="internal/zzverif.C08MatlabPackage", args_quick=(0,), args_thorough=(1,),
                               extra_quick=("-max-steps", "40000000"), extra_thorough=("-max-steps", "40000000"),
                               required_sites=("generation-does-not-panic", "generation-succeeds", "file-defines-what-it-is-named-after", "qualified-reference-resolves", "qualified-reference-of-a-shipped-file-resolves",
                                               "one-package-per-namespace"),
                               assumptions=["matlab has no documented options; internalGenerateMocks / internalSymlinkStaticFiles stay off",
                                            "model family as c08_cpp_package (quick: no / all definition kinds; thorough: all 16 subsets)",
                                            "embed.FS is an engine model reading the shipped static files from the package directory of the tree under test (native replays: the real embed)"],
                               desc="the complete real matlab.Generate (static file copy, types, protocols, binary serializers) on a virtual file system for every import-shape x "
                                    "definition-kind combination, emitted MATLAB read back: every .m file defines exactly one classdef / function, named like the file; every qualified "
                                    "name `pkg.sub.Name` in a generated file whose head is a generated package or `yardl` (code and class-name strings) resolves to a file "
                                    "+pkg/+sub/Name.m written or copied in the same run (dangling names inside the shipped +yardl files are recorded, not asserted)")),
        C08_INIT_PART,   # the scaffold `yardl init <name>` writes for any name it accepts is a package yardl accepts; a refused init leaves nothing behind
    ],
    "C07": [
        (PYG, "c07_py_protocols", dict()),
        (PYG, "c17_py_protocol_batches", dict()),   # a stream step written by several calls (also right after another stream step) is one stream: no end marker between the calls
        (G, "gosym_part", dict(name="c07_cpp_writer", entry="internal/zzverif.C07CppWriter", args_quick=(3, 0), args_thorough=(5, 0), key_fn=c07_key,
                               required_sites=("raises-iff-out-of-order", "impl-called-iff-accepted", "post-state-is-next-step", "only-known-statement-forms"), assumptions=C07_ASSUME,
                               desc="cpp/protocols.writeDefinitions on every stream/non-stream pattern of n steps (symbolic flags); one-step simulation of each emitted writer method "
                                    "(Write, batch Write, End, Close) from an arbitrary reachable state against the declaration-order automaton")),
        (G, "gosym_part", dict(name="c07_cpp_reader", entry="internal/zzverif.C07CppReader", args_quick=(3, 0), args_thorough=(5, 0), key_fn=c07_key,
                               required_sites=("raises-iff-out-of-order", "impl-called-iff-accepted", "stream-end-observed", "batch-end-recorded-as-unobserved",
                                               "ended-stream-reports-end-without-reading", "only-known-statement-forms"), assumptions=C07_ASSUME,
                               desc="same for the reader (single and batch Read overloads, Close), including the 'batch read hit the end, completion not yet observed' states")),
        (G, "gosym_part", dict(name="c07_cpp_writer_long", entry="internal/zzverif.C07CppWriter", args_quick=(256, 2), args_thorough=(257, 2), key_fn=c07_key,
                               required_sites=("raises-iff-out-of-order",), assumptions=C07_ASSUME,
                               desc="writer of a 256-step protocol, last steps and Close (state member must not wrap)")),
        (G, "gosym_part", dict(name="c07_cpp_reader_long", entry="internal/zzverif.C07CppReader", args_quick=(128, 1), args_thorough=(129, 1), key_fn=c07_key, tiers=("thorough",),
                               required_sites=("raises-iff-out-of-order",), assumptions=C07_ASSUME,
                               desc="reader of a 128-step all-stream protocol, last steps and Close")),
        # MATLAB backend (helper): the emitted <P>WriterBase.m / <P>ReaderBase.m read back as classes and interpreted (zz_c07_matlab.go)
        (G, "gosym_part", dict(name="c07_matlab_writer", entry="internal/zzverif.C07MatlabWriter", args_quick=(3, 0), args_thorough=(5, 0),
                               required_sites=("raises-iff-out-of-order", "accepted-call-calls-exactly-its-hooks", "post-state-is-the-successor", "refused-call-calls-no-hook",
                                               "refused-call-leaves-state-unchanged", "close-raises-iff-a-step-is-incomplete", "error-names-the-expected-step",
                                               "distinct-states-have-distinct-exact-numbers", "declaration-order-run-is-accepted", "only-known-statement-forms"), assumptions=C07M_ASSUME,
                               desc="real matlab/protocols.WriteProtocols on every stream/non-stream pattern of 1..n steps; the emitted writer class interpreted; one-step simulation "
                                    "from a symbolic state_ (one of the state numbers read from the text) for an arbitrary public method (write_<s>, end_<s>, close) against the "
                                    "declaration-order automaton: accepted iff in order, exactly the hooks due, successor state; refused: raises naming the expected step, no hook, state unchanged")),
        (G, "gosym_part", dict(name="c07_matlab_reader", entry="internal/zzverif.C07MatlabReader", args_quick=(3, 0, 1), args_thorough=(5, 0, 2),
                               required_sites=("raises-iff-out-of-order", "accepted-call-calls-exactly-its-hooks", "post-state-is-the-successor", "stream-continues", "stream-end-observed",
                                               "has-returns-what-the-stream-answered", "read-returns-the-value-read", "refused-call-calls-no-hook", "refused-call-leaves-state-unchanged",
                                               "close-raises-iff-a-step-is-incomplete", "error-names-the-expected-step", "copy-to-reads-and-writes-every-step-in-declaration-order",
                                               "copy-to-leaves-both-in-their-final-state", "copy-to-of-a-used-reader-raises-before-any-hook", "only-known-statement-forms"), assumptions=C07M_ASSUME,
                               desc="same for the emitted reader class (read_<s>, has_<s>, close, copy_to; has_ answers are symbolic); copy_to runs against the emitted writer class "
                                    "(streams of up to 1 (2) items)")),
        (G, "gosym_part", dict(name="c07_matlab_writer_long", entry="internal/zzverif.C07MatlabWriter", args_quick=(300, 3), args_thorough=(1000, 3),
                               extra_quick=("-max-steps", "100000000"), extra_thorough=("-max-steps", "400000000"),
                               required_sites=("raises-iff-out-of-order", "distinct-states-have-distinct-exact-numbers", "declaration-order-run-is-accepted"), assumptions=C07M_ASSUME,
                               desc="writer of a 300-step protocol (every third step a stream): all 301 state numbers distinct and exact in a double, the declaration-order run accepted, "
                                    "one-step simulation at both ends of the numbering")),
        (G, "gosym_part", dict(name="c07_matlab_reader_long", entry="internal/zzverif.C07MatlabReader", args_quick=(300, 3, 1), args_thorough=(300, 3, 1), tiers=("thorough",),
                               extra_quick=("-max-steps", "100000000"), extra_thorough=("-max-steps", "100000000"),
                               required_sites=("raises-iff-out-of-order", "distinct-states-have-distinct-exact-numbers", "declaration-order-run-is-accepted"), assumptions=C07M_ASSUME,
                               desc="reader of a 300-step protocol, same")),
    ],
    "C05": [
        C05_CPP_CTORS_PART,   # every generated constructor pairs version_ with that version's own header schema
        C08_NO_SHADOW_PART,   # temporaries of compatibility serializers never hide the serializer's parameters or each other
        (G, "gosym_part", dict(name="c05_int_conversion_read", entry="internal/zzverif.C05IntConversion", args_quick=(0,), args_thorough=(0,), key_fn=c05_key,
                               required_sites=("no-silent-wrap", "no-spurious-overflow-error", "guard-throws", "assigns-static-cast-to-target"), assumptions=C05_ASSUME,
                               desc="cpp/binary.writeTypeConversion for TypeChangeNumberToNumber on a symbolic (old, new) pair of the 9 integer primitives, reading an old stream: "
                                    "for every 64-bit value of the old type the emitted code throws iff the value is outside the new type's range")),
        (G, "gosym_part", dict(name="c05_int_conversion_write", entry="internal/zzverif.C05IntConversion", args_quick=(1,), args_thorough=(1,), key_fn=c05_key,
                               required_sites=("no-silent-wrap", "no-spurious-overflow-error"), assumptions=C05_ASSUME,
                               desc="same for the write direction (writing a value of the current type to a previous version)")),
        (G, "gosym_part", dict(name="c05_float_to_int_conversion", entry="internal/zzverif.C05FloatToInt", args_quick=(0,), args_thorough=(0,),
                               required_sites=("guard-is-a-known-form", "assigns-the-rounded-value-cast-to-the-target", "no-silent-out-of-range-conversion", "no-spurious-overflow-error"),
                               assumptions=["source values: the powers of two +-2^k with a symbolic exponent 0 <= k <= 100 (exactly representable in float and double, equal to their rounding): every "
                                            "boundary of every integer range lies there; values in between are not explored",
                                            "C++ meaning of the emitted comparison: the integer limit is converted to the floating-point type of the source (max() = 2^d - 1 becomes 2^d when d exceeds the "
                                            "mantissa width 24 / 53); converting an out-of-range floating-point value to an integer is undefined behaviour"],
                               desc="cpp/binary.writeTypeConversion for floating point -> integer (float32 / float64 to the 9 integer primitives): for every power of two of either sign the emitted "
                                    "code throws iff the value does not fit the target, and otherwise assigns the rounded value cast to the target type")),
        (G, "gosym_part", dict(name="c05_float_to_int_conversion_write", entry="internal/zzverif.C05FloatToInt", args_quick=(1,), args_thorough=(1,),
                               required_sites=("no-silent-out-of-range-conversion", "no-spurious-overflow-error"),
                               assumptions=["as c05_float_to_int_conversion"], desc="same for the write direction (a floating-point value of the current type written to a previous version's integer)")),
        C05_SWITCH_WRITER,
        C05_SWITCH_READER,
        C04_CPP_SCHEMAS_PART,
        C04_CPP_LABELS_PART,  # a writer targeting a previous version is accepted by that version's reader; a stream of a previous version selects that version's conversions
        C05_NESTED_READ,
        C05_BULK_BYPASS,      # the bulk (memcpy) path of the runtime must not replace a previous version's compatibility serializer
        C05_STRUCT_PLANS,     # every version's body reads / writes that version's structural wire plan
        C05_DEFINITE_ASSIGNMENT,   # conversions and compatibility readers assign their (reused) destination on every path
        (G, "gosym_part", dict(name="c05_nested_conversion_write", entry="internal/zzverif.C05NestedConversion", args_quick=(1,), args_thorough=(1,), key_fn=c05_nested_key,
                               required_sites=("element-wise-data-flow", "assigns-static-cast-to-target", "no-silent-wrap", "no-spurious-overflow-error"),
                               assumptions=C05_ASSUME,
                               desc="same for the write direction (the emitter inverts the change object): the range check for the previous version's narrower element type must be present at the innermost level")),
        (G, "gosym_part", dict(name="c05_nested_conversion_illformed", entry="internal/zzverif.C05NestedConversionIllFormed", args_quick=(0,), args_thorough=(1,), key_fn=c05_nested_key,
                               required_sites=("nested-integer-change-accepted", "emitted-conversion-understood", "element-wise-data-flow", "one-element-conversion", "assigns-static-cast-to-target",
                                               "no-silent-wrap", "no-spurious-overflow-error", "no-redeclared-variable", "resize-only-on-vector", "subscript-store-only-on-vector-or-array"),
                               assumptions=C05_ASSUME + ["wrapper chains: vector of vector, batched stream of vector, optional of vector, fixed-length vector; both directions (symbolic); quick: integer pairs over "
                                                         "{int8, uint16, int32, uint64}, thorough: all 72 pairs",
                                                         "well-formedness of the read-back statements: C++ block scoping (a `for` / item declaration may not re-declare a name whose outer declaration the emitted "
                                                         "element expressions still rely on), `.resize` exists on std::vector only, `x[i] = ..` needs std::vector or std::array; the type of `dst` is "
                                                         "cpp/common.TypeSyntax of the destination type (what writeProtocolStep / writeCompatibilitySerializers declare), item types are the emitted declarations"],
                               desc="obligations of c05_nested_conversion_* (element-wise flow, one cast to the destination element type, throws iff the value does not fit) plus well-formedness of the "
                                    "emitted statement forms, for the wrapper chains whose conversion the unchanged tree emits as ill-formed C++ (accepted by yardl generate, rejected by a C++ compiler)")),
        (G, "gosym_part", dict(name="c05_inverse", entry="internal/zzverif.C05Inverse", args_quick=(2,), args_thorough=(3,), key_fn=c05_nested_key,
                               extra_thorough=("-max-paths", "400000"),
                               required_sites=("compare-total", "inverse-total", "inverse-swaps-direction-at-every-level", "inverse-is-an-involution", "inverse-equals-reverse-comparison"),
                               assumptions=["type pairs: 12 leaf changes (none, number->number over 5 numeric primitives, number<->string, complex<->complex, T<->T?, T<->union, T?<->union with null, "
                                            "union case set changed; matching case at a symbolic position) under <= depth-1 equal wrappers out of optional / vector / fixed vector / map / array / alias (one or both sides) / stream (outermost)",
                                            "evolution context empty (no named record / enum definitions): TypeChangeDefinitionChanged.Inverse is not reached"],
                               desc="tc = real compareTypes(new, old): tc.Inverse() swaps (old, new) and takes the opposite kind at every nesting level, tc.Inverse().Inverse() equals tc, and tc.Inverse() equals "
                                    "compareTypes(old, new) in kind, nested type pairs and case indices wherever both directions are accepted")),
    ],
    "C19": [
        C09_UNARY_PART,   # a negation that no target language can evaluate is not a computed field
        C08_SWITCH_PART,   # a !switch means the same in C++, Python and MATLAB: each case returns its own expression
        C08_REF_RETURNS_PART,   # the C++ accessor of a computed field yields the field's value, not a dangling reference to a temporary
        (PYG, "c19_py_computed", dict()),
        C08_EXPR_PART,   # the C++, Python and MATLAB texts of a computed field denote the tree of the source expression
        (G, "gosym_part", dict(name="c19_static_types", entry="internal/zzverif.C19Types",
                               required_sites=("accept-reject-independent-of-operand-order", "type-independent-of-operand-order", "integer-power-is-float64", "result-kind-is-widest-operand-kind"),
                               assumptions=["documented rule used: `**` on integers yields float64 (docs/*/language.md); otherwise the result kind is the widest operand kind "
                                            "(integer < floating point < complex) and, for same-kind operands, at least as wide as both"],
                               desc="real dsl.Validate (resolveComputedFields, GetCommonType, insertConversion) on `a op b` and `b op a` for symbolic numeric primitive types of a, b "
                                    "(13 x 13) and all 5 operators: accept/reject and static type do not depend on operand order; kind/width of the result")),
        (G, "gosym_part", dict(name="c19_conversion_chains_cast", entry="internal/zzverif.C19Conversions", args_quick=(0,), args_thorough=(0,), **C19_CONV)),
        (G, "gosym_part", dict(name="c19_conversion_chains_binary", entry="internal/zzverif.C19Conversions", args_quick=(1,), args_thorough=(1,), **C19_CONV)),
        (G, "gosym_part", dict(name="c19_conversion_chains_switch", entry="internal/zzverif.C19Conversions", args_quick=(2,), args_thorough=(2,), **C19_CONV)),
        (G, "gosym_part", dict(name="c19_switch_case_order", entry="internal/zzverif.C19SwitchOrder", args_quick=(0,), args_thorough=(1,),
                               extra_thorough=("-max-paths", "400000"),
                               required_sites=("accepted-iff-the-cases-have-a-common-type", "switch-type-is-the-common-type-of-all-cases", "switch-kind-is-the-widest-case-kind",
                                               "switch-type-independent-of-case-order", "operand-is-brought-to-the-result-type"),
                               assumptions=["binary promotion rule = the real dsl.GetCommonType (its symmetry and kind / width rules are decided by c19_static_types); the switch type must be its left fold over "
                                            "ALL cases in the order written; kinds ordered integer < floating point < complex",
                                            "acceptance itself may depend on the case order on the unchanged tree (the binary rule is not associative: int8, uint32, uint64); only two ACCEPTED orders are "
                                            "required to agree on the static type",
                                            "case types: 7 numeric primitives (thorough: 13); switch over a 3-case union with type / type / discard patterns; all 6 orders"],
                               desc="`!switch` with three cases whose expressions are fields of symbolic numeric primitive types, in a symbolic case order, through the real dsl.Validate: accepted iff the "
                                    "cases have a common type, static type = promotion of all cases (not of some of them), kind = widest case kind, two accepted orders of the same cases agree, and every "
                                    "case is brought to the switch type by a conversion chain that loses nothing source and result both hold")),
        (G, "gosym_part", dict(name="c19_reference_scope", entry="internal/zzverif.C19Scope", args_quick=(0,), args_thorough=(1,),
                               required_sites=("accepted", "referenced-field-has-the-promoted-type-of-its-operands", "plain-reference-has-the-type-of-the-field",
                                               "reference-inside-a-switch-case-has-the-type-of-the-field", "referenced-field-body-uses-no-variable"),
                               assumptions=["binary promotion rule = the real dsl.GetCommonType (decided by c19_static_types), small integers promoted to int32 (documented)",
                                            "field and variable types over 7 numeric primitives (thorough: 13); the referenced computed field is `v + v` in another record or in the same record; the "
                                            "variable declared by the switch case is named like the field `v` or differently; both declaration orders of the two referencing computed fields; a model "
                                            "whose variable shadows a field of its own record may be rejected (no verdict asserted there)"],
                               desc="a computed field (`inner.dbl` of another record / `dbl` of the same record) referenced from a plain computed field and from inside a `!switch` case that declares a "
                                    "variable of symbolic type and name, in a symbolic declaration order, through the real dsl.Validate: every reference has the static type of the field's own body, "
                                    "that type is the promotion of its operand type whatever the variable's type, and the body uses no variable")),
        (G, "gosym_part", dict(name="c19_variable_shadowing", entry="internal/zzverif.C19Shadow", args_quick=(0,), args_thorough=(1,),
                               required_sites=("inner-case-expression-kept", "name-denotes-the-innermost-declaration"),
                               assumptions=["every target language binds the innermost declaration of a name (lambda parameter / local variable of the emitted case); binary promotion = the real "
                                            "dsl.GetCommonType, small integers promoted to int32", "variable types over 7 numeric primitives (thorough: 13); a validator that refuses an inner "
                                            "declaration hiding an outer one would be consistent as well (then nothing else is asserted)"],
                               desc="a `!switch` case nested in a `!switch` case, both declaring a variable (same name or different names, symbolic numeric types), through the real dsl.Validate: "
                                    "the static type of `name + name` in the inner case is the promotion of the type of the INNERMOST declaration of that name")),
        (G, "gosym_part", dict(name="c19_generic_instances", entry="internal/zzverif.C19GenericInstances", args_quick=(0,), args_thorough=(1,),
                               required_sites=("accepted", "computed-field-of-the-first-instantiation-has-its-own-type", "computed-field-of-the-second-instantiation-has-its-own-type"),
                               assumptions=["binary promotion = the real dsl.GetCommonType, small integers promoted to int32; instantiation types over 7 numeric primitives (thorough: 13)"],
                               desc="a generic record G<T> with computed fields over its T-typed field, instantiated twice (G<P1>, G<P2>, symbolic primitives) in one record whose computed fields read "
                                    "a computed field of each instance, in a symbolic declaration order: each has the static type its own instantiation gives it")),
        (G, "gosym_part", dict(name="c19_alias_operands", entry="internal/zzverif.C19AliasOperands", args_quick=(0,), args_thorough=(1,),
                               extra_thorough=("-max-paths", "400000"),
                               required_sites=("accept-reject-independent-of-alias-levels", "resolved-tree-and-static-types-independent-of-alias-levels",
                                               "integral-classification-follows-the-resolved-primitive", "python-operators-independent-of-alias-levels",
                                               "cpp-expression-independent-of-alias-levels", "matlab-expression-independent-of-alias-levels"),
                               assumptions=["a named alias of a primitive is the same type as the primitive (docs/*/language.md, Type aliases); the twin model replaces the alias by the bare primitive, "
                                            "field names are the same, so read-back expression trees are compared literally",
                                            "emitted text read back with the target language's grammar (zz_c08_cppexpr.go readers; Python `//` and `/` kept apart); for the switch shape only the Python "
                                            "`return` expressions are read (C++ / MATLAB statement forms name the operand type in declarations)",
                                            "P over 6 numeric primitives (thorough: 13), 1-2 alias levels, 5 operators, 14 operand shapes; conversion TARGETS are bare primitives (`x as Alias` makes the "
                                            "unchanged Python generator panic: reported separately)"],
                               desc="operands typed through 1-2 alias levels (same field twice, two fields, elements of one vector / fixed vector, with literal / bare-typed field / negation / "
                                    "conversion, alias-typed subscript index, switch variable used twice, three-operand nest) vs the twin model over the bare primitive: same verdict, same resolved "
                                    "tree with the same resolved primitive and inserted conversions on every node, dsl.IsIntegralType iff the resolved primitive is an integer, and the same emitted "
                                    "operator / conversion / literal forms in Python (`//` vs `/`), C++ and MATLAB")),
    ],
    "C10": [C06_REMOVALS_PART, C09_CROSSNS_PART, C13_LAYOUT_PARTS[0]] + [C10_FORMS[f] for f in (0, 1, 3, 4, 5)] + [only_thorough(C10_FORMS[f]) for f in (2, 6)] + C10_SHAPES + [C10_GRAPH_PART, C10_PARSER_PART, C10_DEFUSE_PART, C10_CYCLE_SPELLINGS_PART, C10_BUDGET_PART] + C10_YAML,  # C10_GRAPH_PART: no hang / panic of the package loader for any import graph
    "C09": [
        C09_YAML_TYPEARGS_PART,
        C09_UNARY_PART,
        C09_MAPKEY_PART,
        C09_CROSSNS_PART,
        (G, "gosym_part", dict(name="c09_base", entry="internal/zzverif.C09Base", required_sites=("base-accepted",), assumptions=C09_ASSUME,
                               desc="the unmodified two-namespace base model validates (guards against an over-rejecting harness)")),
        (G, "gosym_part", dict(name="c09_type_rules", entry="internal/zzverif.C09TypeRule", key_fn=c09_key,
                               required_sites=("violation-rejected", "error-names-offending-file", "stream-step-accepted", "no-panic"), assumptions=C09_ASSUME,
                               desc="16 type-level rule violations (unknown type, arity x4, ill-formed unions x5, stream misplaced, non-primitive map key, array dimensions x3, "
                                    "protocol reference) x 10 positions (field, alias, step, vector/optional/union/map/generic-argument/stream item, alias chain) x {main, imported namespace}: "
                                    "the real dsl.Validate returns an error naming the offending file")),
        (G, "gosym_part", dict(name="c09_def_rules", entry="internal/zzverif.C09DefRule", key_fn=c09_key,
                               required_sites=("violation-rejected", "error-names-offending-file", "no-panic"), assumptions=C09_ASSUME,
                               desc="21 definition-level rule violations (duplicate/badly-cased/reserved names, enum symbols/values/base/range, generics on enum/protocol, unused type "
                                    "parameter, reference cycles, duplicate computed field) x {main, imported namespace}")),
        (G, "gosym_part", dict(name="c09_generic_base", entry="internal/zzverif.C09GenericBase", required_sites=("base-accepted",), assumptions=C09_GENERIC_ASSUME,
                               desc="the three-namespace base (Lib of generics <- Dep <- Main) with all 10 generic carriers instantiated on a valid argument validates")),
        (G, "gosym_part", dict(name="c09_generic_cycles", entry="internal/zzverif.C09GenericCycle", key_fn=c09_key,
                               required_sites=("violation-rejected", "error-names-offending-file", "acyclic-generic-use-accepted", "no-panic"), assumptions=C09_GENERIC_ASSUME,
                               desc="reference cycles (self, 2 records, aliases, record+alias, 3 records) whose closing reference is a type argument of a generic instantiation: "
                                    "10 carriers (imported generic record / alias / union alias / second parameter, local generic, local alias of an imported generic, nests of both, "
                                    "compound argument) x {main, imported namespace}: rejected naming the file; the same definitions without the back-reference are accepted")),
        (G, "gosym_part", dict(name="c09_generic_type_rules", entry="internal/zzverif.C09GenericTypeRule", args_quick=(0,), args_thorough=(1,), key_fn=c09_key,
                               required_sites=("violation-rejected", "error-names-offending-file", "no-panic"), assumptions=C09_GENERIC_ASSUME,
                               desc="the 16 type-level rule violations written as (part of) a type argument of the 10 generic carriers x {main, imported namespace} "
                                    "(quick: as record field, and a stream also as type argument of a protocol step; thorough: x {record field, alias, protocol step}): "
                                    "the real dsl.Validate returns an error naming the offending file")),
        (G, "gosym_part", dict(name="c09_generic_instantiations", entry="internal/zzverif.C09GenericInstantiations", args_quick=(0,), args_thorough=(1,), key_fn=c09_key,
                               extra_thorough=("-max-paths", "400000"),
                               required_sites=("violation-rejected", "error-names-offending-file", "well-formed-instantiations-accepted", "no-panic"),
                               assumptions=["specification: an instantiation on X is ill-formed iff X denotes the local Sample (written `Sample` or through the local alias `MySample`: the union gets "
                                            "redundant cases) or, where the case is X itself, iff X is a union (a union immediately inside a union); same-named types of the imported namespace "
                                            "(Lib.Sample, Lib.SampleAlias), other records, primitives and vectors are well-formed arguments",
                                            "generic forms: Either<T>: [T, Sample]; Holder<T>{e: [T, Sample]}; Outer<T>{e: Either<Wrap<T>>} with Either<U>: [U, Wrap<Sample>] (inner argument mentions the "
                                            "enclosing parameter); Two<X, Sample> with Two<A, B>: [A, B]; 2 instantiations over 8 arguments x 3 placements (fields of one record, separate aliases, "
                                            "protocol steps), 3 instantiations over 4 arguments (thorough: 8 arguments x 3 placements)"],
                               desc="a union that becomes ill-formed only after instantiation is rejected for EVERY instantiation of the generic, whatever other instantiations of the same generic "
                                    "precede or follow it: 2-3 instantiations of one union-bearing generic on symbolic arguments in symbolic order; the package is rejected, naming main/model.yml, "
                                    "iff some instantiation is ill-formed, and accepted otherwise")),
        C09_SCOPES_PART,
        (G, "gosym_part", dict(name="c09_subscripts", entry="internal/zzverif.C09Subscripts", args_quick=(0,), args_thorough=(1,), key_fn=c09_key,
                               extra_thorough=("-max-paths", "100000"),
                               required_sites=("violation-rejected", "error-names-offending-file", "well-typed-subscript-accepted", "no-panic"),
                               assumptions=C09_ASSUME[:1] + ["every subscript is well-shaped (argument count, labels naming the dimensions in order, literal 0 inside fixed bounds): only the static "
                                                             "types of the argument expressions vary; integral = the signed / unsigned integer primitives, their documented aliases and size",
                                                             "map lookups: the argument is a field of a bare primitive type; accepted iff it is the key type up to the documented primitive aliases "
                                                             "(size vs uint64 keys: no verdict asserted, the docs call size 'equivalent to' uint64 without calling it an alias)",
                                                             "quick: argument forms field of a symbolic primitive out of {int, uint64, float, string, bool} / int, float, string literal / vector field / "
                                                             "optional field; thorough: 10 primitives, plus alias-typed field, conversion, sum with a literal, another computed field (at most one argument of these)"],
                               desc="an ill-typed computed field is rejected: element access on a vector / fixed vector / array[x] / array[x,y] / array[x:2,y:3] / array[2,3] / array[,] / "
                                    "array[] / map, positional or labelled, target field written inline / through an alias / on a sub-record, 1-2 arguments of symbolic static type: the real "
                                    "dsl.Validate accepts iff every index argument is integral (map: has the key type), otherwise rejects naming the file")),
        C13_LAYOUT_PARTS[1],  # a violation in any model file of any layout (sub-directories, hidden neighbours, several documents) is rejected
        C11_RULES_PART,       # 23 rules x {package, import, previous version, previous version's import} through the real generateImpl / validatePackage (rules must not be top-level only)
    ],
    "C13": [
        C09_SCOPES_PART,   # what a type reference resolves to does not depend on which generic definitions were visited before it (definition order, file order, imports)
        (G, "gosym_part", dict(name="c13_order_and_files", entry="internal/zzverif.C13Order", args_quick=(1,), args_thorough=(0,),
                               required_sites=("reordered-accepted", "same-schema", "dependencies-first", "same-field-plan", "same-python-serializer"),
                               assumptions=["model family: harness c13Defs (record, generic record, aliases instantiating it with vector/optional arguments, enum with symbolic base, "
                                            "record with enum/optional-alias/map fields, protocol); 8 definition orders x 3 file layouts",
                                            "YAML text -> AST (yaml.v3, participle) is outside: models are built at the level dsl.Validate receives them"],
                               desc="real dsl.Validate + schema writer + python serializer emitter on the same symbolic definitions listed in a different order / spread over files: "
                                    "both accepted, identical schema text, identical field plans and serializer expressions, and every definition listed after its dependencies")),
        C13_IMPORTED_GENERICS,
        (G, "gosym_part", dict(name="c13_comments", entry="internal/zzverif.C13Comments", args_quick=(3, 3), args_thorough=(4, 4),
                               required_sites=("doc-comment-is-the-attached-block", "detached-comment-blocks-do-not-change-the-doc-comment", "leading-blank-lines-do-not-change-the-doc-comment"),
                               assumptions=["dsl.normalizeComment applied to yaml.v3's HeadComment is the only way comment text enters the model (yaml.go); yaml.v3 itself is outside",
                                            "head comment: k <= 3 (4) lines, each blank / '#' / '# text' / '#text', text from a finite domain of 3 (4) strings decided by the solver "
                                            "(none starts with '#'); 5 fixed detached blocks prepended",
                                            "specification (docs/*/language.md + the rule that a blank line detaches a comment): the documentation comment is the maximal run of comment "
                                            "lines directly above the element, each without its '#' and one optional following space, joined by newlines"],
                               desc="the real dsl.normalizeComment on a symbolic head comment: result equals the independently specified attached block, and prepending detached "
                                    "comment blocks / blank lines (non-documentation comments, whitespace) never changes it")),
        C13_YAML_PART,
        C13_YAML_BACKENDS_PART,   # pure syntax alternatives yield byte-identical generated code (flat vs nested trees of optional-bearing element types)
    ] + C13_LAYOUT_PARTS,
    "C01": [
        (CC, "c01_cc_kernels", dict()),
        (CC, "c01_cc_serializers", dict(tiers=("thorough",))),
        (PY, "c01_py_kernels", dict()),
        (PYG, "c01_py_generated", dict()),
        ("py_numpy", "c17_py_block_headers", dict()),   # stream block headers with a symbolic 64-bit length
        ("py_numpy", "c03_py_array_layouts", dict()),   # arrays of every memory layout are written in logical row-major order and read back
        C14_PART,
        C14_TRIVIAL_PART,   # the memcpy fast path writes exactly the field-by-field bytes of docs/reference/binary.md (no padding)
        C01_CPP_PROTO_WRITER,
        C01_CPP_PROTO_READER,
        C05_BULK_BYPASS,   # wire-format conformance of vectors / arrays / stream batches of records when the writer targets (the reader reads) a previous version
        (CC, "c17_cc_reuse", dict()),   # the value read is the value written, whatever the destination object held before (vectors, maps, blocks)
        (CC, "c17_cc_blocks", dict()),   # the block layer of stream steps: ReadBlock / ReadBlocksIntoVector deliver the items written and leave (position, current_block_remaining_) in the state the generated reader's end-of-stream test (c01_cpp_proto_reader) relies on
    ],
    "C03": [
        C04_PURE_PART,   # every backend of one `yardl generate` run embeds the same schema text: a stream written in one language is accepted by the reader of the other
        C02_CPP_RECORD_PART,   # a record is a JSON object in every backend (Python refuses null where C++ would write it)
        (PY, "c03_py_capacity", dict()),
        ("py_numpy", "c03_py_array_layouts", dict()),   # the bytes of an array do not depend on its memory layout (C / Fortran order, transposed or strided views)
        (PY, "c02_py_converters", dict()),   # NDJSON converters + NDJsonProtocolReader line look-ahead (binary <-> NDJSON copies)
        ("py_ndjson", "c02_py_flags", dict()),        # a flags value copied binary -> NDJSON -> binary by Python keeps its bits, and the NDJSON text is the documented one other languages read
        ("py_ndjson", "c02_py_array_json", dict()),   # the NDJSON form of an array does not depend on its memory layout
        C02_NULLFORM_PART,   # both languages read both renderings of the null case of a tagged nullable union
        C14_PART,
        C14_TRIVIAL_PART,   # C++ writes the same bytes as the other languages also when it takes the memcpy path
        C02_UNION3_PART,
        (CC, "c17_cc_reuse", dict()),   # copying a stream through the C++ reader / writer preserves every value although the reader reuses its destination
    ],
    "C16": [
        (CC, "c16_cc_truncation", dict()),
        ("cc_trunc", "c16_cc_stream_truncation", dict()),   # stream steps (the generated reader's loop over ReadBlocksIntoVector / ReadBlock + Close), ReadVector, ReadMap on the first c bytes of a valid encoding: never read to completion
        (PY, "c16_py_truncation", dict()),
    ],
    "C17": [
        C17_CPP_FALLBACK_PART,   # generic batch read of the C++ abstract readers: exactly the fresh items, whatever the vector held
        C02_CPP_RECORD_PART,   # NDJSON record from_json assigns every member of a reused destination
        (CC, "c17_cc_blocks", dict()),
        (CC, "c17_cc_reuse", dict()),
        (PY, "c17_py_batching", dict()),
        (PYG, "c17_py_protocol_batches", dict()),   # generated Binary<P>Writer / Reader: the grouping of a stream step's items into write calls (lists, iterables, empty calls; adjacent stream steps) never shows in the items read
        ("py_numpy", "c17_py_block_headers", dict()),   # block header = varint of a symbolic 64-bit block length (1..10 bytes), read and write side
        C01_CPP_PROTO_WRITER,   # how a writer's items are batched (incl. empty batches) never shows on the wire except as block boundaries
        C05_NESTED_READ,   # element-wise conversions of batch reads go through a fresh item and reset their target: no item depends on what the destination held before
        C05_DEFINITE_ASSIGNMENT,   # no reader method / compatibility serializer / conversion leaves (part of) a reused destination as it was: an item never depends on the previous one
        C05_BULK_BYPASS,   # a batch read (ReadBlocksIntoVector, bulk path) and single reads (ReadBlock, element function) of the same previous-version stream must deliver the same items
    ],
    "C15": [
        C05_CPP_CTORS_PART,   # readers derive version_ from the schema found in the header
        C04_EMBED_PART,
        C04_DETERMINES_PART,   # a reader can only refuse a foreign stream if wire-different models have different schema texts
        C04_TYPEARGS_PART,     # ... also when the difference sits in a definition reached only through a type argument
        C04_CPP_SCHEMAS_PART,
        C04_CPP_LABELS_PART,  # the generated C++ reader maps exactly the schema texts of the listed versions to a version and refuses every other text (incl. the empty one)
        (CC, "c15_cc_header", dict()),
        (PY, "c15_py_header", dict()),
        (PYG, "c15_py_schema_edits", dict()),   # generated NDJson / Binary readers refuse their own schema after any single edit (array prefix / extension, swapped elements, renamed member, changed scalar)
    ],
    "C04": [
        C05_CPP_CTORS_PART,   # the schema written into the header is the one of the version the writer converts to
        C12_WRITE_IF_NEEDED,   # regenerating into the same directory after a wire-affecting edit replaces the embedded schema (a file is rewritten whenever its content differs at all)
        C04_EMBED_PART,
        C04_PURE_PART,   # no backend changes the shared model: every backend embeds the same text in whatever order they run
        (G, "gosym_part", dict(name="c04_neutral", entry="internal/zzverif.C04Neutral", args_quick=(1,), args_thorough=(0,),
                               required_sites=("neutral-edit-keeps-schema", "no-comment-in-schema", "no-computed-field-in-schema", "no-position-in-schema"),
                               assumptions=C04_ASSUME,
                               desc="real dsl.Validate + GetProtocolSchemaString on a symbolic model, twice: plain vs decorated with comments on every commentable node, "
                                    "a computed field, unrelated definitions/protocol, reversed definition order, other file and symbolic line offset: schema text identical")),
        C04_DETERMINES_PART,
        C04_TYPEARGS_PART,
        C04_CPP_SCHEMAS_PART,
        C04_CPP_LABELS_PART,  # every header the generated C++ writer emits carries the schema of the version it is written for
    ],
    "C11": [
        (G, "gosym_part", dict(name="c11_all_or_nothing", entry="internal/cmd.VerifC11", args_quick=(1,), args_thorough=(1,), key_fn=c11_key,
                               extra_quick=("-replay-sample", "200"), extra_thorough=("-replay-sample", "400"),
                               required_sites=("invalid-package-fails", "invalid-package-writes-nothing", "valid-package-succeeds", "failure-writes-nothing"),
                               assumptions=C11_ASSUME,
                               desc="generateImpl on a package graph where each package is ok / has a parse error / has a validation error (symbolic), evolution may fail, "
                                    "outputs may be disabled, output dirs empty or pre-populated: any error => non-nil error and no write under the output dirs")),
        (G, "gosym_part", dict(name="c11_versions_2", entry="internal/cmd.VerifC11Versions", args_quick=(2, 2, 3, 1), args_thorough=(2, 2, 7, 1), key_fn=c11_versions_key,
                               extra_quick=("-replay-sample", "100"), extra_thorough=("-replay-sample", "300"),
                               required_sites=("duplicate-version-label-fails", "duplicate-version-label-writes-nothing", "incompatible-or-invalid-predecessor-fails",
                                               "incompatible-or-invalid-predecessor-writes-nothing", "valid-package-succeeds", "valid-package-writes-output", "failure-writes-nothing"),
                               assumptions=["gosym: LoadPackage, ParsePackageContents (returns the namespaces built by the harness), python.Generate, updatePackageInfoFromArgs are seams; generateImpl, validatePackage, "
                                            "parse*Namespaces, the real dsl.Validate and the real dsl.ValidateEvolution, outputJson, WriteFileIfNeeded run unmodified",
                                            "each explored path is replayed natively on real package directories (`versions:` map in _package.yml, model.yml per version) with no seams",
                                            "which predecessors are incompatible follows docs/cpp/evolution.md (reordered steps, removed step = breaking; added optional field = compatible; int -> string step = partially compatible)"],
                               desc="generateImpl on a main package with 2 previous versions, each symbolically partially compatible / incompatible (reordered steps) / identical "
                                    "(thorough: + compatible, removed step, validation error, parse error), version labels symbolic strings out of {v1, v2} (may be equal), output configuration symbolic: "
                                    "fails and writes nothing iff some predecessor (at any position) is incompatible / invalid or the labels are not pairwise distinct")),
        (G, "gosym_part", dict(name="c11_versions_3", entry="internal/cmd.VerifC11Versions", args_quick=(3, 3, 2, 0), args_thorough=(3, 3, 5, 0), key_fn=c11_versions_key,
                               extra_quick=("-replay-sample", "100"), extra_thorough=("-replay-sample", "300", "-max-paths", "100000"),
                               required_sites=("duplicate-version-label-fails", "duplicate-version-label-writes-nothing", "incompatible-or-invalid-predecessor-fails",
                                               "incompatible-or-invalid-predecessor-writes-nothing", "valid-package-succeeds", "valid-package-writes-output", "failure-writes-nothing"),
                               assumptions=["gosym: LoadPackage, ParsePackageContents (returns the namespaces built by the harness), python.Generate, updatePackageInfoFromArgs are seams; generateImpl, validatePackage, "
                                            "parse*Namespaces, the real dsl.Validate and the real dsl.ValidateEvolution, outputJson, WriteFileIfNeeded run unmodified",
                                            "each explored path is replayed natively on real package directories (`versions:` map in _package.yml, model.yml per version) with no seams",
                                            "which predecessors are incompatible follows docs/cpp/evolution.md (reordered steps, removed step = breaking; added optional field = compatible; int -> string step = partially compatible)"],
                               desc="same with 3 previous versions, labels out of {v1, v2, v3}, every subset of incompatible predecessors, python + json outputs enabled")),
        C13_LAYOUT_PARTS[1],  # no model file escapes validation because of where it lies
        C11_RULES_PART,       # every language rule, violated in the package / an import / a previous version / its import: real generateImpl fails and writes nothing
        C18_DIRS_PART,        # a namespace claimed by two different (similarly named) directories never loads, so nothing is generated from it
    ],
    "C02": [
        C02_CPP_RECORD_PART,   # emitted C++ record converters: JSON object with exactly the documented keys, round trip
        (PY, "c02_py_converters", dict()),
        ("py_ndjson", "c02_py_flags", dict()),        # FlagsConverter on a flags definition with symbolic member values (multi-bit / overlapping / zero members): names written denote exactly the value
        ("py_ndjson", "c02_py_array_json", dict()),   # NDJSON array converters on arrays of every memory layout: data = row-major logical order, from_json(to_json(a)) = a
        C02_NULLFORM_PART,
        (G, "gosym_part", dict(name="c02_union_tagging", entry="internal/zzverif.C02Union", args_quick=(2, 0, 0), args_thorough=(3, 1, 0),
                               extra_thorough=("-max-paths", "400000"), key_fn=c02_key,
                               required_sites=("generators-do-not-panic", "cpp-python-agree", "python-untagged-only-if-unambiguous", "python-tagged-only-if-ambiguous",
                                               "cpp-untagged-only-if-unambiguous", "cpp-tagged-only-if-ambiguous"),
                               desc="ndjsoncommon.GetJsonDataType + python/ndjson.typeConverter + cpp/ndjson.writeUnionConverters on a symbolic union "
                                    "(args: number of cases, leading null): a union is written untagged iff the documented JSON kinds of its cases are pairwise disjoint, and both generators agree",
                               assumptions=["JSON kind table transcribed from docs/reference/ndjson.md (harness specKinds)",
                                            "union cases range over: all primitives, enum, flags, record, alias of 4 primitives, vector, fixed vector, arrays (dynamic / rank-only / fixed / rank 0), maps keyed by any of the 18 primitives or by an alias of string / date",
                                            "documented map rule (object only for string keys, else array of pairs) is checked against the real Python MapConverter by c02_py_converters (conv.map-kind==object-iff-string-key)"])),
        (G, "gosym_part", dict(name="c02_union_tagging_3", entry="internal/zzverif.C02Union", args_quick=(3, 0, 1), args_thorough=(3, 1, 1), key_fn=c02_key,
                               required_sites=("cpp-python-agree", "python-untagged-only-if-unambiguous", "python-tagged-only-if-ambiguous"),
                               desc="same obligations on 3-case unions over a reduced case vocabulary (4 primitives, record, vector, enum, map keyed by string / int32 / date)",
                               assumptions=["JSON kind table transcribed from docs/reference/ndjson.md (harness specKinds)"])),
        (G, "gosym_part", dict(name="c02_cpp_flags_converters", entry="internal/zzverif.C02CppFlags", args_quick=(3, 5, 2), args_thorough=(3, 8, 4),
                               extra_quick=("-max-paths", "100000"), extra_thorough=("-max-paths", "1000000"),
                               required_sites=("only-known-statement-forms", "round-trip", "integer-form-is-the-underlying-value", "array-lists-flags-that-are-set",
                                               "array-covers-the-whole-value", "combination-of-defined-flags-is-an-array", "from-json-integer-is-the-value"),
                               assumptions=C02_CPP_ENUM_ASSUME,
                               desc="cpp/ndjson.writeEnumValuesMap + writeFlagsConverters on a !flags definition accepted by the real dsl.Validate (args: number of flags, value "
                                    "vocabulary, base types): flag values are distinct symbolic choices in any order from {1,2,0,3,6,128,4,5} (zero-valued and overlapping flags "
                                    "included), v is any value of the base type (symbolic bit-vector): the emitted to_json evaluated on v gives either the integer v or an array of "
                                    "distinct defined symbols, each set in v, whose union is v (so a value with an undefined bit is the integer v); for flags without shared bits "
                                    "every combination is an array; the emitted from_json evaluated on that JSON gives v back; from_json of a bare integer is that integer")),
        (G, "gosym_part", dict(name="c02_cpp_enum_converters", entry="internal/zzverif.C02CppEnum", args_quick=(2, 4, 3), args_thorough=(3, 6, 4),
                               required_sites=("only-known-statement-forms", "round-trip", "defined-value-is-its-symbol", "undefined-value-is-the-integer",
                                               "from-json-symbol-is-its-value", "from-json-integer-is-the-value"),
                               assumptions=C02_CPP_ENUM_ASSUME,
                               desc="cpp/ndjson.writeEnumValuesMap + writeEnumConverters on an !enum definition (values distinct symbolic choices from {0,1,5,-1,127,2}, symbolic base "
                                    "type; definitions the real dsl.Validate rejects are skipped): to_json(v) is the symbol string iff v is a defined value, else the integer v; "
                                    "from_json inverts it; from_json of every symbol / of a bare integer")),
    ],
    "C18": [
        C08_CHILD_REFS,   # every reachable package's namespace is referenced exactly once, dependencies first, whatever the order of the import lists
        C18_GRAPH_PART,
        C18_DAG_PART,
        C18_DAG5_PART,
        C18_DIRS_PART,
        C18_NS_PART,
        (G, "gosym_part", dict(name="c18_depth", entry="pkg/packaging.VerifC18Depth", args_quick=(12,), args_thorough=(13,),
                               required_sites=("too-deep-rejected",), assumptions=C18_ASSUME, key_fn=c18_key,
                               desc="chain of k packages (real MaxImportRecursionDepth) with an optional shortcut import to a symbolic position listed first or last")),
        (G, "gosym_part", dict(name="c18_depth_ok", entry="pkg/packaging.VerifC18Depth", args_quick=(10,), args_thorough=(9,),
                               required_sites=("within-limit-accepted",), assumptions=C18_ASSUME, key_fn=c18_key,
                               desc="chains within the limit are accepted")),
        (G, "gosym_part", dict(name="c18_depth_threshold", entry="pkg/packaging.VerifC18DepthThreshold", args_quick=(2,), args_thorough=(4,),
                               required_sites=("accepted-chain-stays-accepted-one-import-shorter", "depth-verdict-independent-of-last-package-having-imports",
                                               "nesting-below-limit-accepted", "nesting-at-or-beyond-limit-rejected", "loader-does-not-panic"),
                               assumptions=C18_ASSUME + ["the docs do not state the nesting limit; assumed from the constant and the unchanged loader: MaxImportRecursionDepth counts the packages "
                                                         "on an import path including the root, i.e. a chain p0 -> ... -> pn of n nested imports is accepted iff n < MaxImportRecursionDepth "
                                                         "(sites nesting-*); the other sites are relational and independent of where the threshold lies",
                                                         "a package that is already loaded when an import reaches it adds no nesting (behaviour of the unchanged loader; the order dependence this "
                                                         "implies for shortcut imports INTO a chain is the known finding c18:too-deep-chain-accepted-when-shortcut-import-listed-first and is not used here: "
                                                         "the already loaded package is off the chain and has no imports)"],
                               desc="linear import chain p0 -> ... -> pn, n symbolic in [limit-span, limit+span] around the real MaxImportRecursionDepth (arg: span), ending in a leaf or in a package "
                                    "that imports an already loaded import-free package listed first by a symbolic earlier chain member (root ... parent of pn): real LoadPackage on chain n, chain n-1 and "
                                    "the leaf-terminated chain n: accepted(n) => accepted(n-1); same verdict for both endings; accepted iff n < limit")),
    ],
    "C12": [
        C12_LOAD_PART,
        (G, "gosym_part", dict(name="c12_diagnostics_map_order", entry="internal/zzverif.C12DiagnosticsMapOrder", args_quick=(2, 12), args_thorough=(2, 12),
                               required_sites=("invalid-model-is-rejected-with-several-errors", "every-map-range-covered", "diagnostics-independent-of-map-iteration-order"),
                               assumptions=["map iteration order is a path decision (verifSetMapOrder(-2-i)): one range of the validation passes at a time iterates in another order; "
                                            "natively Go randomises the order, so a reported dependence is confirmed by repeating the run up to 64 times"],
                               desc="real dsl.Validate on an invalid two-namespace model with about 20 errors, several at the same source position and collected through maps (enum symbols sharing a "
                                    "value, duplicate names / fields / steps / union cases, unknown types): the rendered error text is identical when any one map range iterates in a different order")),
        (G, "gosym_part", dict(name="c12_error_order", entry="internal/zzverif.C12ErrorOrder", args_quick=(2,), args_thorough=(3,),
                               required_sites=("errors-order-independent",),
                               desc="ErrorSink.AsError on n symbolic diagnostics (file, optional line/column >= 1, message) recorded in two different orders: "
                                    "sorted records agree field by field (strict weak order + ties indistinguishable)",
                               assumptions=["line/column numbers are >= 1 when present (yaml.v3 positions)", "sort.Slice modelled by insertion sort: any correct sort yields the same sequence iff ties are indistinguishable"])),
        (G, "gosym_part", dict(name="c12_warning_order", entry="internal/zzverif.C12WarningOrder", args_quick=(2,), args_thorough=(3,),
                               required_sites=("warnings-order-independent",),
                               desc="WarningSink.AsStrings, same obligation", assumptions=["line/column numbers are >= 1 when present"])),
        C12_WRITE_IF_NEEDED,
        (G, "gosym_part", dict(name="c12_map_order", entry="internal/zzverif.C12MapOrder", args_quick=(2, 4, 56, 8, 2), args_thorough=(3, 5, 160, 16, 3),
                               extra_quick=("-max-paths", "100000"), extra_thorough=("-max-paths", "1000000"),
                               required_sites=("reference-run-succeeds", "run-succeeds-in-every-map-order", "every-map-range-covered", "output-independent-of-map-iteration-order"),
                               assumptions=["gosym iterates a Go map in insertion order unless told otherwise; verifSetMapOrder(-2-i) makes the order of the i-th executed range of a map "
                                            "with >= 2 entries a decision (all permutations up to 3 entries; identity / reversal / rotation above), one range per path, every index covered "
                                            "(every-map-range-covered); orders of two ranges are not varied together",
                                            "native replay cannot select a map order: Go randomises it; a dependence reported by gosym is confirmed natively by repeating the run (up to 32 times) until Go's own "
                                            "order shows a differing file; paths on which gosym found identical output carry that finding as a recorded input (verifRecord)",
                                            "model: protocol P (stream of a record that gained an optional field, a number step, two unions of different arity) and protocol Q, "
                                            "2 (thorough 3) previous versions with symbolic per-version change kinds; file system virtual under gosym"],
                               desc="real dsl.ValidateEvolution + one real generator writing its files (args: versions, generators among cpp/binary.WriteBinary, cpp/types.WriteTypes, "
                                    "cpp/protocols.WriteProtocols, cpp/ndjson.WriteNdJson, python.Generate, range-index bounds, change kinds) run once in insertion order and once with one "
                                    "(symbolically chosen) map range of the evolution pass or the generator iterating in a different order: every generated file is byte-identical")),
        (G, "gosym_part", dict(name="c12_python_computed_map_order", entry="internal/zzverif.C12PythonComputedMapOrder", args_quick=(16,), args_thorough=(16,),
                               required_sites=("reference-run-succeeds", "run-succeeds-in-every-map-order", "every-map-range-covered", "output-independent-of-map-iteration-order"),
                               assumptions=["gosym iterates a Go map in insertion order unless told otherwise; verifSetMapOrder(-2-i) makes the order of the i-th executed range of a map with >= 2 "
                                            "entries a decision (all permutations up to 3 entries), one range per path, every index covered (every-map-range-covered)",
                                            "native replay cannot select a map order: a dependence reported by gosym is confirmed natively by repeating the run (up to 48 times) until Go's own order "
                                            "shows a differing file",
                                            "one model, no previous versions: record with computed fields calling dimensionIndex(array, runtimeName) on 1, 2 and 3 different named-dimension arrays, "
                                            "size(array, name), switch expressions over a union and an optional with declared variables, unions of two arities, enum, flags, generic record, aliases; "
                                            "the permuted region is dsl.Validate + python.Generate (the unchanged Python generator ranges over no map of >= 2 entries on this model; Validate over 7)"],
                               desc="quick-tier companion of c12_map_order for the Python backend: dsl.Validate + the complete real Python generator on a model rich in computed fields run once in "
                                    "insertion order and once with one (symbolically chosen) map range iterating in another order: every generated file (types.py, binary.py, ndjson.py, "
                                    "protocols.py, __init__.py) is byte-identical")),
        (G, "gosym_part", dict(name="c12_evolution_diagnostics_map_order", entry="internal/zzverif.C12EvolutionDiagnostics", args_quick=(6, 1, 1, 6), args_thorough=(6, 3, 2, 6),
                               required_sites=("both-versions-valid", "incompatible-evolution-is-rejected", "every-map-range-covered",
                                               "evolution-diagnostics-independent-of-map-iteration-order"),
                               assumptions=["map iteration order is a path decision (verifSetMapOrder(-2-i)): one range of ValidateEvolution at a time iterates in every other order (all 6 orders of a "
                                            "3-entry map; identity / reversal / rotation for 4 entries); every range executed is covered (every-map-range-covered); "
                                            "natively Go randomises the order, so a reported dependence is confirmed by repeating the run up to 64 times",
                                            "model: one predecessor; protocols Acquire / Calibrate / Monitor play, in a symbolic assignment, the roles 'steps reordered and/or removed (+ a step type change)', "
                                            "'step-level errors (scalar -> vector, bool -> datetime, non-empty step added) + a warning', 'step-level warnings only'; a shared record changes partially "
                                            "compatibly (definition-level warning); thorough: remove-only / reorder-only structural changes and a fourth, removed protocol"],
                               desc="real dsl.ValidateEvolution on a package whose predecessor differs in three protocols (args: role assignments, structural change kinds, removed-protocol variant, "
                                    "range-index bound), once with every map range in insertion order and once with one symbolically chosen map range in another order: the rendered error text, "
                                    "the warning list and the error verdict are identical")),
    ],
    "C06": [
        (G, "gosym_part", dict(name="c06_env_edit_classes", entry="internal/zzverif.C06Env", key_fn=c06_key,
                               required_sites=("verdict-without-panic", "breaking-change-rejected", "partial-change-accepted", "partial-change-warned",
                                               "compatible-change-accepted", "compatible-change-silent"),
                               assumptions=["edit classes and their verdict class transcribed from docs/cpp/evolution.md (harness zz_c06env.go: 9 compatible, 6 partially compatible, 12 breaking)",
                                            "base model: record, two generic records, enum with base, protocol with plain/generic/stream/enum/optional/union/fixed-vector/map steps; "
                                            "optionally the record also occurs as map value or array element"],
                               desc="real dsl.Validate on old and new = edit(old), then real ValidateEvolution: verdict class (silent / warning / error) equals the documented class for "
                                    "27 edit kinds, alone and combined with a compatible change of the record they refer to; number pair and vector lengths symbolic; a changed enum value is any pair of "
                                    "different boundary values (change of sign included) of a symbolic base type out of int8/16/32/64, uint8/64")),
        C06_REMOVALS_PART,
        (G, "gosym_part", dict(name="c06_alias_retarget", entry="internal/zzverif.C06Retarget", args_quick=(4,), args_thorough=(8,), key_fn=c06_key,
                               required_sites=("models-validate-and-verdict-without-panic", "retargeted-alias-has-the-class-of-the-change-made-in-place"),
                               assumptions=["metamorphic oracle: the class the REAL analyser gives the same structural change made in place (R {a: P} -> R {a: Q}, step typed R)",
                                            "previous: R {a: P, b}, A = R, stream step of A; latest: R kept (unchanged or with an added optional field), R2 {a: Q, b}, A = R2, R / R2 declared in "
                                            "either order; P, Q over 4 (thorough: 8) primitives"],
                               desc="an alias is retargeted to a new record that carries a changed copy of the structure while the record it used to name stays: the real ValidateEvolution gives the "
                                    "step typed by the alias the verdict class of the same change made in place, in every declaration order")),
        (G, "gosym_part", dict(name="c06_wrapper_depth", entry="internal/zzverif.C06Wrappers", args_quick=(3, 4), args_thorough=(3, 8),
                               extra_thorough=("-max-paths", "400000"),
                               required_sites=("models-validate-and-verdict-without-panic", "unchanged-wrapped-type-is-silent", "wrapped-change-has-the-class-of-the-bare-change"),
                               assumptions=["the documentation classifies a change of a type by what changes, whatever contains it: the class (error / warning / silent) of P -> Q under a wrapper chain "
                                            "must be the class the REAL analyser gives the bare change P -> Q in the same position (metamorphic oracle; the classes of bare changes are decided by c06_env_edit_classes)",
                                            "wrappers: optional, vector, fixed vector of length 3, chains of 1-3 without two adjacent optionals (c06_item_spelling decides that spelling); positions: record "
                                            "field, plain step, items of a stream step; P, Q over 4 (thorough: 8) primitives"],
                               desc="a leaf type changes from P to Q (symbolic primitives) underneath a symbolic chain of up to three optional / vector / fixed-vector wrappers, as a record field, a step or "
                                    "the items of a stream: the real ValidateEvolution gives the wrapped change the verdict class of the bare change, and an unchanged wrapped type stays silent")),
        (G, "gosym_part", dict(name="c06_reference_shapes", entry="internal/zzverif.C06RefShape", args_quick=(0, 1), args_thorough=(1, 1), key_fn=c06_key,
                               extra_thorough=("-max-paths", "100000"),
                               required_sites=("verdict-without-panic", "breaking-change-rejected", "partial-change-accepted", "partial-change-warned",
                                               "compatible-change-accepted", "compatible-change-silent"),
                               assumptions=["oracle from docs/cpp/evolution.md: adding or removing aliases is compatible, changing the type arguments to a generic type is breaking, "
                                            "the class of an edit of a record / enum definition does not depend on how the definition is referenced",
                                            "second harness argument strict=1: the class is also asserted when both versions reach the generic through differently named closed aliases "
                                            "(the unchanged tree accepted such changes silently; repaired by fix d518244)"],
                               desc="real Validate + ValidateEvolution where old and new independently reach the target (generic record G<prim>, G<R>, record R, enum E) through a direct reference, "
                                    "a closed alias, an alias of an alias, a generic alias with explicit type arguments or a closed alias of a generic alias, aliases defined only where needed or "
                                    "everywhere: verdict class = documented class of (type-argument change | record edit | enum edit), independent of the reference shapes; "
                                    "quick = shapes x arguments x alias sets and shapes x edits x {plain, stream}; thorough = full cross product with vector / optional wrappers")),
        (G, "gosym_part", dict(name="c06_union_positions", entry="internal/zzverif.C06UnionPos", args_quick=(2, 1, 0), args_thorough=(2, 4, 1), key_fn=c06_key,
                               extra_thorough=("-max-paths", "100000"),
                               required_sites=("verdict-without-panic", "partial-change-accepted", "partial-change-warned", "compatible-change-accepted", "compatible-change-silent"),
                               assumptions=["oracle from docs/cpp/evolution.md (making a field optional; optional <-> union; adding or removing union types; the example T -> [.., T, ..]; "
                                            "changing between primitive types): none of them mentions case positions; pairs the documentation does not classify "
                                            "(reorder only, null added / removed, disjoint case sets, union -> scalar, optional -> scalar) are run for totality only (thorough tier)"],
                               desc="real Validate + ValidateEvolution on old, new = `null`? + an ordered selection of 1-3 distinct case types out of a pool of three "
                                    "({int32, string, float32} or {int32, string, Rec} with Rec gaining an optional field), as a step type (thorough: also record field, stream item, alias): "
                                    "the verdict class equals the documented class wherever the matching case sits (first / middle / last) on either side")),
        (G, "gosym_part", dict(name="c06_item_spelling", entry="internal/zzverif.C06ItemSpelling", key_fn=c06_key,
                               required_sites=("both-versions-valid", "verdict-without-panic", "flat-spelling-documented-class",
                                               "nested-spelling-documented-class", "nested-spelling-same-verdict-as-flat"),
                               assumptions=["flat spelling = `items: [null, T]` / `items: [T, U]` (cases of the dimensioned type, yaml.go UnmarshalTypeCases); nested spelling = `items: T?`, `T?*` "
                                            "(applyTypeTail) / `items: !union {..}` (UnmarshalUnionYAML, explicit tags equal to the derived ones): one case wrapping a scalar GeneralizedType",
                                            "oracle: docs/cpp/evolution.md classes as in c06_union_positions (upClass); both spellings denote the same type"],
                               desc="real Validate + ValidateEvolution on `!stream` / `!vector` steps whose item type (int32, int32?, [int32,string], [string,int32], with/without null) is spelled flat or "
                                    "nested, independently in the old and in the new version: the verdict class is the documented one and equals the verdict of the all-flat spelling")),
        (G, "gosym_part", dict(name="c06_reflexive", entry="internal/zzverif.C06Reflexive", args_quick=(1, 1), args_thorough=(2, 1),
                               required_sites=("reflexive", "total"), assumptions=C06_ASSUME,
                               desc="compareTypes(clone(T), T) reports no change and does not panic, T symbolic (depth, full-primitive leaves)")),
        (G, "gosym_part", dict(name="c06_pair", entry="internal/zzverif.C06Pair", args_quick=(0, 2), args_thorough=(0, 2),
                               required_sites=("total", "silence-implies-same-plan", "silence-symmetric", "error-symmetric", "partial-has-warning"),
                               assumptions=C06_ASSUME,
                               desc="compareTypes on two independent symbolic types: total in both directions; nil => identical wire plan; "
                                    "nil-ness and error-ness symmetric; accepted-but-changed => non-empty warning")),
        (G, "gosym_part", dict(name="c06_instances", entry="internal/zzverif.C06Instances", args_quick=(2, 8, 3, 2, 0), args_thorough=(2, 10, 6, 3, 3), key_fn=c06_key,
                               extra_thorough=("-max-paths", "100000"),
                               required_sites=C06_INSTANCES_SITES, assumptions=C06_INSTANCES_ASSUME,
                               desc="real Validate + ValidateEvolution on protocols whose steps reach records Alpha / Beta through symbolic shapes (direct, Box<R>, closed alias of Box<R>, "
                                    "Outer<R> = generic nested in a generic, Box<HoldR> = field of a record argument, generic alias, stream of Box<R>, Duo<Other, R> = two instantiations "
                                    "in one record; thorough: Box<R>?, Box<Box<R>>), args = steps, shapes, edit kinds of the last step's record, edit kinds of the other record, mode: "
                                    "quick = a step reaching Alpha and a step reaching Beta in both orders, Beta edited (breaking / partial / compatible), Alpha unchanged or compatibly changed; "
                                    "thorough = symbolic targets per step (the same instantiation twice included), 6 x 3 edit kinds, an extra changed primitive step before / after: "
                                    "rejected iff a reached record has a breaking edit, otherwise accepted with a warning naming the field of every partially compatible edit")),
        (G, "gosym_part", dict(name="c06_instances_3steps", entry="internal/zzverif.C06Instances", args_quick=(3, 6, 3, 2, 0), args_thorough=(3, 6, 3, 2, 0), key_fn=c06_key, tiers=("thorough",),
                               required_sites=C06_INSTANCES_SITES, assumptions=C06_INSTANCES_ASSUME,
                               desc="same with three steps: two steps reaching Alpha and one reaching the edited Beta at a symbolic position (first / middle / last), 6 shapes per step")),
        (G, "gosym_part", dict(name="c06_predecessors", entry="internal/zzverif.C06Predecessors", args_quick=(2, 2, 4), args_thorough=(2, 2, 6), key_fn=c06_key,
                               required_sites=C06_PREDECESSORS_SITES, assumptions=C06_PREDECESSORS_ASSUME,
                               desc="real Validate + ValidateEvolution(latest, [v0, v1]) where every (predecessor, definition) pair has a symbolic kind of change (identical / partially compatible / "
                                    "breaking / compatible; thorough: + required field added, vector -> scalar) in two records (stream item, plain step): the diagnostics labelled [vj] equal those of "
                                    "ValidateEvolution(latest, [vj]) on fresh models for every predecessor up to the first failing one, the call fails iff some predecessor alone fails, with that "
                                    "predecessor's own error; every assignment of kinds is explored, hence both listing orders of any two predecessors")),
        (G, "gosym_part", dict(name="c06_predecessors_3", entry="internal/zzverif.C06Predecessors", args_quick=(3, 2, 4), args_thorough=(3, 2, 4), key_fn=c06_key, tiers=("thorough",),
                               required_sites=C06_PREDECESSORS_SITES, assumptions=C06_PREDECESSORS_ASSUME,
                               desc="same with three predecessors (4 kinds x 2 records x 3 predecessors)")),
        (G, "gosym_part", dict(name="c06_predecessors_3defs", entry="internal/zzverif.C06Predecessors", args_quick=(2, 3, 4), args_thorough=(2, 3, 4), key_fn=c06_key, tiers=("thorough",),
                               required_sites=C06_PREDECESSORS_SITES, assumptions=C06_PREDECESSORS_ASSUME,
                               desc="same with two predecessors and three definitions (two records and an alias of a primitive used as a step type)")),
    ],
    "C20": [
        (G, "gosym_part", dict(name="c20_sequential", entry="internal/cmd.VerifC20", args_quick=(2, 0, 0), args_thorough=(3, 0, 0),
                               extra_quick=("-replay-sample", "6"), extra_thorough=("-replay-sample", "10"),
                               required_sites=("converged-to-one-shot-output", "invalid-final-contents-leave-output-untouched", "watcher-keeps-running"),
                               assumptions=C20_ASSUME,
                               desc="the real dedupLoop with a patient editor (waits for the watcher to go idle between saves; args: saves, impatient=0, preemptions=0): every sequence "
                                    "of saves over {3 valid contents, 1 invalid}; validates the seams natively against a real fsnotify watcher")),
        (G, "gosym_part", dict(name="c20_interleaved", entry="internal/cmd.VerifC20", args_quick=(2, 1, 1), args_thorough=(3, 1, 1),
                               extra_quick=("-replay-sample", "4", "-max-paths", "200000"), extra_thorough=("-replay-sample", "8", "-max-paths", "3000000"),
                               required_sites=("converged-to-one-shot-output", "invalid-final-contents-leave-output-untouched", "watcher-keeps-running"),
                               assumptions=C20_ASSUME,
                               desc="the same with an impatient editor: every interleaving of editor, debounce-timer firings and in-flight regenerations at channel / timer / mutex / "
                                    "file-system operations within the preemption bound (args: saves, impatient=1, preemptions); after quiescence the output equals a one-shot generateImpl "
                                    "on the final contents and no goroutine has crashed")),
        (G, "gosym_part", dict(name="c20_interleaved_2", entry="internal/cmd.VerifC20", args_quick=(2, 1, 2), args_thorough=(2, 1, 2), tiers=("thorough",),
                               extra_quick=("-replay-sample", "4", "-max-paths", "3000000"), extra_thorough=("-replay-sample", "4", "-max-paths", "3000000"),
                               required_sites=("converged-to-one-shot-output", "invalid-final-contents-leave-output-untouched", "watcher-keeps-running"),
                               assumptions=C20_ASSUME,
                               desc="two saves, every interleaving within TWO preemptions (about 20 000 schedules)")),
        (G, "gosym_part", dict(name="c20_import_sequential", entry="internal/cmd.VerifC20Import", args_quick=(0, 0), args_thorough=(0, 0),
                               extra_quick=("-replay-sample", "4"), extra_thorough=("-replay-sample", "8"),
                               required_sites=("converged-to-one-shot-output", "cwd-is-package-dir-when-idle", "watcher-keeps-running"),
                               assumptions=C20_ASSUME + ["import scenario: readPackageInfo's YAML decoding is replaced by a token reader of the same file; LoadPackage, collectPackages and "
                                                         "fetchAndCachePackages (os.Chdir/Getwd on the virtual file system, net/url.Parse through the native parser on concrete URLs) are real"],
                               desc="package importing ../dep; the editor breaks dep's manifest (an import that cannot be fetched: unsupported scheme or missing directory), repairs it and "
                                    "changes the model, waiting for the watcher to go idle each time: watcher survives, process cwd is the package directory whenever idle, final output = one-shot output")),
        (G, "gosym_part", dict(name="c20_invalid_start", entry="internal/cmd.VerifC20InvalidStart", args_quick=(0,), args_thorough=(1,),
                               extra_quick=("-replay-sample", "6"), extra_thorough=("-replay-sample", "6", "-max-paths", "3000000"),
                               required_sites=("nothing-generated-from-an-invalid-package", "converged-to-one-shot-output", "watcher-keeps-running", "one-shot-accepts-the-repaired-package"),
                               assumptions=C20_ASSUME + ["start-up scenario: the package importing ../dep is invalid when the watcher starts (root model / imported model / imported manifest, symbolic); the "
                                                         "editor repairs it, optionally after an unrelated edit, waiting for the watcher to go idle each time (thorough: one preemption)"],
                               desc="the watcher is started on an invalid package: nothing is generated, and once the offending file - wherever it lies - is repaired, the output equals the one-shot output")),
        (G, "gosym_part", dict(name="c20_import_interleaved", entry="internal/cmd.VerifC20Import", args_quick=(1, 1), args_thorough=(1, 1),
                               extra_quick=("-replay-sample", "2", "-max-paths", "200000"), extra_thorough=("-replay-sample", "4", "-max-paths", "3000000"),
                               required_sites=("converged-to-one-shot-output", "cwd-is-package-dir-when-idle", "watcher-keeps-running"),
                               assumptions=C20_ASSUME,
                               desc="the same three saves without waiting: every interleaving within the preemption bound", tiers=("thorough",))),
        (G, "gosym_part", dict(name="c20_versions_sequential", entry="internal/cmd.VerifC20Versions", args_quick=(2, 0, 0, 2), args_thorough=(3, 0, 0, 2),
                               extra_quick=("-replay-sample", "4"), extra_thorough=("-replay-sample", "8", "-max-paths", "3000000"),
                               required_sites=("every-referenced-directory-watched", "converged-to-one-shot-output", "invalid-final-contents-leave-output-untouched",
                                               "cwd-is-package-dir-when-idle", "watcher-keeps-running"),
                               assumptions=C20_ASSUME + C20V_ASSUME,
                               desc=C20V_DESC + "; patient editor (waits for the watcher to go idle between saves; args: saves, impatient=0, preemptions=0, number of field types)")),
        (G, "gosym_part", dict(name="c20_versions_broken", entry="internal/cmd.VerifC20VersionsBroken", args_quick=(0,), args_thorough=(0,),
                               extra_quick=("-replay-sample", "4", "-max-paths", "100000"), extra_thorough=("-replay-sample", "8", "-max-paths", "1000000"),
                               required_sites=("converged-to-one-shot-output", "cwd-is-package-dir-when-idle", "watcher-keeps-running"),
                               assumptions=C20_ASSUME + C20V_ASSUME,
                               desc=C20V_DESC + "; one package of the closure other than the root (an import, a predecessor version, a predecessor's import - symbolic) cannot be loaded "
                                    "(ill-cased namespace / an import of a directory that does not exist - symbolic), from start-up on or from the save of the root manifest that adds the "
                                    "versions block (symbolic); the editor repairs it, then optionally edits the model of a symbolic package: the output converges to the one-shot output "
                                    "(patient editor; a run with one preemption did not finish within 50 minutes on the loaded machine and is not registered)")),
        (G, "gosym_part", dict(name="c20_event_kinds", entry="internal/cmd.VerifC20EventKinds", args_quick=(2, 0), args_thorough=(3, 0),
                               extra_quick=("-replay-sample", "4", "-max-paths", "100000"), extra_thorough=("-replay-sample", "8", "-max-paths", "1000000"),
                               required_sites=("initial-generation-wrote-output", "watcher-keeps-running", "converged-to-one-shot-output", "invalid-final-contents-leave-output-untouched"),
                               assumptions=C20_ASSUME + ["a content change is delivered as the event kind the inotify back end of fsnotify produces for the file operation performed: in-place write = "
                                                         "Write (Create + Write for a new file), rename(2) into the package = Create, unlink = Remove, rename(2) out of the package = Rename; natively "
                                                         "the real operation is performed on a real directory under a real watcher",
                                                         "readPackageInfo and ParsePackageContents are token readers of the same files (two model files, either may be absent); the editor waits for "
                                                         "the watcher to go idle between operations"],
                               desc="every sequence of 2 (3) file operations out of {in-place save, safe save (written elsewhere, renamed into place), delete, move out of the package} on two model "
                                    "files with symbolic contents (valid with a symbolic 64-bit length / invalid): after quiescence the output equals a one-shot generateImpl on the final package "
                                    "contents - a change that reaches the watcher as Create / Remove / Rename counts like one that reaches it as Write")),
        (G, "gosym_part", dict(name="c20_missing_import_dir", entry="internal/cmd.VerifC20MissingImportDir", args_quick=(0,), args_thorough=(1,),
                               extra_quick=("-replay-sample", "4", "-max-paths", "100000"), extra_thorough=("-replay-sample", "8", "-max-paths", "1000000"),
                               required_sites=("initial-generation-wrote-output", "nothing-generated-from-an-invalid-package", "watcher-keeps-running", "cwd-is-package-dir-when-idle",
                                               "converged-to-one-shot-output", "one-shot-accepts-the-repaired-package"),
                               assumptions=C20_ASSUME + ["the REAL readPackageInfo runs under gosym (manifests are yaml.Node documents on the virtual file system, decoded by the engine's yaml.v3 model; "
                                                         "natively their text); ParsePackageContents is a token reader of the model files; the watcher stub refuses to watch a directory that does not "
                                                         "exist (ENOENT, as inotify_add_watch does)",
                                                         "main -> dep -> lib; the editor waits for the watcher to go idle between saves (thorough: one preemption)"],
                               desc="an import path is misspelt (names a directory that does not exist, next to the packages or below one) in the root manifest or in an imported package's manifest, "
                                    "at start-up or through a save, and is corrected later; then the model of a symbolic package of the closure is edited: the watcher survives the broken state "
                                    "(checked while broken and at the end), the cwd is the package directory whenever idle, the final output equals the one-shot output")),
    ],
    "C14": [
        ("py_numpy", "c03_py_array_layouts", dict()),   # an array of records is laid out field by field (no padding on the wire) by the Python runtime, as the plan of every other language prescribes
        C01_CPP_PROTO_WRITER,   # stream steps are laid out as non-empty blocks closed by one 0 in every language (an empty batch writes nothing)
        (G, "gosym_part", dict(name="c14_type_plans", entry="internal/zzverif.C14Type", args_quick=(1, 1), args_thorough=(2, 1),
                               extra_thorough=("-max-paths", "400000"),
                               required_sites=("cpp-write-plan", "cpp-read-plan", "python-plan", "matlab-plan"),
                               desc="one symbolic type (args: nesting depth, number of leaves ranging over all 18 primitives) through cpp/binary.typeRwFunction "
                                    "(write+read), python/binary.typeSerializer, matlab/binary.typeSerializer; each emitted expression parsed and mapped "
                                    "through the backend head table must equal Plan(T); vector lengths / array dimensions are symbolic 64-bit values",
                               assumptions=["head tables in harness/go/internal/zzverif/zz_plan.go give the meaning of each runtime entry point",
                                            "type shapes limited to the generator in zz_gen.go (depth bound; union = 2 cases (+null); records 1-2 fields; one generic parameter)"])),
        C02_UNION3_PART,   # Python NDJSON is one of the backends: same tagged/untagged decision as C++ and as the documented JSON kinds
        C14_TRIVIAL_PART,   # the C++ memcpy fast path follows the per-field plan
        (G, "gosym_part", dict(name="c14_enum_bases", entry="internal/zzverif.C14EnumBase", args_quick=(0,), args_thorough=(0,),
                               required_sites=("enum-with-integer-base-accepted", "python-enum-element-is-the-resolved-base", "matlab-enum-element-is-the-resolved-base",
                                               "cpp-declared-underlying-type-is-the-resolved-base", "python-ndjson-enum-base-is-the-resolved-base", "python-dtype-is-the-resolved-base"),
                               assumptions=["enums are encoded as their base integer type (docs/reference/binary.md); the base may be written as an integer primitive, an alias of it, an alias of an "
                                            "alias, or left out (int32): the specification side is computed from the symbolic base primitive alone",
                                            "C++: yardl::binary::WriteEnum / WriteFlags serialize WriteInteger over std::underlying_type_t<E> / E::value_type (serializers.h; the integer kernels are "
                                            "decided by llsym), so the encoding is that of the type the emitted `enum class E : T` / `struct E : yardl::BaseFlags<T, E>` declares, T resolved through the "
                                            "emitted `using` declarations",
                                            "base over all 9 integer primitives x 4 spellings x {enum, flags} x {scalar, optional, vector, map value, stream item}; model through the real dsl.Validate"],
                               desc="enum / flags definitions whose base is spelled as primitive, alias, alias of alias or omitted: the element serializer of the enum in Python binary and MATLAB binary, "
                                    "the C++ declared underlying type, the Python NDJSON converter's dtype and the numpy dtype all denote the RESOLVED base primitive")),
        (G, "gosym_part", dict(name="c14_union_classes", entry="internal/zzverif.C14UnionClass", args_quick=(3,), args_thorough=(3,),
                               required_sites=("matlab-union-tag-byte-is-schema-position", "matlab-union-is-method-agrees-with-factory", "matlab-union-tag-list-agrees-with-factory",
                                               "matlab-union-one-factory-per-non-null-case", "matlab-union-reader-factory-is-the-case's",
                                               "python-union-tag-byte-is-schema-position", "python-union-case-tag-is-the-schema-tag", "python-union-reader-case-class-is-the-case's"),
                               desc="matlab/types.writeUnionClass and python/types.writeUnionClass on a union of 2-3 cases (5 case-type shapes) generated from the nullable or the non-nullable "
                                    "occurrence, read back (factory `res = Cls(k, value)`, isTag `self.index == k`, tags_ list; Python `{\"index\": k, \"tag\": t}`) and combined with the "
                                    "UnionSerializer expression emitted for the nullable or non-nullable occurrence: the tag byte the runtime writes for each case (MATLAB index + offset - 1, "
                                    "Python index + offset) equals the case's position in the schema, and factory / isTag / tag list agree",
                               assumptions=["runtime tag-byte rule transcribed from static_files/+binary/UnionSerializer.m and _binary.UnionSerializer (harness zz_c14_unionclass.go)",
                                            "null only as the first case (validation rejects any other position); case types concrete alternatives; tags concrete"])),
    ],
}

HOOK_COMMITS = []
NOTES = ("Every claim is bounded: 'holds' means unsat within the stated bound. Exit 3 + INCONCLUSIVE lines mean the solver or the "
         "encoder could not decide; that is never reported as success. See DESIGN.md.")
NOT_APPLICABLE = {}

CLAIMS = {
    "C20": dict(text="Bounded symbolic execution (gosym with a cooperative goroutine scheduler whose switches are path decisions) of the real dedupLoop, generateInWatchMode, generateImpl, "
                     "validatePackage, dsl.Validate, outputJson and WriteFileIfNeeded: for every sequence of 2 (3) saves over valid and invalid model contents and every interleaving of the "
                     "editor, debounce-timer firings and in-flight regenerations within the preemption bound, once everything is quiescent the output file equals what a one-shot generateImpl "
                     "produces for the final contents, invalid final contents leave the output untouched, and no regeneration goroutine has crashed. The unguarded overlap of regenerations "
                     "(a slow one overwriting the output of a newer one) was found this way, confirmed natively against the real watcher, and repaired (fix: 32002f5). Added (session 5): a package of the closure that cannot be LOADED (import, previous version, import of a previous version; ill-cased namespace or missing import directory; from start-up or from the save that adds the versions block) is repaired by a save and the output converges (defect repaired by 69a8eac).",
                note="Bounded: 2 saves x 1 preemption (quick), 3 saves x 1 preemption and 2 saves x 2 preemptions (thorough); import scenario 4 saves x 1 preemption (thorough, about 230 000 schedules, ~1 h); single package, JSON target; koanf config sharing and the process cwd across imported "
                     "packages are behind stubs; native confirmation relies on timing (bulky model), not on an imposed schedule."),
    "C08": dict(text="Bounded symbolic execution (gosym) of the complete real Python generator for a two-namespace model under every generateNDJson / has-protocols combination: "
                     "no panic, and the generated package is self-consistent (every own-package module an __init__.py imports was written). Panic-freedom of the type-mapping layers "
                     "on all type shapes is additionally exercised by the C14 part. Added (session 5): the complete real C++ and MATLAB generators on a package family (import shapes x definition kinds x symbolic options): every quoted #include / qualified MATLAB name resolves to a file of the same run, format files iff enabled, CMakeLists read as a script, declaration visible where named, override array header; every class name the generated Python modules evaluate at import time or hand to a UnionSerializer / UnionConverter resolves and no class is defined twice; C++ computed-field accessors return references only to objects that live as long as *this; `yardl init <name>` for a symbolic name: accepted iff the scaffold it writes loads and validates, nothing left behind otherwise; emitted reader / writer methods never hide their parameters with step temporaries. Nine genuine defects found this way were repaired (DESIGN I.9).",
                note="Only part of C08 is decidable by this technique here: identifier collisions after case conversion go through regexp2 look-behind patterns (no SMT counterpart), "
                     "and 'generated C++ compiles / Python imports' is not a symbolic question (C++ cannot be compiled in this sandbox); the C++ and MATLAB generators' option handling "
                     "is not covered yet. See DESIGN section 7."),
    "C07": dict(engine="pysym+gosym",
                text="(pysym) the generated Python protocols.py for every stream/non-stream pattern of length 1..3 (4 thorough), run on symbolic proxies: one-step inductive simulation "
                     "from an arbitrary _state against the declaration-order automaton for an arbitrary API call (write/read/close/__exit__, iterable obtained/consumed/abandoned). "
                     "(gosym) the C++ protocol emitter's state checks for every pattern of 3 (5) steps read back as guarded commands and simulated the same way, plus 256/128-step "
                     "protocols for the width of the state member. One genuine defect (8-bit state) was repaired (fix: 3cb2501). Added (session 5, gosym): the emitted MATLAB <P>WriterBase.m / <P>ReaderBase.m are read back and simulated one step from a symbolic state_ against the declaration-order automaton for every public method (write / end / read / has / close / copy_to), with state numbering checked up to 1000 steps.",
                note="Generated C++ is checked at emitter level through a recogniser of today's statement forms, not compiled; MATLAB *Base.m and CopyTo are outside; call histories of "
                     "any length are covered by the inductive step, protocol shapes only up to the stated lengths."),
    "C05": dict(text="Bounded symbolic execution (gosym) of the C++ conversion emitter for accepted integer->integer changes, in both directions: for a symbolic type pair and "
                     "a symbolic 64-bit value of the source type, the emitted guard throws exactly when the value does not fit the target type (no silent wrap, no spurious error). Added (session 5): floating point -> integer conversions throw iff the value does not fit, for every power of two of either sign (boundary defect at 2^63 / 2^31 repaired by ae5937f); a changed record as a map value is held to the same conversion obligations if a tree accepts it; converted steps named like the methods' own variables (repaired by bf6507e).",
                note="Emitter level only: generated C++ cannot be compiled or executed here. Float/complex/string conversions, record field add/remove/reorder plans, union/optional "
                     "changes, protocol-step switches and version chains are not covered yet (DESIGN C05)."),
    "C19": dict(engine="gosym+pysym", text="(pysym) the generated Python computed-field methods of a model with +,-,*,/,**, unary minus, nested and parenthesised expressions and size(), evaluated on "
                     "symbolic integer fields over the full range of their types against the exact (C++-semantics) value whenever it is in range of the static type. Two genuine defects were "
                     "repaired (fix: 8cd10c6, 0b84462); integer floor-vs-truncate division is a recorded known finding. Bounded symbolic execution (gosym) of computed-field type inference on `a op b` vs `b op a` for every ordered pair of the 13 numeric primitive types "
                     "(symbolic, solver-decided) and every operator: verdict and static type are symmetric, `**` on integers is float64, result kind = widest operand kind. Added (session 5, gosym): the static type of a referenced computed field does not depend on the switch variables in scope where it is referenced, on declaration order, or on another instantiation of the same generic record; a name denotes its innermost declaration; (pysym) fields of elements of arrays of records (structured numpy arrays, model validated against numpy).",
                note="Static typing only so far; agreement of the three expression emitters and of host-language operator semantics (e.g. Python // vs C++ /) is a separate part "
                     "(see DESIGN: F6) and nested expressions / switch typing are not covered."),
    "C10": dict(text="Bounded symbolic execution (gosym) of the whole real validation pipeline on a record with every kind of field plus one computed field whose expression ranges "
                     "over every expression form (literals, member access, unary, binary, subscript with 0-2 possibly labelled arguments, the three built-in functions with 0-3 "
                     "arguments, conversions, switch with every pattern kind) applied to every kind of target: dsl.Validate never panics and every error is located. Two panics found "
                     "this way were repaired (fix: commit 842eeab). Added (session 5): empty latest model / removed protocols (nil-pointer panic repaired by ff3cba9); cross-namespace reference cycles (stack overflow of generate repaired by fefb963); every node of the parsed model, type parameters included, carries the file it was read from.",
                note="Claimed from the yaml.Node level down (DESIGN I.1c): the byte -> node step (yaml.v3's scanner / parser) is not executed; node trees are bounded in depth (2) and "
                     "fan-out (2) over finite vocabularies; anchors only as aliases of an anchored or enclosing node; process-level time is an instruction budget, memory an allocation-size "
                     "bound. Expression depth 1 (arguments are leaves). Known finding: validation of chains of generic aliases is exponential (DESIGN I.3)."),
    "C09": dict(text="Bounded symbolic execution (gosym) of the whole real validation pipeline on base-model + one rule violation: 16 type-level rules x 10 positions and 21 "
                     "definition-level rules, each in the main and in an imported namespace: validation fails and the error text names the offending file. Two genuine defects found "
                     "this way were repaired (fix: commits 0de7622, b7cf9f1). Package-level propagation (imports, previous versions) is the C11 part. Added (session 5): a reference cycle through two namespaces is rejected; the map-key rule holds for keys supplied as type arguments (metamorphic: verdict of the map written out).",
                note="AST level (after yaml.v3/participle); computed-field typing errors are covered by C19/C10 parts when registered; the rule list is the harness' transcription of docs/*/language.md."),
    "C03": dict(engine="gosym+pysym(+llsym via C01)",
                text="Portability is decomposed: (1) every backend's emitted serializer denotes the same wire plan (C14 part, gosym); (2) the C++ and Python NDJSON generators take "
                     "the same tag-or-not decision for unions (gosym); (3) the Python writer's unchecked byte stores are always inside the buffer from any valid state (pysym, one "
                     "obligation per write_byte_no_check call site); (4) C++ and Python kernels each produce exactly the reference codec's bytes (C01's llsym and pysym parts), hence "
                     "byte-identical streams.",
                note="No generated C++ program can be compiled or run here, so cross-language interchange is shown by composition of plan agreement and kernel conformance, not "
                     "by executing both languages against each other; MATLAB runtime (.m files) is outside."),
    "C13": dict(text="Bounded symbolic execution (gosym) of the real validation pipeline (incl. topological sort, generic instantiation) on one symbolic model listed in 8 "
                     "definition orders x 3 file layouts: accept/reject, schema text, per-field wire plan and emitted Python serializer expressions are identical, and definitions "
                     "come out dependencies-first.",
                note="Reorder / re-split at AST level, shorthand-vs-expanded spellings and file layouts at yaml.Node level (the byte -> node step of yaml.v3 is not executed; type "
                     "strings are parsed by the real participle grammar through a native oracle). 'Byte-identical generated code' is decided through identical schema text, plans and "
                     "Python serializer expressions, not by generating every backend for both spellings. Whitespace / non-documentation comments: normalizeComment only."),
    "C01": dict(engine="llsym+pysym+gosym",
                text="Bounded symbolic execution of the real runtime kernels: (llsym) clang-14 IR of coded_stream.h executed symbolically from an arbitrary valid stream state "
                     "with symbolic values: emitted bytes equal the reference wire codec (docs/reference/binary.md), reading them back yields the value and consumes exactly those bytes, "
                     "class invariant preserved, no out-of-object access; buffer sizes 8/12 (quick) up to 32 (thorough). (pysym) the unmodified _binary.py run on symbolic proxies: "
                     "every stream primitive and every serializer class (ints, size, bool, floats, complex, string, date, optional, union, vector, fixed vector, map, stream, enum, record) "
                     "writes the reference bytes from an arbitrary buffer offset and reads them back. (gosym) C14 part: which kernel each backend uses for each type. Added (session 5): a 130-case union with the documented varint tag as oracle (Python one-byte tag repaired by d4e8f16); the block layer of stream steps (llsym c17_cc_blocks) decides the contract between ReadBlocksIntoVector's post-state and the generated reader's end-of-stream test.",
                note="Generated C++ cannot be compiled in this sandbox (no xtensor/date/nlohmann/HDF5), so C++ is covered at kernel level (llsym) + emitter level (C14 gosym) only; "
                     "production buffer size 65536 is covered only through the size-independent inductive step; istream::read/ostream::write follow the libstdc++ contract."),
    "C16": dict(engine="llsym+pysym",
                text="Bounded symbolic execution (llsym) of every CodedInputStream read primitive on the first c bytes of a valid encoding with c symbolic and the reader at an arbitrary "
                     "buffer position (including exactly at a refill boundary): the outcome is EndOfStreamException/runtime_error, never a normal return, never a load outside the filled window. "
                     "Four genuine defects found this way were repaired (fix: commit a567eab).",
                note="Buffer sizes 8-32; values <= 10 bytes; istream::read contract stub (short count only at end of input). Stream steps under truncation (c16_cc_stream_truncation): the consumer loop of a "
                     "transcribed generated reader (harness/cc/trunc_gen.h) over the real ReadBlocksIntoVector / ReadBlock / VerifyFinished, <= 4 items in <= 4 blocks, capacity 1..4, "
                     "reader at a refill boundary (arbitrary state in the thorough tier); ReadVector / ReadMap of <= 3 / 2 elements; C++ try/catch in the headers is executed (llsym "
                     "exception-handling model, self-tested natively on every run)."),
    "C17": dict(engine="llsym+pysym",
                text="Bounded symbolic execution (llsym, -O0 IR behind a stub yardl.h) of ReadBlocksIntoVector/ReadBlock as a one-call inductive step against a reference block parser: "
                     "arbitrary block partition (<= 4 items), destination capacity 1..4 and prior size, arbitrary reader state: delivered batch = next min(capacity, remaining) items, progress, end-of-stream flag.",
                note="std::vector modelled through an intercepted resize; ReadMap (F5) not covered; single-byte block lengths."),
    "C15": dict(engine="llsym+pysym",
                text="Bounded symbolic execution (llsym) of ReadHeader with symbolic magic/version bytes and schema bytes: returns normally only for magic 'yardl' and version 1, "
                     "returns the embedded schema verbatim, otherwise throws before consuming bytes beyond the header.",
                note="std::string stubbed; the schema comparison itself lives in generated code (emitter-level check pending)."),
    "C04": dict(text="Bounded symbolic execution (gosym) of the real validation pipeline and schema writer (Validate, GetProtocolSchema, removeComments, json.go) on a "
                     "symbolic model family: wire-neutral decorations leave the schema text unchanged; every single wire-affecting edit changes it (lengths and dimensions as 64-bit symbolic values). Added (session 5): definitions reached only through a structural position (map key / value, array item, fixed vector, union case), only as the base of an enum / flags, or only through a second instantiation of a generic; unions with alias-typed cases in the backend-purity model.",
                note="One model family (stated in assumptions); the verbatim embedding of the schema string by each backend's emitter and the header writers are checked elsewhere "
                     "(C15/C01 parts) or not yet; encoding/json is a model validated by native replay."),
    "C11": dict(text="Bounded symbolic execution (gosym) of generateImpl/validatePackage/parse*Namespaces/outputJson/WriteFileIfNeeded over all failure placements "
                     "(main, each import, nested import, previous version, evolution) x output configurations: an error anywhere gives a non-nil error and no write event; "
                     "every path is replayed natively on real package directories.",
                note="Leaf calls are stubs under gosym (listed in assumptions) and real in the native replay; partial output when a generator itself fails is out of scope "
                     "(as in the property). One genuine defect (error in an imported package ignored) is triaged in known_findings.json."),
    "C02": dict(text="Bounded symbolic execution (gosym) of the union tag-or-not decision of both NDJSON generators on symbolic unions (2 cases quick, 3 + null thorough): "
                     "untagged iff the documented JSON kinds are pairwise disjoint; C++ and Python agree. Two genuine defects found this way were repaired (fix: commits). Added (session 5): unions nested through aliases and single-case wrappers in the tagging decision (generator panic repaired by 6de5d05); generic records with a field typed by their type parameter in the C++ record converters.",
                note="Decides the generator-side mapping only; the _ndjson.py converters themselves are checked by the pysym part when registered; the C++ NDJSON runtime "
                     "(nlohmann-json absent) and JSON text formatting are outside. Kind table trusted."),
    "C18": dict(text="Bounded symbolic execution (gosym) of LoadPackage/collectPackages/GetAllReferencedPackages over all import multigraphs on 3 packages "
                     "(out-degree <= 2, symbolic namespaces), all DAGs (+1 arbitrary edge) on 4 packages in both list orders, and chains at the real depth limit "
                     "with a shortcut import: cycles, namespace conflicts and over-deep chains are errors; otherwise every reachable package is loaded once and every import resolved.",
                note="The two I/O seams (readPackageInfo, fetchAndCachePackages) are replaced by an in-memory package store under gosym; each explored path is "
                     "replayed natively on real _package.yml files with the unmodified loader. git/https imports and the cache are out of scope. One genuine defect is recorded in known_findings.json."),
    "C12": dict(text="Bounded symbolic execution (gosym) of the diagnostic sinks' real comparators and of WriteFileIfNeeded: rendered diagnostics are "
                     "independent of recording order for all symbolic records (2 quick / 3 thorough), and regenerating identical content performs no write.",
                note="Covers the diagnostic-order and idempotent-write mechanisms only; map-iteration-order independence of generators is not yet covered. "
                     "Assumes positions >= 1; sort.Slice replaced by a stable reference sort; virtual file system for os calls."),
    "C14": dict(text="Bounded symbolic execution (gosym) of the four binary type->serializer recursions on one symbolic type: every emitted "
                     "expression denotes Plan(T) for all shapes within the depth bound and all 64-bit lengths/dimensions; violations are replayed natively.",
                note="Trusts the head tables (meaning of runtime entry points), the gosym intrinsic models listed in evidence.stubs, and z3. "
                     "Python NDJSON converter structure and HDF5 are outside this check."),
    "C06": dict(text="Bounded symbolic execution (gosym) of compareTypes and the warning/error classifiers on symbolic type pairs: totality, "
                     "reflexivity on equal-shaped copies, silence implies equal wire plan, symmetry of silence/error, warnings for partial changes. Added (session 5): the class of a leaf change is independent of the optional / vector / fixed-vector wrapper chain above it (metamorphic: class of the bare change); definitions that disappear, down to an empty latest model, give a verdict without panic and mention every removed protocol; an alias retargeted to a record carrying a changed copy of the structure gets the class of the change made in place (one known finding); a changed enum value is any pair of different boundary values over a symbolic base type.",
                note="Type-level only (no named record/enum definitions, no protocol-level step changes yet); depth-bounded shapes; z3 and intrinsic models trusted."),
}

# Second round (after the seeded-change evaluation): what was added to each claim.
CLAIMS_ADDENDA = {
    "C01": "Added: (gosym) the C++ binary generator's emitted protocol writer/reader methods are read back and interpreted on a symbolic protocol shape and a symbolic batch length: "
           "value step = one value; a stream write = non-empty blocks carrying exactly the items passed; End = the single 0 length; readers consume a length only when the block is exhausted.",
    "C02": "Added: map cases over all 18 key primitives (object only for string keys, also in the runtime: pysym); NDJsonProtocolReader line look-ahead over protocol patterns with "
           "several stream steps; (gosym) the emitted C++ flags/enum NDJSON converters denote the documented mapping and round-trip for a symbolic definition and a symbolic 64-bit value. "
           "Added (round 4, pysym): FlagsConverter on a flags definition whose member values are symbolic 16-bit integers (multi-bit, overlapping, equal and zero members): the names written OR together to exactly the value, the integer form is the value, from_json(to_json(v)) = v; the three NDJSON array converters on logical arrays of every memory layout: data = row-major logical order, from_json(to_json(a)) = a.",
    "C03": "Added: the NDJSON converter and protocol-line parts (binary <-> NDJSON copies) are part of this check as well. "
           "Added: (pysym) fixed / n-d / dynamic array serializers on logical arrays with an explicit memory layout (C order, Fortran order, transposed and axis-permuted views, strided slices; "
           "symbolic elements, bulk and element-wise paths): bytes = reference encoding of the elements in logical row-major order, and the reference encoding reads back as the logical array. "
           "Added (round 4, pysym): the flags and array-layout obligations of the NDJSON converters (C02) count here too; arrays of records with solver-chosen field types (aligned numpy dtypes with and without padding, aligned or packed input dtype, C / Fortran / transposed layout): bytes = field-by-field reference encoding, read back equal.",
    "C04": "Added: the model has a fixed array with unnamed dimensions, a dynamic array, and a record of an imported namespace sharing its simple name with a local one; every backend "
           "(C++, Python, MATLAB) embeds exactly the schema text once and readers refer to the writer's; the emitted C++ schema tables (schema_, previous_schemas_, SchemaFromVersion) "
           "are evaluated with C++ static-initialisation-order semantics: the header written for every Version carries that version's own schema text.",
    "C05": "Added: nested conversions (optional / vector / batched stream wrappers, depth <= 2) for all integer pairs with a symbolic value; Inverse() is direction-swapping at every level and an "
           "involution; per-version switches of every protocol method route each label (symbolic label order) to that version's wire format; three emitter defects that make the generated C++ "
           "ill-formed are recorded known findings; SchemaFromVersion / VersionFromSchema / enum Version / previous_schemas_ of the emitted C++ are mutually consistent for symbolic "
           "version labels (a writer targeting version L writes L's schema, a stream of version L selects L's conversions).",
    "C06": "Added: the verdict class is independent of the reference shape (direct / closed alias / alias of alias / generic alias on either side; defect repaired by d518244), of the position of the "
           "matching union case, and (known finding) of flat vs nested spelling of stream / vector item types; of how the protocol reaches an edited record (directly, through the first or a later "
           "instantiation of the same generic, an alias of an instantiation, a generic nested in a generic, a field of a record argument, with other changed steps around); with several predecessors "
           "the diagnostics labelled with one predecessor equal those of validating against it alone.",
    "C07": "Added: abandoned (closed) and failing stream iterables keep the step open in the generated Python reader. "
           "Added (round 4, pysym): the event `_write_<step> raises` in the writer's inductive step (post-state = step not written, a stream in progress before it ended for good) and, on the real Binary<P>Writer, failing writes followed by retry / write to the ended stream / close with the bytes compared with the reference encoding; the one-step simulation on the concrete Binary / NDJson x Writer / Reader classes (method resolution through both base classes); stream steps written by several calls (also adjacent stream steps) through the generated binary writer / reader.",
    "C08": "Added: every relative import of every generated Python module resolves to a file written in the same run for all option x import-shape combinations; dtype registrations are "
           "dependencies-first; GetAllChildReferences on every reference DAG (<= 4/5 namespaces) is duplicate-free and dependencies-first.",
    "C09": "Added: the same rule violations, incl. reference cycles, reached through 10 ways of writing a type argument of local / imported generic types; a !stream in a type argument of a step "
           "(defect repaired by e37f37f).",
    "C10": "Added (session 3): yardl's own YAML layer (pkg/dsl/yaml.go UnmarshalYAML methods, convertType, ParseExpression) + the position pass of ParseYamlInDir + Validate on symbolic yaml.Node "
           "trees in 7 contexts (definitions, field / step types, enum values, type tags with symbolic keys, definition names, computed-field expressions incl. !switch), with alias nodes "
           "(cyclic documents, termination as an obligation), and the manifest reader packaging.readPackageInfo on symbolic manifests: no panic, no unbounded allocation, every parse error "
           "carries a line, every AST node a position. Seven defects found this way were repaired (I.3). Validation work on valid model families stays within a polynomial instruction budget. "
           "Added: six families of ill-formed type shapes at 9 (14) positions; LoadPackage terminates on every import graph over 3 packages (verifBounded); the hand-written expression parser "
           "on EVERY token sequence of length 4 (6) over all 19 token kinds: terminates, no panic, exactly one of (expression, error) (infinite loop on '<atom> as <atom> [' repaired by d026dd8).",
    "C11": "Added: 2-3 previous versions with symbolic compatibility per version and symbolic, possibly equal labels, with the real Validate / ValidateEvolution.",
    "C12": "Added: every file written by the C++ (and, thorough, Python) generators for a 2 (3)-version model is byte-identical when any single map range iterates in a different order "
           "(map iteration order is a path decision); the evolution diagnostics (errors, warnings, verdict) of a package whose predecessor differs in three protocols are identical "
           "when any single map range of ValidateEvolution iterates in another order.",
    "C13": "Added (session 3): shorthand type strings vs expanded YAML syntax (primitive aliases, T? / [null,T], vectors with symbolic lengths incl. 2^64, maps, arrays in 5 dimension spellings, "
           "!generic arguments in direct and list form, nested) through the real YAML layer, Validate and the schema writer: both accepted or both rejected, identical schema; the real "
           "ParseYamlInDir on every distribution of the definitions over files / extensions / sub-directories / YAML documents with unrelated and hidden files next to them: same model, and "
           "a rule violation in any model file is reported naming that file. "
           "Added: local generic types used only as type arguments of imported generics, in all 120 (720) definition orders; normalizeComment equals the attached trailing comment run for every "
           "head comment of <= 3 (4) lines.",
    "C14": "Added: the NDJSON tagged/untagged decision of the Python generator (3-case unions); MATLAB and Python union classes number their cases consistently with what the binary "
           "UnionSerializer writes.",
    "C15": "Added: wire-different models have different schema texts (the C04 'determines' part) and every backend embeds exactly that text; the emitted C++ VersionFromSchema "
           "accepts exactly the schema texts of the listed versions and refuses every other text, incl. the empty one. "
           "Added (round 4, pysym): the generated NDJson<P>Reader / Binary<P>Reader constructors refuse their own schema after any single edit of the JSON document (array prefix / extension / duplicated or swapped elements at every depth, added / renamed / dropped members, changed scalars incl. symbolic integers) and accept the unedited one.",
    "C16": "Added: bulk reads (read_view / read_bytearray, all three code paths incl. count larger than the buffer) return only bytes the stream holds.",
    "C17": "Added: returned items (arrays, strings, containers of arrays) share no memory with the reader buffer and are unchanged by later reads / refills; the emitted C++ stream writer's block structure. "
           "Added: (pysym) the block length in a stream block header is a symbolic 64-bit value (varint of 1..10 bytes): StreamSerializer.read consumes exactly the header and delivers the block's items, "
           "StreamSerializer.write of a list of symbolic length n emits varint(n). "
           "Added (round 4, pysym): through the generated Binary<P>Writer / Reader, the grouping of a stream step's items into write calls (lists, lazy iterables, empty calls; first / after a value / adjacent stream steps) shows on the wire only as block boundaries (one end marker per stream) and never in the items read back.",
    "C18": "Added: termination as an obligation on every graph; every import-list order; the namespace graph built by parsePackageNamespaces mirrors the import graph.",
    "C19": "Added: all 2 x 25 nestings of {+,-,*,/,**} over three operands plus 15 unary-minus placements on symbolic operands ((-x) ** y repaired by 641186f). "
           "Added: (pysym) computed fields over elements of array fields and over scalar fields holding numpy scalars (numpy's fixed-width integer semantics modelled and validated against real numpy): "
           "exact value whenever the declared result type holds it.",
}
for _k, _v in CLAIMS_ADDENDA.items():
    CLAIMS[_k]["text"] = CLAIMS[_k]["text"] + " " + _v
