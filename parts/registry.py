# property id -> [(module under parts/, function, kwargs)]
PARTS = {
}
