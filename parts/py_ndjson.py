"""pysym parts for the NDJSON runtime (_ndjson.py): flags with symbolic member values, n-d array converters on arrays with an
explicit memory layout, header schema comparison of the protocol readers (harness/py/ndjsonx.py).

    python3-vt /verif/parts/py_ndjson.py c02_py_flags quick
"""
import json, os, sys, time

VERIF = os.path.dirname(os.path.dirname(os.path.abspath(__file__)))
if VERIF not in sys.path:
    sys.path.insert(0, VERIF)
from parts import py_kernels as PK
from parts import py_numpy as PN

H = "harness.py.ndjsonx:"
FLAG_STUBS = [
    "pysym/flags: the flags class handed to FlagsConverter is a model of the generated `class F(enum.IntFlag)` (F(x) keeps every integer, members equal iff their values are, | & ^ on the values, "
    "generated __eq__ / __hash__) whose member values are symbolic; natively the real enum.IntFlag subclass with the solver's member values runs and every path's observations are compared",
]


def _job(h, label, budget, **params):
    j = PK._job(h, label, budget, **params)
    j["harness"] = H + h
    return j


def _run(name, prop, jobs, bounds, expected, stubs=(), extra_assume=()):
    t0 = time.time()
    part = PK._run(name, prop, jobs, bounds, expected, extra_assume)
    part["stubs"] = PK.STUBS + list(stubs)
    part["wall_s"] = round(time.time() - t0, 2)
    return part


def c02_py_flags(prop="C02", tier="quick", seed=0, **kw):
    quick = tier != "thorough"
    b = 60 if quick else 400
    jobs = []
    for n, via in ((1, "python"), (2, "python"), (2, "numpy"), (3, "python")) + (() if quick else ((3, "numpy"), (4, "python"))):
        jobs.append(_job("h_flags", "flags:%d-members:%s" % (n, via), b, nmembers=n, via=via))
    for j in jobs:
        j["limits"]["budget_s"] = 8 * b
        j["limits"]["max_paths"] = 40000
    expected = ["flags.to_json-no-exception", "flags.names-written-or-together-to-the-value", "flags.integer-form==value", "flags.union-of-disjoint-members-is-written-as-names",
                "flags.from_json-no-exception", "flags.from_json(to_json(v))==v", "int80-exact"]
    bounds = {"members": "1..3 (thorough: 4) members, each value symbolic in [0, 65535]: single-bit, multi-bit, overlapping, equal (aliases) and zero members all occur",
              "value": "symbolic in [0, 65535]", "entries": "to_json / from_json on the flags class, numpy_to_json / from_json_to_numpy on a uint16 scalar",
              "construction": "name -> member map in declaration order, value -> name map derived from it as the generated ndjson.py does"}
    return _run("c02_py_flags", prop, jobs, bounds, expected, FLAG_STUBS,
                extra_assume=["flags oracle (docs/reference/ndjson.md): the array form names members that are set, i.e. the named members OR together to exactly the value; the integer form is the value; "
                              "a value that is the union of pairwise disjoint members is written in the array form; which of several overlapping decompositions is named is not constrained"])


def c02_py_array_json(prop="C02", tier="quick", seed=0, **kw):
    quick = tier != "thorough"
    b = 60 if quick else 400
    L2 = ["C", "F", "T", "S"]
    L3 = ["C", "F", ["perm", [1, 0, 2]], ["perm", [0, 2, 1]], ["perm", [1, 2, 0]], "S"]
    jobs = []

    def add(kind, elem, shape, layouts):
        jobs.append(_job("h_array_json", "array-json:%s<%s>%s" % (kind, elem, "x".join(map(str, shape))), b, kind=kind, elem=elem, shape=list(shape), layouts=layouts))
    for kind in PN.ARR_KINDS:
        add(kind, "int16", (2, 3), L2)
        add(kind, "uint8", (2, 2, 2) if kind != "fixedarray" else (2, 1, 2), L3)
    add("ndarray", "int64", (3, 2), L2)
    add("dynarray", "uint32", (3,), L2)
    if not quick:
        for kind in PN.ARR_KINDS:
            for elem in ("int8", "uint16", "int32", "uint64", "size"):
                add(kind, elem, (3, 2), L2)
            add(kind, "int32", (2, 3, 2), L3)
            add(kind, "int8", (1, 3), L2)
            add(kind, "int8", (3, 1), L2)
    expected = ["array-json.to_json-no-exception", "array-json.data==row-major-elements", "array-json.from_json-no-exception", "array-json.from_json(to_json(a))==a", "int80-exact"]
    bounds = {"converters": PN.ARR_KINDS, "shapes": "2x3, 2x2x2, 2x1x2, 3x2, 3 (thorough: + 2x3x2, 1x3, 3x1)",
              "layouts": "C order, Fortran order, transposed view, axis-permuted views of a 3-d array, every-second-element slice; chosen by the solver",
              "elements": "symbolic integers over the whole element type (floating-point elements: JSON text conversion is not symbolic)", "entries": "to_json and numpy_to_json"}
    return _run("c02_py_array_json", prop, jobs, bounds, expected, PN.NP_STUBS)


FUNCS = {"c02_py_flags": c02_py_flags, "c02_py_array_json": c02_py_array_json}


def main():
    name = sys.argv[1]
    tier = sys.argv[2] if len(sys.argv) > 2 else "quick"
    res = FUNCS[name](prop="C" + name[1:3], tier=tier, seed=int(os.environ.get("VERIF_SEED", "0")))
    print(json.dumps(res, indent=1, default=str))


if __name__ == "__main__":
    main()
