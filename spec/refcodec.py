"""Reference wire codec — an executable transcription of docs/reference/binary.md over z3 terms.

This is the independent oracle shared by pysym (Python runtime kernels) and llsym (C++ runtime
kernels).  Both engines assert "bytes produced by the real code == refcodec bytes" and
"value decoded by the real code == refcodec decode", so C++ == Python follows by transitivity
(C03) without a joint query.

Conventions
  * a value is a z3 BitVec of the natural width of the yardl type (8/16/32/64)
  * an encoding is (n, bytes): n a z3 BitVec(8) = number of bytes, bytes a python list of
    BitVec(8) terms of the maximum length; positions >= n are don't-care (constant 0 here)
  * decode_* take a function byte_at(i:int)->BitVec(8) and return (value, n_consumed, ok) where ok is
    a z3 Bool that is false when the encoding is longer than the format allows

Deviation from the document, recorded as finding F11 in DESIGN.md: binary.md lists uint8/int8
under the varint/zig-zag bullet, but every backend writes exactly one raw byte; the reference
follows the implementations (one byte, two's complement) — otherwise every backend would be
"wrong" in the same way and no reader could read any writer.
"""
import z3

B8 = lambda v: z3.BitVecVal(v, 8)


def uvarint(x, width=None):
    """Unsigned LEB128 of bit-vector x (width = x.size()). Returns (n, [bytes])."""
    w = width or x.size()
    maxlen = (w + 6) // 7
    bs = []
    n = z3.BitVecVal(1, 8)
    for i in range(maxlen):
        lo = i * 7
        hi = min(lo + 6, w - 1)
        chunk = z3.ZeroExt(8 - (hi - lo + 1), z3.Extract(hi, lo, x)) if hi - lo + 1 < 8 else z3.Extract(hi, lo, x)
        if hi + 1 < w:
            rest = z3.Extract(w - 1, hi + 1, x)
            more = rest != z3.BitVecVal(0, rest.size())
            bs.append(z3.If(more, chunk | B8(0x80), chunk))
            n = z3.If(more, z3.BitVecVal(i + 2, 8), n) if i == 0 else z3.If(more, z3.BitVecVal(i + 2, 8), n)
        else:
            bs.append(chunk)
    # n computed above is wrong for nested Ifs evaluated in order; recompute precisely:
    n = z3.BitVecVal(1, 8)
    for i in range(1, maxlen):
        rest = z3.Extract(w - 1, 7 * i, x)
        n = z3.If(rest != z3.BitVecVal(0, rest.size()), z3.BitVecVal(i + 1, 8), n)
    # bytes beyond n are zero by construction (chunk of zero bits, no continuation)
    return n, bs


def zigzag(x):
    """(x << 1) ^ (x >> (w-1)) on a signed value of width w, as an unsigned bit-vector."""
    w = x.size()
    return (x << 1) ^ (x >> (w - 1))  # z3 >> on BitVecRef is arithmetic shift


def unzigzag(u):
    w = u.size()
    return z3.LShR(u, 1) ^ (-(u & z3.BitVecVal(1, w)))


def svarint(x):
    return uvarint(zigzag(x))


def fixed_le(x):
    """Little-endian fixed-width bytes."""
    w = x.size()
    return z3.BitVecVal(w // 8, 8), [z3.Extract(8 * i + 7, 8 * i, x) for i in range(w // 8)]


def decode_uvarint(byte_at, width, maxbytes=10):
    """Decode LEB128 from byte_at(0..). Returns (value BitVec(width), n BitVec(8), ok Bool).
    ok is False if no terminating byte appears within maxbytes."""
    val = z3.BitVecVal(0, width)
    n = z3.BitVecVal(0, 8)
    done = z3.BoolVal(False)
    for i in range(maxbytes):
        b = byte_at(i)
        payload = z3.ZeroExt(width - 8, b & B8(0x7F)) if width > 8 else (b & B8(0x7F))
        shifted = payload << (7 * i) if 7 * i < width else z3.BitVecVal(0, width)
        val = z3.If(done, val, val | shifted)
        last = (b & B8(0x80)) == B8(0)
        n = z3.If(z3.And(z3.Not(done), last), z3.BitVecVal(i + 1, 8), n)
        done = z3.Or(done, last)
    return val, n, done


# --- concrete versions (for native replays and encoder validation) ---------------------------

def c_uvarint(v):
    out = bytearray()
    while True:
        b = v & 0x7F
        v >>= 7
        if v:
            out.append(b | 0x80)
        else:
            out.append(b)
            return bytes(out)


def c_zigzag(v, w):
    return ((v << 1) ^ (v >> (w - 1))) & ((1 << w) - 1)


def c_svarint(v, w):
    return c_uvarint(c_zigzag(v, w))


def c_decode_uvarint(bs):
    v = 0
    for i, b in enumerate(bs):
        v |= (b & 0x7F) << (7 * i)
        if not b & 0x80:
            return v, i + 1
    raise EOFError


def c_unzigzag(u):
    return (u >> 1) ^ -(u & 1)


# The plan-level reference encoder used by generated-code stages: value trees -> bytes (concrete).
# plan: ("varint",w) ("zigzag",w) ("byte",) ("bool",) ("fixed",nbytes) ("string",) ("optional",P)
#       ("union",[P|None...]) ("vec",P) ("fixedvec",P,n) ("map",K,V) ("record",[P...]) ("stream",P)
def c_encode(plan, v):
    k = plan[0]
    if k == "varint":
        return c_uvarint(v)
    if k == "zigzag":
        return c_svarint(v, plan[1])
    if k == "byte":
        return bytes([v & 0xFF])
    if k == "bool":
        return bytes([1 if v else 0])
    if k == "fixed":
        return bytes(v)
    if k == "string":
        b = v.encode("utf-8")
        return c_uvarint(len(b)) + b
    if k == "optional":
        return b"\x00" if v is None else b"\x01" + c_encode(plan[1], v)
    if k == "union":
        idx, inner = v
        p = plan[1][idx]
        return c_uvarint(idx) + (b"" if p is None else c_encode(p, inner))
    if k == "vec":
        return c_uvarint(len(v)) + b"".join(c_encode(plan[1], e) for e in v)
    if k == "fixedvec":
        assert len(v) == plan[2]
        return b"".join(c_encode(plan[1], e) for e in v)
    if k == "map":
        return c_uvarint(len(v)) + b"".join(c_encode(plan[1], a) + c_encode(plan[2], b) for a, b in v)
    if k == "record":
        return b"".join(c_encode(p, e) for p, e in zip(plan[1], v))
    if k == "stream":  # v: list of blocks (lists)
        out = b""
        for blk in v:
            if blk:
                out += c_uvarint(len(blk)) + b"".join(c_encode(plan[1], e) for e in blk)
        return out + b"\x00"
    raise ValueError(k)
