"""Shared check plumbing: part results -> evidence file, known-findings triage, exit codes.

A *part* is one engine run (pysym / gosym / llsym harness family).  Every part returns a
dict (see new_part()).  bin/check merges the parts registered for a property, writes
/verif/evidence/<id>.json, prints KNOWN-FINDING / VIOLATION lines and picks the exit code:
  0  every obligation decided 'holds' (unsat within the bound) or matched a listed known finding
  1  a replay-confirmed violation that known_findings.json does not list
  3  inconclusive (solver unknown, unsupported instruction, unreached assertion site,
     counterexample that did not replay): never success, never a VIOLATION
"""
import json, os, sys, time, hashlib

VERIF = os.path.dirname(os.path.dirname(os.path.abspath(__file__)))
REPO = os.environ.get("VERIF_REPO", "/repo")
# VERIF_OUT redirects evidence/replays (used when trying a check against a scratch copy of the repo, so
# that the committed evidence only ever comes from /repo itself)
OUT = os.environ.get("VERIF_OUT", VERIF)
EVID = os.path.join(OUT, "evidence")
REPLAYS = os.path.join(OUT, "replays")
KNOWN = os.path.join(VERIF, "known_findings.json")


def new_part(name, engine):
    return {
        "part": name, "engine": engine,
        "functions_encoded": [], "bounds": {}, "stubs": [], "assumptions": [],
        "obligations": [],  # {id, status: holds|violated|inconclusive, paths, queries, unsat, sat, unknown, note}
        "paths": 0, "decisions": 0, "queries": 0, "unsat": 0, "sat": 0, "unknown": 0,
        "solver_s": 0.0, "replayed": 0, "samples": [], "violations": [], "inconclusive": [],
        "solvers": [], "wall_s": 0.0,
    }


def load_known():
    try:
        return json.load(open(KNOWN))
    except FileNotFoundError:
        return {"findings": []}


def match_known(prop, key, known):
    """A violation key matches a finding if the finding (status 'known', same property) has a
    key that equals it or is a declared prefix pattern 'xxx*'."""
    for f in known.get("findings", []):
        if f.get("property") != prop or f.get("status") != "known":
            continue
        k = f["key"]
        if k == key or (k.endswith("*") and key.startswith(k[:-1])):
            return f
    return None


def write_replay(prop, key, body, ext="json"):
    d = os.path.join(REPLAYS, prop)
    os.makedirs(d, exist_ok=True)
    h = hashlib.sha1(key.encode()).hexdigest()[:12]
    p = os.path.join(d, "%s.%s" % (h, ext))
    with open(p, "w") as f:
        if isinstance(body, str):
            f.write(body)
        else:
            json.dump(body, f, indent=1, default=str)
    return p


def finish(prop, tier, seed, parts, t0, design_ref=""):
    known = load_known()
    viol_new, viol_known, inconcl = [], [], []
    for p in parts:
        for v in p["violations"]:
            if not v.get("replay_confirmed"):
                inconcl.append("%s: counterexample for %s did not replay natively (%s)" % (p["part"], v.get("obligation"), v.get("key")))
                continue
            f = match_known(prop, v["key"], known)
            (viol_known if f else viol_new).append((p, v, f))
        for r in p["inconclusive"]:
            inconcl.append("%s: %s" % (p["part"], r))
        for o in p["obligations"]:
            if o.get("status") == "inconclusive":
                inconcl.append("%s: obligation %s inconclusive (%s)" % (p["part"], o["id"], o.get("note", "")))
        # consistency: an obligation marked violated must be backed by a reported violation of this part (new or known);
        # otherwise the counterexample got lost on the way and the run is not a pass
        if any(o.get("status") == "violated" for o in p["obligations"]) and not p["violations"]:
            inconcl.append("%s: an obligation is marked violated but no counterexample was recorded" % p["part"])
    obl = [dict(o, part=p["part"]) for p in parts for o in p["obligations"]]
    n_paths = sum(p["paths"] for p in parts)
    queries = sum(p["queries"] for p in parts)
    samples = []
    for p in parts:
        for s in p["samples"][:4]:
            samples.append({"part": p["part"], "case": s})
    held = [o for o in obl if o.get("status") == "holds"]
    ev = {
        "property_id": prop, "tier": tier, "seed": seed, "level": "model_checking",
        "coverage": {
            "states": max(1, n_paths),
            "transitions": max(1, sum(p["decisions"] for p in parts)),
            "traces_validated_against_impl": sum(p["replayed"] for p in parts),
            "samples": samples or [{"note": "no samples"}],
            "evaluations": max(1, queries),
            "distinct_nontrivial": max(0, n_paths),
            "rule": "states = feasible symbolic paths of the real code explored to an assertion site; evaluations = SMT queries "
                    "(feasibility + property); distinct_nontrivial = distinct feasible paths (each has a distinct decision prefix) "
                    "that executed anchored code and reached an assertion",
            "obligations": len(obl), "discharged": len(held),
            "obligation_list": obl,
            "functions_encoded": sorted({f for p in parts for f in p["functions_encoded"]}),
            "bounds": {p["part"]: p["bounds"] for p in parts},
            "queries": {"total": queries, "unsat": sum(p["unsat"] for p in parts), "sat": sum(p["sat"] for p in parts),
                        "unknown": sum(p["unknown"] for p in parts)},
            "solver_s": round(sum(p["solver_s"] for p in parts), 3),
            "solvers": sorted({s for p in parts for s in p["solvers"]}),
            "stubs": sorted({s for p in parts for s in p["stubs"]}),
            "parts": [{"part": p["part"], "engine": p["engine"], "paths": p["paths"], "queries": p["queries"], "wall_s": round(p["wall_s"], 2)} for p in parts],
            "known_findings_reported": [v["key"] for _, v, _ in viol_known],
            "inconclusive": inconcl,
            "exhaustive": not inconcl,
            "design_ref": design_ref,
        },
        "assumptions": sorted({a for p in parts for a in p["assumptions"]}),
        "wall_s": round(time.time() - t0, 2),
        "violations": len(viol_new),
    }
    os.makedirs(EVID, exist_ok=True)
    tmp = os.path.join(EVID, prop + ".json.tmp")
    json.dump(ev, open(tmp, "w"), indent=1, default=str)
    os.replace(tmp, os.path.join(EVID, prop + ".json"))
    seen = set()
    for p, v, f in viol_known:
        if v["key"] in seen:
            continue
        seen.add(v["key"])
        print("KNOWN-FINDING: property=%s %s [%s]" % (prop, f.get("what", v.get("desc", "")), v["key"]))
    for p, v, f in viol_new:
        print("VIOLATION property=%s replay=%s  (%s: %s)" % (prop, v.get("replay", "?"), v["key"], v.get("desc", "")))
    for r in inconcl:
        print("INCONCLUSIVE property=%s reason=%s" % (prop, r))
    print("property=%s tier=%s parts=%d paths=%d queries=%d obligations=%d/%d wall=%.1fs" % (
        prop, tier, len(parts), n_paths, queries, len(held), len(obl), time.time() - t0))
    sys.stdout.flush()
    if viol_new:
        return 1
    if inconcl:
        return 3
    return 0
