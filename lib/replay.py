"""bin/check <ID> --replay <path>: re-run one recorded counterexample against the real code.

  *.json  gosym counterexample: the natively compiled harness (go test -c -overlay against /repo's
          current tree) is run on the recorded events; exit 1 if the assertion fails again.
  *.py    pysym counterexample: a self-contained script (python3-vt); its exit status is returned.
  *.cc    llsym counterexample: compiled with the command in its first comment line, then run.
"""
import json, os, re, subprocess, sys, tempfile, shutil


def run(prop, path):
    if path.endswith(".json"):
        sys.path.insert(0, os.path.dirname(os.path.dirname(os.path.abspath(__file__))))
        from parts import gosym_part
        body = json.load(open(path))
        res = gosym_part.native_replay(body["entry"], body.get("args") or [], [{"id": 1, "events": body["events"] or []}])
        r = res.get(1)
        print(json.dumps(r, indent=1))
        failed = r and body["assertion"] in (r.get("failed") or [])
        print("REPRODUCED" if failed else "NOT REPRODUCED", "assertion", body["assertion"])
        return 1 if failed else 0
    if path.endswith(".py"):
        return subprocess.call(["/opt/veriftools/pyvenv/bin/python3", path])
    if path.endswith(".cc"):
        first = open(path).read(4000)
        m = re.search(r"(clang\+\+[^\n]*)", first)
        if not m:
            print("no compile command found in", path)
            return 3
        tmp = tempfile.mkdtemp(prefix="replay_cc_")
        try:
            cmd = m.group(1).split(" && ")[0].replace("<this file>", path)   # the "&& ./replay" tail of the comment is run below
            cmd = re.sub(r"-o\s+\S+", "-o %s/replay" % tmp, cmd) if " -o " in cmd else cmd + " -o %s/replay" % tmp
            if path not in cmd:
                cmd += " " + path
            print("+", cmd)
            if subprocess.call(cmd, shell=True) != 0:
                return 3
            return subprocess.call([tmp + "/replay"])
        finally:
            shutil.rmtree(tmp, ignore_errors=True)
    print("unknown replay artefact type:", path)
    return 3
