import sys, os, time, argparse, importlib, traceback
sys.path.insert(0, os.path.join(os.path.dirname(os.path.abspath(__file__)), ".."))
from lib import vcommon
from parts import registry


def main():
    ap = argparse.ArgumentParser()
    ap.add_argument("prop")
    ap.add_argument("--tier", default=os.environ.get("VERIF_TIER", "quick"))
    ap.add_argument("--replay")
    ap.add_argument("--only", help="run only the named part")
    a = ap.parse_args()
    seed = int(os.environ.get("VERIF_SEED", "0"))
    t0 = time.time()
    if a.replay:
        from lib import replay
        sys.exit(replay.run(a.prop, a.replay))
    specs = registry.PARTS.get(a.prop)
    if not specs:
        print("no check registered for", a.prop)
        sys.exit(3)
    parts = []
    for modname, fn, kw in specs:
        if a.only and a.only not in (fn, kw.get("name", "")):
            continue
        kw = dict(kw)
        tiers = kw.pop("tiers", None)
        if tiers and a.tier not in tiers:
            continue
        tp = time.time()
        try:
            mod = importlib.import_module("parts." + modname)
            res = getattr(mod, fn)(prop=a.prop, tier=a.tier, seed=seed, **kw)
        except Exception as e:
            res = vcommon.new_part(fn, modname)
            res["inconclusive"].append("part crashed: %r\n%s" % (e, traceback.format_exc()[-1500:]))
        for r in (res if isinstance(res, list) else [res]):
            r["wall_s"] = r.get("wall_s") or (time.time() - tp)
            parts.append(r)
    sys.exit(vcommon.finish(a.prop, a.tier, seed, parts, t0))


main()
