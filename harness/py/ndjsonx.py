"""pysym harnesses for the NDJSON runtime (_ndjson.py) beyond harness/py/kernels.py:
  (a) FlagsConverter on a flags definition whose MEMBER VALUES are symbolic (multi-bit, overlapping, equal and zero members),
  (b) the three n-d array converters on logical arrays with an explicit memory layout (engine/pysym/npmodel.py),
  (c) the header check of the NDJSON / binary protocol readers against schemas derived from the expected one by one edit.
Same conventions as kernels.py: one function per harness, explored with a SymEnv, replayed with a NatEnv against the pristine
runtime, the real enum.IntFlag and the real numpy."""
import enum, json
from engine.pysym.core import AND, OR, NOT, IMPLIES, EQ, ITE, is_sym
from harness.py import kernels as HK
from harness.py import npkernels as NK


# ------------------------------------------------------------------------------------------------
# (a) C02 / C03: flags.  ndjson.md: "Flags are serialized as an array of the symbolic string values that are set.  If the
#     value is outside of the defined values, the underlying integer value is written instead of the array."

def mk_sym_flag_type():
    """Model of a generated flags class (`class F(enum.IntFlag)` with the generated __eq__ / __hash__, python/language.md)
    whose member values may be symbolic: F(x) is the (pseudo-)member with value x - enum.IntFlag keeps every integer
    (boundary KEEP) -, members are equal iff their values are (a decision when symbolic), | & ^ act on the values.
    Natively the real enum.IntFlag subclass built by mk_nat_flag_type runs; every path is replayed against it."""

    class F:
        __slots__ = ("value",)

        def __init__(self, v=0):
            self.value = v.value if isinstance(v, F) else v

        def __eq__(self, o):
            return isinstance(o, F) and self.value == o.value       # as generated (types.go writeEnum)

        def __ne__(self, o):
            return not self.__eq__(o)

        def __hash__(self):
            return 0              # hash(self.value) as generated: one bucket, equality decides (symbolic values)

        def _v(self, o):
            return o.value if isinstance(o, F) else o

        def __or__(self, o):
            return F(self.value | self._v(o))

        __ror__ = __or__

        def __and__(self, o):
            return F(self.value & self._v(o))

        __rand__ = __and__

        def __xor__(self, o):
            return F(self.value ^ self._v(o))

        __rxor__ = __xor__

        def __int__(self):
            return self.value

        __index__ = __int__

        def __bool__(self):
            return bool(self.value != 0)

        def __repr__(self):
            return "<F>"
    return F


def mk_nat_flag_type(values):
    """what the Python backend generates for `F: !flags` with the given member values (equal values make aliases)"""
    F = enum.IntFlag("F", [("M%d" % i, v) for i, v in enumerate(values)])
    F.__eq__ = lambda self, other: isinstance(other, F) and self.value == other.value
    F.__hash__ = lambda self: hash(self.value)
    return F


def h_flags(env, nmembers, via="python", bits=16):
    """FlagsConverter built as the generated ndjson.py builds it (name -> member map in declaration order, value -> name map
    derived from it) for a definition with `nmembers` members of symbolic value, applied to a symbolic value v."""
    import numpy as np
    top = (1 << bits) - 1
    vals = [env.int("m%d" % i, 0, top) for i in range(nmembers)]
    v = env.int("v", 0, top)
    names = ["n%d" % i for i in range(nmembers)]
    if env.mode == "sym":
        F = mk_sym_flag_type()
        members = [F(x) for x in vals]
    else:
        F = mk_nat_flag_type(vals)
        members = [F["M%d" % i] for i in range(nmembers)]
    byname = dict(zip(names, vals))

    def build():
        n2v = dict(zip(names, members))
        v2n = {m: n for n, m in n2v.items()}          # generated: <flags>_value_to_name_map = {v: n for n, v in <...>_name_to_value_map.items()}
        return env.J.FlagsConverter(F, np.uint16, n2v, v2n)
    ok, conv = env.attempt(build)
    if not ok:
        return HK.unexpected(env, "flags.to_json-no-exception", conv)
    if via == "python":
        ok, j = env.attempt(conv.to_json, F(v))
    else:
        if env.mode == "sym":
            from engine.pysym.npmodel import NpInt
            nv = NpInt(np.dtype("uint16"), v)
        else:
            nv = np.uint16(v)
        ok, j = env.attempt(conv.numpy_to_json, nv)
    if not ok:
        return HK.unexpected(env, "flags.to_json-no-exception", j)
    env.reach("flags.to_json-no-exception")
    is_list = isinstance(j, list)
    env.observe("json", j)
    sfx = "" if via == "python" else ":numpy"
    if is_list:
        if not all(isinstance(n, str) and n in byname for n in j):
            return env.fail("flags.names-written-or-together-to-the-value", "py:ndjson:flags:unknown-name-written" + sfx, "to_json wrote %r" % (j,))
        union = 0
        for n in j:
            union = union | byname[n]
        env.check("flags.names-written-or-together-to-the-value", EQ(union, v), "py:ndjson:flags:names-do-not-denote-the-value" + sfx,
                  "the member names written (%s) OR together to a value different from the value written: a member was named although not all of its bits are set, or set bits are not covered" % ",".join(j))
    else:
        env.check("flags.integer-form==value", AND(HK.json_kind(j) == "number", EQ(j, v)), "py:ndjson:flags:integer-form-differs" + sfx, "the integer written differs from the value")
    # a value made of pairwise disjoint members is "inside the defined values": the array form is required
    disjoint = AND(*[EQ(vals[a] & vals[b], 0) for a in range(nmembers) for b in range(a + 1, nmembers)]) if nmembers > 1 else True
    covered = 0
    for m in vals:
        covered = covered | ITE(EQ(m & v, m), m, 0)
    env.check("flags.union-of-disjoint-members-is-written-as-names", IMPLIES(AND(disjoint, EQ(covered, v)), is_list), "py:ndjson:flags:defined-value-written-as-integer" + sfx,
              "the value is the union of (pairwise disjoint) members but was written as an integer")
    ok, j2 = env.attempt(HK.json_pass, env, j)
    if not ok:
        return HK.unexpected(env, "flags.from_json-no-exception", j2)
    if via == "python":
        ok, back = env.attempt(conv.from_json, j2)
        bv = back.value if ok and isinstance(back, F) else None
    else:
        ok, back = env.attempt(conv.from_json_to_numpy, j2)
        bv = back if ok else None
    if not ok:
        return HK.unexpected(env, "flags.from_json-no-exception", back)
    env.reach("flags.from_json-no-exception")
    env.check("flags.from_json(to_json(v))==v", bv is not None and EQ(bv, v), "py:ndjson:flags:roundtrip-differs" + sfx, "from_json(to_json(v)) differs from v")
    env.observe("back", bv)


# ------------------------------------------------------------------------------------------------
# (b) C02 / C03: n-d arrays.  ndjson.md: fixed arrays "a flattened JSON array with the values written in row-major order";
#     other arrays "a JSON object with two fields: shape and data ... data is an array of the values in row-major order".

def array_conv(env, kind, elem, shape):
    J = env.J
    ec = getattr(J, HK.CONV_SIMPLE[elem])
    if kind == "fixedarray":
        return J.FixedNDArrayConverter(ec, tuple(shape))
    if kind == "ndarray":
        return J.NDArrayConverter(ec, len(shape))
    return J.DynamicNDArrayConverter(ec)


def h_array_json(env, kind, elem, shape, layouts):
    """logical array (symbolic elements, solver-chosen memory layout) -> to_json -> documented mapping; -> from_json -> the array"""
    import numpy as np
    layout = layouts[env.choice("layout", len(layouts))]
    env.observe("layout", str(layout))
    n = NK._prod(shape)
    lo, hi = HK.RANGES[elem]
    elems = [env.int("e%d" % i, lo, hi) for i in range(n)]
    arr = NK.with_layout(env, elem, shape, elems, layout)
    NK.observe_layout(env, arr)
    conv = array_conv(env, kind, elem, shape)
    which = env.choice("entry", 2)          # to_json / numpy_to_json (arrays nested in records, vectors, ...)
    ok, j = env.attempt(conv.to_json if which == 0 else conv.numpy_to_json, arr)
    if not ok:
        return HK.unexpected(env, "array-json.to_json-no-exception", j, layout if isinstance(layout, str) else "perm")
    env.reach("array-json.to_json-no-exception")
    ok, j2 = env.attempt(HK.json_pass, env, j)
    if not ok:
        return HK.unexpected(env, "array-json.to_json-no-exception", j2)
    env.observe("json", j2)
    if kind == "fixedarray":
        good = isinstance(j2, list) and len(j2) == n
        data = j2 if good else []
    else:
        good = isinstance(j2, dict) and sorted(j2) == ["data", "shape"] and j2["shape"] == list(shape) and isinstance(j2["data"], list) and len(j2["data"]) == n
        data = j2["data"] if good else []
    env.check("array-json.data==row-major-elements", AND(good, *[EQ(a, b) for a, b in zip(data, elems)]), "py:ndjson:array:%s:data-not-in-row-major-order" % kind,
              "the JSON form of the array is not the documented one (logical shape, elements in row-major order)")
    ok, back = env.attempt(conv.from_json, j2)
    if not ok:
        return HK.unexpected(env, "array-json.from_json-no-exception", back)
    env.reach("array-json.from_json-no-exception")
    same = hasattr(back, "shape") and tuple(back.shape) == tuple(shape) and np.dtype(back.dtype) == np.dtype(NK.ELEM_DTYPE[elem])
    got = NK.arr_elems(env, elem, back) if same else []
    env.check("array-json.from_json(to_json(a))==a", AND(same, EQ(elems, got)), "py:ndjson:array:%s:roundtrip-differs" % kind,
              "from_json(to_json(a)) differs from a (shape, dtype or an element at some index)")
    env.observe("back", got)
