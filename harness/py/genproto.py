"""pysym harnesses on the CONCRETE generated protocol classes of the c07seq model family (Binary<P>Writer / Reader,
NDJson<P>Writer / Reader: runtime base class + generated abstract base class combined by multiple inheritance):
  * h_c07_concrete        : one inductive step of the C07 simulation on the concrete classes (whichever class of the MRO provides a method)
  * h_c07_binary_failure  : a write_<step> whose implementation raises, then any continuation: bytes stay a prefix of a valid stream
  * h_c17_gen_batches     : stream steps (also ADJACENT ones) written by several calls, lists and lazy iterables: bytes = reference
                            encoding under the chosen grouping, read back = the items whatever the grouping
Specification automata and the simulation relation are those of harness/py/generated.py."""
import io, json
from engine.pysym.core import AND, OR, NOT, IMPLIES, EQ, ITE, is_sym
from harness.py import kernels as HK
from harness.py import generated as HG
from harness.py.generated import WriterSpec, ReaderSpec, enc, lift, related_state, pkg

SMALL = (-64, 63)          # item / value domain: one varint length class (the integer codecs are C01's subject)


def header_bytes(cls):
    schema = cls.schema.encode("utf-8")
    return list(b"yardl") + [1, 0, 0, 0] + list(HK._c_uvarint(len(schema))) + list(schema)


def header_line(cls):
    return json.dumps({"yardl": {"version": 1, "schema": json.loads(cls.schema)}}) + "\n"


# ------------------------------------------------------------------------------------------------
# C07 on the concrete classes

def h_c07_concrete(env, pattern, fmt, role, family="c07seq"):
    """The instance is built by the generated constructor (binary: over a sink / a source holding a valid header; NDJSON: over a
    text stream), put into an arbitrary related state, and one public method is called.  Acceptance, rejection and the
    post-state must be those of the declaration-order automaton - for close() too, whichever base class provides it."""
    G = pkg(env, family)
    n = len(pattern)
    mod = G.binary if fmt == "binary" else G.ndjson
    cname = "%sP%s%s" % ("Binary" if fmt == "binary" else "NDJson", pattern, "Writer" if role == "writer" else "Reader")
    cls = getattr(mod, cname)
    base = getattr(G.protocols, "P%s%sBase" % (pattern, "Writer" if role == "writer" else "Reader"))
    if role == "writer":
        spec = WriterSpec(pattern)
        call = env.choice("call", n + 2)          # write_x0.., close, __exit__
        out = env.sink() if fmt == "binary" else io.StringIO()
        ok, o = env.attempt(cls, out)
        skip = False
    else:
        spec = ReaderSpec(pattern)
        call = env.choice("call", n + 2)          # read_x0.., close, __exit__
        skip = env.choice("skip_completed_check", 2) == 1
        if fmt == "binary":
            data = env.data().append(header_bytes(base) + [2] * 8)     # after the header: int32 values 1 (a stream step's iterable is not consumed here)
            src = env.source(data, "full")
        else:
            lines = [header_line(base)] + (['{"x%d": 1}\n' % call] if call < n else [])
            src = HK._LineStream(lines)
        ok, o = env.attempt((lambda: cls(src, True)) if skip else (lambda: cls(src)))
    if not ok:
        return HK.unexpected(env, "c07.concrete-constructed", o)
    states = spec.states()
    env.check("c07.concrete-constructed", EQ(o._state, enc(spec.initial)), "py:%s.__init__:not-initial" % cname)
    st = related_state(env, spec, "state", n)
    o._state = st
    if call < n:
        k = call
        if role == "writer":
            meth = "write_x%d" % k
            ok, e = env.attempt(getattr(o, meth), [1, 2] if pattern[k] == "S" else 1)
            step = lambda s: spec.write(s, k)
        else:
            meth = "read_x%d" % k
            ok, e = env.attempt(getattr(o, meth))
            step = lambda s: spec.read(s, k)
        accept = lift(st, states, lambda s: step(s) is not None)
        if ok:
            env.observe("outcome", "accepted")
            env.check("c07.concrete-call-accepted-only-in-order", accept, "py:%s.%s:out-of-order-call-accepted" % (cname, meth))
            env.check("c07.concrete-post-state-related", lift(st, states, lambda s: step(s) is not None and EQ(o._state, enc(step(s)[1]))), "py:%s.%s:post-state-unrelated" % (cname, meth))
        else:
            env.observe("outcome", type(e).__name__)
            if type(e).__name__ != "ProtocolError":
                return env.fail("c07.concrete-rejection-is-ProtocolError", "py:%s.%s:%s" % (cname, meth, type(e).__name__), str(e)[:80])
            env.reach("c07.concrete-rejection-is-ProtocolError")
            env.check("c07.concrete-call-rejected-only-out-of-order", NOT(accept), "py:%s.%s:in-order-call-rejected" % (cname, meth))
            env.check("c07.concrete-rejected-call-has-no-effect", EQ(o._state, st), "py:%s.%s:rejected-call-has-effect" % (cname, meth))
        return
    meth = "close" if call == n else "__exit__"
    ok, e = env.attempt(o.close if call == n else (lambda: o.__exit__(None, None, None)))
    accept = lift(st, states, (lambda s: spec.close(s)[0]) if role == "writer" else (lambda s: spec.close(s, skip)[0]))
    if ok:
        env.observe("outcome", "closed")
        env.check("c07.concrete-close-succeeds-only-if-complete", accept, "py:%s.%s:incomplete-protocol-closed-silently" % (cname, meth),
                  "%s() returned normally although steps are missing / a stream's iterable is not consumed (method resolved to %s)" % (meth, _provider(cls, meth)))
    else:
        env.observe("outcome", type(e).__name__)
        if type(e).__name__ != "ProtocolError":
            return env.fail("c07.concrete-rejection-is-ProtocolError", "py:%s.%s:%s" % (cname, meth, type(e).__name__), str(e)[:80])
        env.reach("c07.concrete-rejection-is-ProtocolError")
        env.check("c07.concrete-close-fails-only-if-incomplete", NOT(accept), "py:%s.%s:complete-protocol-close-raises" % (cname, meth))


def _provider(cls, meth):
    for c in cls.__mro__:
        if meth in c.__dict__:
            return c.__name__
    return "?"


# ------------------------------------------------------------------------------------------------
# shared: drive a Binary<P>Writer, building the reference encoding alongside

class _Ref:
    """reference encoding (binary.md) of what has been accepted so far: header, values, stream blocks, one 0 per ended stream"""

    def __init__(self, env, base):
        self.env = env
        self.exp = env.data()
        self.exp.append(header_bytes(base))
        self.header_len = self.exp.length

    def value(self, v):
        HK.enc(self.env, ["int32"], v, self.exp, True)

    def block(self, items):
        if items:
            self.exp.append(list(HK._c_uvarint(len(items))))
            for x in items:
                self.value(x)

    def singles(self, items):
        for x in items:
            self.block([x])

    def end(self):
        self.exp.append([0])


class UserIterableError(Exception):
    pass


def failing_iterable(items):
    for x in items:
        yield x
    raise UserIterableError("the caller's iterable raises")


def h_c07_binary_failure(env, pattern, family="c07seq"):
    """steps 0..k-1 are written (step k-1 is a stream), the first write_<step k> fails in the implementation layer (value step:
    the serializer rejects an out-of-range value; stream step: the caller's iterable raises after j items), then one further call
    (retry | another write to the ended stream | close), then the protocol is completed.  Every call is accepted iff the
    automaton accepts it from "stream k-1 ended, step k not written", and the bytes are the reference encoding of what was
    accepted: each stream is ended by exactly one 0."""
    G = pkg(env, family)
    n = len(pattern)
    cands = [k for k in range(1, n) if pattern[k - 1] == "S"]
    if not cands:
        env.reach("c07.failure-needs-a-step-after-a-stream")
        return
    k = cands[env.choice("step", len(cands))]
    base = getattr(G.protocols, "P%sWriterBase" % pattern)
    cname = "BinaryP%sWriter" % pattern
    sink = env.sink()
    ok, w = env.attempt(getattr(G.binary, cname), sink)
    if not ok:
        return HK.unexpected(env, "c07.failure-history-runs", w)
    ref = _Ref(env, base)
    cnt = [0]

    def fresh():
        cnt[0] += 1
        return env.int("x%d" % cnt[0], *SMALL)

    def write_ok(j):
        """one ordinary, complete write of step j"""
        if pattern[j] == "V":
            v = fresh()
            getattr(w, "write_x%d" % j)(v)
            ref.value(v)
        else:
            items = [fresh()]
            getattr(w, "write_x%d" % j)(items)
            ref.block(items)

    def run_prefix():
        for j in range(k):
            write_ok(j)
            if pattern[j] == "S" and j < k - 1:
                ref.end()
    ok, e = env.attempt(run_prefix)
    if not ok:
        return HK.unexpected(env, "c07.failure-history-runs", e)
    # the failing call.  Stream k-1 is ended by it (its 0 goes out before the implementation of step k is entered - or, at the
    # latest, with the first later call that is accepted): in the reference it sits between step k-1 and whatever step k wrote
    ref.end()
    if pattern[k] == "V":
        bad = env.int("bad", 2**31, 2**32)
        ok, e = env.attempt(getattr(w, "write_x%d" % k), bad)
        env.check("c07.failing-write-raises-the-implementation-error", AND(not ok, type(e).__name__ == "ValueError"), "py:%s.write_x%d:out-of-range-value-accepted" % (cname, k))
    else:
        j = env.choice("items-before-the-failure", 2)
        pre = [fresh() for _ in range(j)]
        ok, e = env.attempt(getattr(w, "write_x%d" % k), failing_iterable(pre))
        env.check("c07.failing-write-raises-the-implementation-error", AND(not ok, isinstance(e, UserIterableError)), "py:%s.write_x%d:iterable-error-swallowed" % (cname, k))
        ref.singles(pre)
    if ok:
        return
    ev = env.choice("then", 3)
    env.observe("then", ["retry", "write-to-the-ended-stream", "close"][ev])
    if ev == 1:
        ok, e = env.attempt(getattr(w, "write_x%d" % (k - 1)), [fresh()])
        env.check("c07.ended-stream-cannot-be-written-again", AND(not ok, type(e).__name__ == "ProtocolError"), "py:%s.write_x%d:accepted-after-the-stream-was-ended" % (cname, k - 1),
                  "write_x%d was accepted although write_x%d had already ended that stream (its implementation then failed)" % (k - 1, k))
        if ok:
            return
    if ev == 2:
        ok, e = env.attempt(w.close)
        # step k was never written (value step), or - stream step - the failed call does not count as a write: the protocol is incomplete
        env.check("c07.close-after-failed-write-is-rejected", AND(not ok, type(e).__name__ == "ProtocolError"), "py:%s.close:accepted-after-failed-write_x%d" % (cname, k))
        HK.check_sink(env, "c07.bytes-after-failure==reference-prefix", sink, 0, ref.exp, "py:%s:bytes-after-failed-write_x%d-not-a-valid-prefix" % (cname, k))
        return

    def run_rest():
        for j in range(k, n):
            write_ok(j)
            if pattern[j] == "S":
                ref.end()
        w.close()
    ok, e = env.attempt(run_rest)
    if not ok:
        env.observe("exc", type(e).__name__)
        return env.fail("c07.retry-after-failed-write-is-accepted", "py:%s.write_x%d:retry-rejected:%s" % (cname, k, type(e).__name__), str(e)[:80])
    env.reach("c07.retry-after-failed-write-is-accepted")
    HK.check_sink(env, "c07.bytes-after-failure==reference", sink, 0, ref.exp, "py:%s:bytes-after-failed-write_x%d-differ" % (cname, k))
    env.observe("outlen", sink.length)
    env.observe("body", [sink.at(ref.header_len + i) for i in range(ref.exp.cap - ref.header_len)])


# ------------------------------------------------------------------------------------------------
# C17 through the generated writers / readers

FORMS = ["lists", "generators", "alternating"]


def h_c17_gen_batches(env, pattern, nmax=2, family="c07seq"):
    """One stream step (solver-chosen: first, after a value step, after another stream, before another stream) gets m <= nmax
    items in a solver-chosen grouping into write calls (every composition; as lists, as generators or alternating; optionally an
    empty call in front / after the first group); every other stream step gets one item in one call.  Bytes = header + reference
    encoding under that grouping (a list call = one block, a lazy iterable = blocks of one, an empty call = nothing, one 0 per
    stream); reading the reference bytes with the generated reader gives exactly the items, whatever the grouping."""
    G = pkg(env, family)
    n = len(pattern)
    streams = [k for k in range(n) if pattern[k] == "S"]
    if not streams:
        env.reach("c17.gen-no-stream-step")
        return
    focus = streams[env.choice("focus", len(streams))]
    base = getattr(G.protocols, "P%sWriterBase" % pattern)
    sink = env.sink()
    ok, w = env.attempt(getattr(G.binary, "BinaryP%sWriter" % pattern), sink)
    if not ok:
        return HK.unexpected(env, "c17.gen-write-no-exception", w)
    ref = _Ref(env, base)
    vals = []
    m = env.choice("items", nmax + 1)
    comps = HK.compositions(m)
    blocks = comps[env.choice("grouping", len(comps))]
    form = FORMS[env.choice("form", len(FORMS))] if m else "lists"
    empty = env.choice("empty-call", 3)       # none | an empty list after the first group | an empty generator in front
    env.observe("grouping", [focus, blocks, form, empty])

    def run():
        for k in range(n):
            wr = getattr(w, "write_x%d" % k)
            if pattern[k] == "V":
                v = env.int("v%d" % k, *SMALL)
                wr(v)
                ref.value(v)
                vals.append(v)
                continue
            if k != focus:
                items = [env.int("i%d_0" % k, *SMALL)]
                wr(items)
                ref.block(items)
            else:
                items = [env.int("i%d_%d" % (k, q), *SMALL) for q in range(m)]
                if empty == 2 or m == 0:
                    wr(x for x in [])
                i = 0
                for c, b in enumerate(blocks):
                    grp = items[i:i + b]
                    i += b
                    if form == "lists" or (form == "alternating" and c % 2 == 0):
                        wr(list(grp))
                        ref.block(grp)
                    else:
                        wr(x for x in grp)
                        ref.singles(grp)
                    if empty == 1 and c == 0:
                        wr([])
            ref.end()
            vals.append(items)
        w.close()
    ok, e = env.attempt(run)
    if not ok:
        return HK.unexpected(env, "c17.gen-write-no-exception", e)
    env.reach("c17.gen-write-no-exception")
    HK.check_sink(env, "c17.gen-bytes==reference(grouping)", sink, 0, ref.exp, "py:BinaryP%sWriter:bytes-depend-on-the-grouping-of-write-calls" % pattern)
    env.observe("outlen", sink.length)
    env.observe("body", [sink.at(ref.header_len + i) for i in range(ref.exp.cap - ref.header_len)])
    src = env.source(ref.exp, "full")

    def read():
        r = getattr(G.binary, "BinaryP%sReader" % pattern)(src)
        out = []
        for k in range(n):
            x = getattr(r, "read_x%d" % k)()
            out.append(list(x) if pattern[k] == "S" else x)
        r.close()
        return r, out
    ok, res = env.attempt(read)
    if not ok:
        return HK.unexpected(env, "c17.gen-read-no-exception", res)
    env.reach("c17.gen-read-no-exception")
    r, out = res
    same = [len(out) == n]
    for k in range(n):
        if pattern[k] == "S":
            same.append(isinstance(out[k], list) and len(out[k]) == len(vals[k]))
            same.extend(EQ(a, b) for a, b in zip(out[k], vals[k]))
        else:
            same.append(EQ(out[k], vals[k]))
    env.check("c17.gen-items-read==items-written", AND(*same), "py:BinaryP%sReader:items-depend-on-the-grouping-of-write-calls" % pattern,
              "the items read back differ from the concatenation of the items passed to the write calls")
    env.check("c17.gen-whole-stream-consumed", EQ(HK.consumed(r._stream, src), ref.exp.length), "py:BinaryP%sReader:consumed-differs" % pattern)
    env.observe("read", out)


# ------------------------------------------------------------------------------------------------
# C15: the generated readers refuse a header whose schema differs from their own by ONE edit of the JSON document

def _paths(tree, path=()):
    """all nodes of a JSON tree as (path, node)"""
    yield path, tree
    if isinstance(tree, dict):
        for k, v in tree.items():
            yield from _paths(v, path + (k,))
    elif isinstance(tree, list):
        for i, v in enumerate(tree):
            yield from _paths(v, path + (i,))


def _replace(tree, path, fn):
    """copy of tree with the node at path replaced by fn(node)"""
    if not path:
        return fn(tree)
    if isinstance(tree, dict):
        return {k: (_replace(v, path[1:], fn) if k == path[0] else v) for k, v in tree.items()}
    return [(_replace(v, path[1:], fn) if i == path[0] else v) for i, v in enumerate(tree)]


def _rename_key(d, old):
    return {((k + "_") if k == old else k): v for k, v in d.items()}      # position of the key kept


def schema_edits(tree):
    """single edits of a schema document: [(label, path, kind)]; kinds on arrays: drop-last, drop-first, append-new,
    duplicate-last, swap(i, i+1); on objects: rename-key, drop-key, add-key; on scalars: change"""
    out = []
    for path, node in _paths(tree):
        lab = "/".join(str(x) for x in path) or "<root>"
        if isinstance(node, list):
            out.append((lab + ":append-new", path, ("append-new",)))
            if node:
                out.append((lab + ":drop-last", path, ("drop-last",)))
                out.append((lab + ":duplicate-last", path, ("duplicate-last",)))
                if len(node) > 1:
                    out.append((lab + ":drop-first", path, ("drop-first",)))
                for i in range(len(node) - 1):
                    out.append((lab + ":swap%d" % i, path, ("swap", i)))
        elif isinstance(node, dict):
            out.append((lab + ":add-key", path, ("add-key",)))
            for k in node:
                out.append((lab + ":rename-key-" + k, path, ("rename-key", k)))
                out.append((lab + ":drop-key-" + k, path, ("drop-key", k)))
        else:
            out.append((lab + ":change", path, ("change",)))
    return out


def apply_edit(env, tree, path, kind, symbolic_ints):
    """-> edited tree.  An integer scalar is replaced by a symbolic integer when the document is handed over as an object
    (NDJSON under pysym: whether it still equals the original is then the solver's decision), else by a value from a small pool."""
    k = kind[0]
    if k == "append-new":
        return _replace(tree, path, lambda n: n + [{"name": "zz", "type": "int32"}])
    if k == "drop-last":
        return _replace(tree, path, lambda n: n[:-1])
    if k == "drop-first":
        return _replace(tree, path, lambda n: n[1:])
    if k == "duplicate-last":
        return _replace(tree, path, lambda n: n + [n[-1]])
    if k == "swap":
        i = kind[1]
        return _replace(tree, path, lambda n: n[:i] + [n[i + 1], n[i]] + n[i + 2:])
    if k == "add-key":
        return _replace(tree, path, lambda n: dict(n, zz=None))
    if k == "rename-key":
        return _replace(tree, path, lambda n: _rename_key(n, kind[1]))
    if k == "drop-key":
        return _replace(tree, path, lambda n: {a: b for a, b in n.items() if a != kind[1]})

    def change(n):
        if isinstance(n, bool):
            return not n
        if isinstance(n, int):
            if symbolic_ints:
                return env.int("scalar", -2**31, 2**31 - 1)
            return [n, n + 1, 0, -n][env.choice("scalar", 4)]
        if isinstance(n, str):
            return [n + "x", n[:-1], "", n.upper() if n.upper() != n else n.lower()][env.choice("scalar", 4)]
        if n is None:
            return [[], "", {}][env.choice("scalar", 3)]          # null -> an empty value of another kind (0 / false are the type-lenient cases)
        return None
    return _replace(tree, path, change)


def json_equal_spec(a, b):
    """JSON equality of two documents (objects: same members; arrays: same length, element-wise; numbers by value; strings,
    null by identity of kind and value).  Leaves may be symbolic integers."""
    if isinstance(a, dict) or isinstance(b, dict):
        if not (isinstance(a, dict) and isinstance(b, dict)) or set(a) != set(b):
            return False
        return AND(*[json_equal_spec(a[k], b[k]) for k in a]) if a else True
    if isinstance(a, list) or isinstance(b, list):
        if not (isinstance(a, list) and isinstance(b, list)) or len(a) != len(b):
            return False
        return AND(*[json_equal_spec(x, y) for x, y in zip(a, b)]) if a else True
    if a is None or b is None:
        return a is None and b is None
    if isinstance(a, str) or isinstance(b, str):
        return isinstance(a, str) and isinstance(b, str) and a == b
    return EQ(a, b)


def h_schema_edits(env, proto, fmt, family="c01types"):
    """the generated NDJson<P>Reader / Binary<P>Reader constructor on a well-formed header (magic / version right) whose schema
    is the reader's own schema after one solver-chosen edit (or unedited): accepted iff the schema is JSON-equal (binary: the
    schema text is equal) to the reader's own."""
    G = pkg(env, family)
    base = getattr(G.protocols, proto + "ReaderBase")
    own_text = base.schema
    own = json.loads(own_text)
    edits = [("<unedited>", (), None)] + schema_edits(own)
    label, path, kind = edits[env.choice("edit", len(edits))]
    env.observe("edit", label)
    sym_obj = fmt == "ndjson" and env.mode == "sym"
    edited = own if kind is None else apply_edit(env, own, path, kind, fmt == "ndjson")
    dumps = lambda o: json.dumps(o, ensure_ascii=False, separators=(",", ":"))
    if fmt == "ndjson":
        valid = json_equal_spec(edited, own)
        obj = {"yardl": {"version": 1, "schema": edited}}
        J = G.J
        if sym_obj:
            line = HK._HeaderToken("<header>")
            line.obj, line.bad = obj, False
            old = J.json
            J.json = HK._JsonStub(old if not isinstance(old, HK._JsonStub) else old._real)
        else:
            line = dumps(obj) + "\n"
        st = HK._LineStream([line, '{"zz":1}\n'])
        try:
            ok, e = env.attempt(getattr(G.ndjson, "NDJson%sReader" % proto), st)
        finally:
            if sym_obj:
                J.json = old
        refusal = "ValueError"
        cname = "NDJson%sReader" % proto
    else:
        text = dumps(edited)
        if kind is None and text != own_text:
            text = own_text          # (the schema text is not in json.dumps' compact form: keep the original for the unedited case)
        valid = text == own_text
        tb = text.encode("utf-8")
        data = env.data().append(list(b"yardl") + [1, 0, 0, 0] + list(HK._c_uvarint(len(tb))) + list(tb) + [2, 2, 2, 2])
        src = env.source(data, "full")
        ok, e = env.attempt(getattr(G.binary, "Binary%sReader" % proto), src)
        refusal = "RuntimeError"
        cname = "Binary%sReader" % proto
    if ok:
        env.observe("outcome", "accepted")
        env.check("schema-edit.accepted-only-if-schema-equal", valid, "py:%s.__init__:foreign-schema-accepted:%s" % (cname, kind[0] if kind else "unedited"),
                  "the reader accepted a header whose schema is its own after the edit `%s`" % label)
        if fmt == "ndjson":
            env.check("schema-edit.only-the-header-consumed", st.reads == 1, "py:%s.__init__:more-than-the-header-line-read" % cname)
    else:
        env.observe("outcome", type(e).__name__)
        if type(e).__name__ != refusal:
            return HK.unexpected(env, "schema-edit.refusal-is-the-documented-error", e)
        env.reach("schema-edit.refusal-is-the-documented-error")
        env.check("schema-edit.refused-only-if-schema-differs", NOT(valid), "py:%s.__init__:own-schema-refused" % cname, "the reader refused a header carrying its own schema (edit `%s`)" % label)
