"""pysym harnesses for yardl-GENERATED Python (protocols.py state machines, types.py computed fields,
binary.py end to end).  The generator is built from the current working tree on every run and run on
the model family under /verif/models/<name>/ in a temporary copy; the generated package is imported
twice (symbolic copy with shims where needed, pristine native copy for replays)."""
import importlib, os, shutil, subprocess, sys
from engine.pysym.core import AND, OR, NOT, IMPLIES, EQ, ITE, is_sym, tdiv, trem
from engine.pysym import env as E, mem

VERIF = E.VERIF
MODELS = os.path.join(VERIF, "models")
_GEN = {}
_YARDL = [None]


class Ns:
    pass


def _root():
    return E.load_modules().dir   # everything lives under the run's temp dir (removed at exit; frames under it count as code under test)


def build_yardl():
    if _YARDL[0]:
        return _YARDL[0]
    out = os.path.join(_root(), "yardl-bin")
    env = dict(os.environ, GOFLAGS="-mod=mod", GOPROXY="off")
    env.pop("GOSUMDB", None)
    repo = os.environ.get("VERIF_REPO", "/repo")
    r = subprocess.run(["go", "build", "-o", out, "./cmd/yardl"], cwd=os.path.join(repo, "tooling"), env=env, capture_output=True, text=True)
    if r.returncode != 0:
        alt = "/root/go/pkg/mod/golang.org/toolchain@v0.0.1-go1.24.0.linux-amd64/bin/go"
        r = subprocess.run([alt, "build", "-o", out, "./cmd/yardl"], cwd=os.path.join(repo, "tooling"), env=dict(env, GOTOOLCHAIN="local"), capture_output=True, text=True)
    if r.returncode != 0:
        raise RuntimeError("go build yardl failed: " + r.stderr[-800:])
    _YARDL[0] = out
    return out


def prepare(names):
    """build yardl, generate and import the model packages (idempotent; call in the parent before forking)"""
    for name in names:
        if name in _GEN:
            continue
        y = build_yardl()
        root = _root()
        mdir = os.path.join(root, "models", name)
        shutil.copytree(os.path.join(MODELS, name), mdir)
        if name == "c19computed":
            from harness.py import c19shapes
            with open(os.path.join(mdir, "shapes.yml"), "w") as f:     # generated part of the model (see c19shapes.py)
                f.write(c19shapes.yml())
        r = subprocess.run([y, "generate"], cwd=mdir, capture_output=True, text=True)
        outdir = os.path.join(root, "models", "out_" + name)
        if r.returncode != 0 or not os.path.isdir(outdir):
            raise RuntimeError("yardl generate failed for %s: %s %s" % (name, r.stdout[-400:], r.stderr[-800:]))
        pk = [d for d in os.listdir(outdir) if os.path.isdir(os.path.join(outdir, d))]
        src = os.path.join(outdir, pk[0])
        g = {}
        old = sys.dont_write_bytecode
        sys.dont_write_bytecode = True
        try:
            for kind in ("sym", "nat"):
                pkg = "gen_%s_%s_p%d" % (kind, name, os.getpid())
                shutil.copytree(src, os.path.join(root, pkg), ignore=shutil.ignore_patterns("__pycache__"))
                ns = Ns()
                ns.pkg = importlib.import_module(pkg)
                for sub in ("yardl_types", "types", "protocols", "_binary", "binary", "_ndjson"):
                    setattr(ns, sub.lstrip("_") if sub in ("_binary", "_ndjson") else sub, None)
                ns.T = importlib.import_module(pkg + ".yardl_types")
                ns.types = importlib.import_module(pkg + ".types")
                ns.protocols = importlib.import_module(pkg + ".protocols")
                ns.B = importlib.import_module(pkg + "._binary")
                ns.binary = importlib.import_module(pkg + ".binary")
                try:
                    ns.J = importlib.import_module(pkg + "._ndjson")
                    ns.ndjson = importlib.import_module(pkg + ".ndjson")
                except Exception:                  # a package generated without the NDJSON classes
                    ns.J = ns.ndjson = None
                g[kind] = ns
        finally:
            sys.dont_write_bytecode = old
        # the symbolic copy of the runtime gets the same module-global shims as the static files
        for m in (g["sym"].T, g["sym"].B) + ((g["sym"].J,) if g["sym"].J is not None else ()):
            mem.install(m)
        # generated types.py converts operands with int(...)/float(...): keep symbolic ints symbolic there
        mem.install(g["sym"].types, names={"int", "float", "len", "isinstance", "bool"})
        mods = E.load_modules()
        for fn in ("protocols.py", "types.py", "binary.py"):
            mods.sites.setdefault(fn, {}).update(E._scan_sites(os.path.join(src, fn)))
        g["src"] = src
        _GEN[name] = g
    return _GEN


def pkg(env, name):
    if name not in _GEN:
        prepare([name])
    return _GEN[name][env.mode]


# ================================================================================================
# C07: protocol state machines.  Specification automata written from docs/python/language.md:
#   "protocols define a sequence of values, called steps, that are required to be transmitted, in
#    order"; a stream step is "zero or more" items and may be written by several calls ("add more to the
#    stream"); "It is an error to attempt to read or write a protocol's steps out of order or to close a
#    reader or writer without having written or read all steps."
# Reading: a stream step counts as written once write_<step> has been called at least once (possibly
# with an empty iterable); the stream is ended by the next step's call or by close.

class WriterSpec:
    """state = (i, open): i = index of the step expected next (n = all done); open = stream step i has
    been written at least once and is not yet ended"""

    def __init__(self, pattern):
        self.p, self.n = pattern, len(pattern)

    def states(self):
        out = []
        for i in range(self.n + 1):
            out.append((i, False))
            if i < self.n and self.p[i] == "S":
                out.append((i, True))
        return out

    initial = (0, False)

    def write(self, st, k):
        """-> None if rejected, else (hooks, post)"""
        i, op = st
        hooks = []
        if op and k == i + 1:          # calling the next step ends the stream in progress
            hooks.append("_end_stream")
            i, op = i + 1, False
        if k != i:
            return None
        if self.p[k] == "S":
            return hooks + ["_write_x%d" % k], (k, True)
        if op:
            return None
        return hooks + ["_write_x%d" % k], (k + 1, False)

    def write_failed(self, st, k):
        """the implementation of an accepted write_<step k> raises: -> None if the call is rejected anyway, else (hooks, post).
        The hooks are those of the successful call (the failing _write hook was entered); the step is NOT written, so
        the post-state is the pre-state, except that a stream in progress before step k has been ended for good (its end
        marker is on the wire): "previous stream ended, step k not done"."""
        r = self.write(st, k)
        if r is None:
            return None
        i, op = st
        return r[0], ((k, False) if (op and k == i + 1) else st)

    def close(self, st):
        """-> (accepted, hooks).  _close always runs (resources are released even on a protocol error)"""
        i, op = st
        if op and i == self.n - 1:
            return True, ["_end_stream", "_close"]
        return (i == self.n and not op), ["_close"]


class ReaderSpec:
    """state = (i, open): open = the iterable of stream step i was obtained and is not yet exhausted"""

    def __init__(self, pattern):
        self.p, self.n = pattern, len(pattern)

    states = WriterSpec.states
    initial = (0, False)

    def read(self, st, k):
        i, op = st
        if op or k != i:
            return None
        return ["_read_x%d" % k], ((k, True) if self.p[k] == "S" else (k + 1, False))

    def exhaust(self, st):
        i, op = st
        assert op
        return (i + 1, False)

    def close(self, st, skip):
        i, op = st
        return (skip or (i == self.n and not op)), ["_close"]


def enc(st):
    """the simulation relation found by reading the generated code: _state == 2*i + (1 if open)"""
    return 2 * st[0] + (1 if st[1] else 0)


class ImplError(Exception):
    """raised by a recording _write_<step> hook: the implementation layer (serializer, user iterable, I/O) fails"""


def mk_writer(P, pattern, log, failing=None):
    """failing: a (mutable) collection of step indices whose _write hook raises ImplError after having been entered"""
    cls = getattr(P, "P%sWriterBase" % pattern)
    ns = {"_close": lambda self: log.append(("_close",)), "_end_stream": lambda self: log.append(("_end_stream",))}
    for k in range(len(pattern)):
        def hook(self, value, kk=k):
            log.append(("_write_x%d" % kk, value))
            if failing is not None and kk in failing:
                raise ImplError("implementation of write_x%d failed" % kk)
        ns["_write_x%d" % k] = hook
    return type("W", (cls,), ns)


def mk_reader(P, pattern, log, values):
    cls = getattr(P, "P%sReaderBase" % pattern)
    ns = {"_close": lambda self: log.append(("_close",))}
    for k in range(len(pattern)):
        def hook(self, kk=k):
            log.append(("_read_x%d" % kk,))
            return iter(values[kk]) if pattern[kk] == "S" else values[kk]
        ns["_read_x%d" % k] = hook
    return type("R", (cls,), ns)


def related_state(env, spec, name, n):
    """symbolic pre-state over every integer the methods could assign, plus neighbours and out-of-range
    values; constrained to the simulation relation (some specification state is encoded by it)"""
    st = env.int(name, -3, 2 * n + 4)
    env.assume(OR(*[EQ(st, enc(s)) for s in spec.states()]))
    return st


def lift(st, spec_states, f):
    """lift a predicate on specification states through the relation: OR_s (st == enc(s) AND f(s))"""
    return OR(*([AND(EQ(st, enc(s)), f(s)) for s in spec_states] or [False]))


def hook_names(log):
    return [e[0] for e in log]


def h_c07_base(env, pattern, family="c07seq"):
    P = pkg(env, family).protocols
    log = []
    w = mk_writer(P, pattern, log)()
    env.check("c07.writer-init-is-initial-state", AND(EQ(w._state, enc(WriterSpec.initial)), log == []), "py:P%sWriterBase.__init__:not-initial" % pattern)
    for skip in (False, True):
        r = mk_reader(P, pattern, log, {})(skip) if skip else mk_reader(P, pattern, log, {})()
        env.check("c07.reader-init-is-initial-state", AND(EQ(r._state, enc(ReaderSpec.initial)), r._skip_completed_check == skip, log == []),
                  "py:P%sReaderBase.__init__:not-initial" % pattern)
    env.check("c07.schemas-agree", getattr(P, "P%sWriterBase" % pattern).schema == getattr(P, "P%sReaderBase" % pattern).schema, "py:P%s:schema-differs" % pattern)


def h_c07_writer(env, pattern, family="c07seq"):
    """one inductive step of the writer: arbitrary related pre-state x arbitrary public call"""
    P = pkg(env, family).protocols
    n = len(pattern)
    spec = WriterSpec(pattern)
    states = spec.states()
    log = []
    failing = set()
    w = mk_writer(P, pattern, log, failing)()
    st = related_state(env, spec, "state", n)
    w._state = st
    call = env.choice("call", n + 3)   # write_x0..x{n-1}, close, __exit__ without / with a pending exception
    cname = "P%sWriterBase" % pattern
    if call < n:
        k = call
        meth = "write_x%d" % k
        value = [env.int("v0", -2**31, 2**31 - 1), env.int("v1", -2**31, 2**31 - 1)] if pattern[k] == "S" else env.int("v", -2**31, 2**31 - 1)
        if env.choice("implementation-raises", 2) == 1:
            # event: the implementation layer raises inside _write_<step>.  One inductive step again: the post-state must encode the
            # specification's "step not written, a previous stream ended for good" state, so that - by the other steps of this
            # simulation - every continuation (retry, another write to the previous stream, close) is accepted iff the automaton accepts it
            failing.add(k)
            ok, e = env.attempt(getattr(w, meth), value)
            accept = lift(st, states, lambda s: spec.write(s, k) is not None)
            if ok:
                return env.fail("c07.writer-implementation-error-propagates", "py:%s.%s:implementation-error-swallowed" % (cname, meth), "the exception raised by _%s did not reach the caller" % meth)
            env.observe("outcome", type(e).__name__ + " " + "/".join(hook_names(log)))
            if isinstance(e, ImplError):
                env.reach("c07.writer-implementation-error-propagates")
                env.check("c07.writer-accepts-only-in-order", accept, "py:%s.%s:out-of-order-call-accepted" % (cname, meth), "the implementation was invoked in a state where the specification rejects the call")
                env.check("c07.writer-hooks-as-specified", lift(st, states, lambda s: spec.write_failed(s, k) is not None and spec.write_failed(s, k)[0] == hook_names(log)),
                          "py:%s.%s:wrong-hooks" % (cname, meth), "hooks invoked: %s" % hook_names(log))
                env.check("c07.writer-state-after-failed-write", lift(st, states, lambda s: spec.write_failed(s, k) is not None and EQ(w._state, enc(spec.write_failed(s, k)[1]))),
                          "py:%s.%s:state-after-failed-implementation-write" % (cname, meth),
                          "after _%s raised, the state is not `step %d not written, previous stream (if one was in progress) ended`: the ended stream could be written again / would be ended twice" % (meth, k))
                return
            if type(e).__name__ != "ProtocolError":
                return env.fail("c07.writer-rejection-is-ProtocolError", "py:%s.%s:%s" % (cname, meth, type(e).__name__), str(e)[:80])
            env.reach("c07.writer-rejection-is-ProtocolError")
            env.check("c07.writer-rejects-only-out-of-order", NOT(accept), "py:%s.%s:in-order-call-rejected" % (cname, meth), "call rejected in a state where the specification accepts it")
            env.check("c07.writer-rejected-call-has-no-effect", AND(EQ(w._state, st), log == []), "py:%s.%s:rejected-call-has-effect" % (cname, meth))
            return
        ok, e = env.attempt(getattr(w, meth), value)
        accept = lift(st, states, lambda s: spec.write(s, k) is not None)
        if ok:
            env.observe("outcome", "accepted " + "/".join(hook_names(log)))
            env.check("c07.writer-accepts-only-in-order", accept, "py:%s.%s:out-of-order-call-accepted" % (cname, meth), "call accepted in a state where the specification rejects it")
            env.check("c07.writer-hooks-as-specified", lift(st, states, lambda s: spec.write(s, k) is not None and spec.write(s, k)[0] == hook_names(log)),
                      "py:%s.%s:wrong-hooks" % (cname, meth), "hooks invoked: %s" % hook_names(log))
            env.check("c07.writer-value-passed-unchanged", log[-1][1] is value, "py:%s.%s:value-not-passed" % (cname, meth))
            env.check("c07.writer-post-state-related", lift(st, states, lambda s: spec.write(s, k) is not None and EQ(w._state, enc(spec.write(s, k)[1]))),
                      "py:%s.%s:post-state-unrelated" % (cname, meth), "post-state is not the encoding of the specification's post-state")
        else:
            env.observe("outcome", type(e).__name__)
            if type(e).__name__ != "ProtocolError":
                return env.fail("c07.writer-rejection-is-ProtocolError", "py:%s.%s:%s" % (cname, meth, type(e).__name__), str(e)[:80])
            env.reach("c07.writer-rejection-is-ProtocolError")
            env.check("c07.writer-rejects-only-out-of-order", NOT(accept), "py:%s.%s:in-order-call-rejected" % (cname, meth), "call rejected in a state where the specification accepts it")
            env.check("c07.writer-rejected-call-has-no-effect", AND(EQ(w._state, st), log == []), "py:%s.%s:rejected-call-has-effect" % (cname, meth))
        return
    # close / __exit__
    pending = call == n + 2
    meth = "close" if call == n else "__exit__"
    fn = w.close if call == n else (lambda: w.__exit__(ValueError, ValueError("x"), None)) if pending else (lambda: w.__exit__(None, None, None))
    ok, e = env.attempt(fn)
    accept = lift(st, states, lambda s: spec.close(s)[0])
    hooks_ok = lift(st, states, lambda s: spec.close(s)[1] == hook_names(log))
    env.check("c07.writer-close-hooks-as-specified", hooks_ok, "py:%s.%s:wrong-hooks" % (cname, meth), "hooks invoked: %s" % hook_names(log))
    if ok:
        env.observe("outcome", "closed " + "/".join(hook_names(log)))
        if not pending:
            env.check("c07.writer-close-succeeds-only-if-complete", accept, "py:%s.%s:incomplete-protocol-closed-silently" % (cname, meth))
        else:
            env.reach("c07.writer-exit-with-pending-exception-never-raises")
    else:
        env.observe("outcome", type(e).__name__)
        if type(e).__name__ != "ProtocolError" or pending:
            return env.fail("c07.writer-exit-with-pending-exception-never-raises" if pending else "c07.writer-rejection-is-ProtocolError",
                            "py:%s.%s:%s" % (cname, meth, type(e).__name__), str(e)[:80])
        env.reach("c07.writer-rejection-is-ProtocolError")
        env.check("c07.writer-close-fails-only-if-incomplete", NOT(accept), "py:%s.%s:complete-protocol-close-raises" % (cname, meth))


def h_c07_reader(env, pattern, family="c07seq"):
    """one inductive step of the reader for method calls: arbitrary related pre-state x arbitrary call"""
    P = pkg(env, family).protocols
    n = len(pattern)
    spec = ReaderSpec(pattern)
    states = spec.states()
    log = []
    vals = {k: ([env.int("i%d_0" % k, -2**31, 2**31 - 1), env.int("i%d_1" % k, -2**31, 2**31 - 1)] if pattern[k] == "S" else env.int("v%d" % k, -2**31, 2**31 - 1)) for k in range(n)}
    skip = env.choice("skip_completed_check", 2) == 1
    r = mk_reader(P, pattern, log, vals)(skip)
    st = related_state(env, spec, "state", n)
    r._state = st
    call = env.choice("call", n + 2)   # read_x0.., close, __exit__
    cname = "P%sReaderBase" % pattern
    if call < n:
        k = call
        meth = "read_x%d" % k
        ok, res = env.attempt(getattr(r, meth))
        accept = lift(st, states, lambda s: spec.read(s, k) is not None)
        if ok:
            env.observe("outcome", "accepted " + "/".join(hook_names(log)))
            env.check("c07.reader-accepts-only-in-order", accept, "py:%s.%s:out-of-order-call-accepted" % (cname, meth))
            env.check("c07.reader-hooks-as-specified", hook_names(log) == ["_read_x%d" % k], "py:%s.%s:wrong-hooks" % (cname, meth))
            env.check("c07.reader-post-state-related", lift(st, states, lambda s: spec.read(s, k) is not None and EQ(r._state, enc(spec.read(s, k)[1]))),
                      "py:%s.%s:post-state-unrelated" % (cname, meth))
            if pattern[k] == "V":
                env.check("c07.reader-value-passed-unchanged", res is vals[k], "py:%s.%s:value-not-passed" % (cname, meth))
        else:
            env.observe("outcome", type(res).__name__)
            if type(res).__name__ != "ProtocolError":
                return env.fail("c07.reader-rejection-is-ProtocolError", "py:%s.%s:%s" % (cname, meth, type(res).__name__), str(res)[:80])
            env.reach("c07.reader-rejection-is-ProtocolError")
            env.check("c07.reader-rejects-only-out-of-order", NOT(accept), "py:%s.%s:in-order-call-rejected" % (cname, meth))
            env.check("c07.reader-rejected-call-has-no-effect", AND(EQ(r._state, st), log == []), "py:%s.%s:rejected-call-has-effect" % (cname, meth))
        return
    meth = "close" if call == n else "__exit__"
    ok, e = env.attempt(r.close if call == n else (lambda: r.__exit__(None, None, None)))
    accept = lift(st, states, lambda s: spec.close(s, skip)[0])
    env.check("c07.reader-close-hooks-as-specified", hook_names(log) == ["_close"], "py:%s.%s:wrong-hooks" % (cname, meth))
    if ok:
        env.observe("outcome", "closed")
        env.check("c07.reader-close-succeeds-only-if-complete", accept, "py:%s.%s:incomplete-protocol-closed-silently" % (cname, meth))
    else:
        env.observe("outcome", type(e).__name__)
        if type(e).__name__ != "ProtocolError":
            return env.fail("c07.reader-rejection-is-ProtocolError", "py:%s.%s:%s" % (cname, meth, type(e).__name__), str(e)[:80])
        env.reach("c07.reader-rejection-is-ProtocolError")
        env.check("c07.reader-close-fails-only-if-incomplete", NOT(accept), "py:%s.%s:complete-protocol-close-raises" % (cname, meth))


def h_c07_reader_iter(env, pattern, family="c07seq"):
    """the events on the iterable returned for a stream step (the generated _wrap_iterable is a
    generator, so it runs as separate events): pre-state (k, open) is constructed through the API from
    the related state (k, not open); then: consume fully | consume one item, make an arbitrary call,
    consume the rest | consume fully and ask again."""
    P = pkg(env, family).protocols
    n = len(pattern)
    spec = ReaderSpec(pattern)
    streams = [k for k in range(n) if pattern[k] == "S"]
    if not streams:
        env.reach("c07.iter-no-stream-step")
        return
    k = streams[env.choice("stream", len(streams))]
    nitems = env.choice("items", 3)
    log = []
    vals = {j: ([env.int("i%d_%d" % (j, q), -2**31, 2**31 - 1) for q in range(nitems)] if pattern[j] == "S" else 0) for j in range(n)}
    r = mk_reader(P, pattern, log, vals)()
    cname = "P%sReaderBase" % pattern
    st = related_state(env, spec, "state", n)
    env.assume(EQ(st, enc((k, False))))
    r._state = st
    ok, it = env.attempt(getattr(r, "read_x%d" % k))
    if not ok:
        return env.fail("c07.iter-obtain", "py:%s.read_x%d:in-order-call-rejected" % (cname, k), str(it)[:80])
    env.check("c07.iter-obtained-state-is-open", EQ(r._state, enc((k, True))), "py:%s.read_x%d:post-state-unrelated" % (cname, k))
    ev = env.choice("event", 5)
    if ev in (3, 4):  # the iterable is abandoned (closed) / the underlying iterable raises: the step is neither ended nor exhausted
        if nitems == 0:
            env.reach("c07.iter-partial-needs-an-item")
            return
        first = next(it)
        if ev == 3:
            it.close()
            what = "abandoned"
        else:
            ok, e = env.attempt(it.throw, KeyError("underlying"))
            env.check("c07.iter-underlying-error-propagates", AND(not ok, type(e).__name__ == "KeyError"), "py:%s._wrap_iterable:underlying-error-swallowed" % cname)
            what = "failed"
        env.check("c07.iter-%s-iterable-keeps-step-open" % what, AND(first is vals[k][0], EQ(r._state, enc((k, True)))), "py:%s._wrap_iterable:%s-iterable-completes-the-step" % (cname, what))
        call = env.choice("call", n + 1)
        del log[:]
        ok, e = env.attempt(getattr(r, "read_x%d" % call) if call < n else r.close)
        env.check("c07.iter-%s-iterable-blocks-other-calls" % what, AND(not ok, type(e).__name__ == "ProtocolError"),
                  "py:%s.%s:accepted-after-iterable-%s" % (cname, "read_x%d" % call if call < n else "close", what))
    elif ev == 0:      # consume fully
        got = list(it)
        env.check("c07.iter-items-passed-unchanged", AND(len(got) == nitems, all(a is b for a, b in zip(got, vals[k]))), "py:%s._wrap_iterable:items-differ" % cname)
        env.check("c07.iter-exhaustion-completes-the-step", EQ(r._state, enc(spec.exhaust((k, True)))), "py:%s._wrap_iterable:exhaustion-post-state-unrelated" % cname)
        again = list(it)
        env.check("c07.iter-exhausted-iterable-stays-exhausted", AND(again == [], EQ(r._state, enc(spec.exhaust((k, True))))), "py:%s._wrap_iterable:re-iteration-has-effect" % cname)
    elif ev == 1:    # partial consumption, then any other call must be rejected without effect, then the rest
        if nitems == 0:
            env.reach("c07.iter-partial-needs-an-item")
            return
        first = next(it)
        env.check("c07.iter-partial-consumption-keeps-step-open", AND(first is vals[k][0], EQ(r._state, enc((k, True)))), "py:%s._wrap_iterable:partial-consumption-changes-state" % cname)
        call = env.choice("call", n + 1)
        del log[:]
        ok, e = env.attempt(getattr(r, "read_x%d" % call) if call < n else r.close)
        if ok:
            return env.fail("c07.iter-open-stream-blocks-other-calls", "py:%s.%s:accepted-while-iterable-not-consumed" % (cname, "read_x%d" % call if call < n else "close"))
        if type(e).__name__ != "ProtocolError":
            return env.fail("c07.iter-open-stream-blocks-other-calls", "py:%s:%s-while-iterable-open" % (cname, type(e).__name__), str(e)[:80])
        env.check("c07.iter-open-stream-blocks-other-calls", AND(EQ(r._state, enc((k, True))), hook_names(log) == (["_close"] if call == n else [])),
                  "py:%s:rejected-call-has-effect-while-iterable-open" % cname)
        rest = list(it)
        env.check("c07.iter-exhaustion-completes-the-step", AND(len(rest) == nitems - 1, EQ(r._state, enc(spec.exhaust((k, True))))), "py:%s._wrap_iterable:exhaustion-post-state-unrelated" % cname)
    else:            # never consumed: close must fail, state stays open
        ok, e = env.attempt(r.close)
        env.check("c07.iter-unconsumed-iterable-fails-close", AND(not ok, type(e).__name__ == "ProtocolError", EQ(r._state, enc((k, True)))), "py:%s.close:unconsumed-iterable-closed-silently" % cname)
    env.observe("state", r._state)


# ================================================================================================
# C19: computed fields.  Oracle = the mathematical value of the model expression for in-range operands,
# with C/C++ semantics for integer division (truncation toward zero: what the C++ backend computes).

C19_TYPES = {"RecI32": (-2**31, 2**31 - 1), "RecI64": (-2**63, 2**63 - 1), "RecU8": (0, 255), "RecI16": (-2**15, 2**15 - 1)}
RESULT_RANGES = {"Int8": (-2**7, 2**7 - 1), "UInt8": (0, 2**8 - 1), "Int16": (-2**15, 2**15 - 1), "UInt16": (0, 2**16 - 1), "Int32": (-2**31, 2**31 - 1),
                 "UInt32": (0, 2**32 - 1), "Int64": (-2**63, 2**63 - 1), "UInt64": (0, 2**64 - 1), "Size": (0, 2**64 - 1)}

# field -> (model expression, oracle(a, b) -> (exact value, intermediates, divisors), left-associated misreading or None)
INT_FIELDS = {
    "sum": ("a + b", lambda a, b: (a + b, [], []), None),
    "diff": ("a - b", lambda a, b: (a - b, [], []), None),
    "prod": ("a * b", lambda a, b: (a * b, [], []), None),
    "quot": ("a / b", lambda a, b: (tdiv(a, b), [], [b]), None),
    "neg": ("-a", lambda a, b: (-a, [], []), None),
    "nest_sub_sub": ("a - (b - a)", lambda a, b: (a - (b - a), [b - a], []), lambda a, b: (a - b) - a),
    "nest_sub_add": ("a - (b + a)", lambda a, b: (a - (b + a), [b + a], []), lambda a, b: (a - b) + a),
    "nest_mul_add": ("a * (b + a)", lambda a, b: (a * (b + a), [b + a], []), lambda a, b: (a * b) + a),
    "nest_add_mul": ("(a + b) * a", lambda a, b: ((a + b) * a, [a + b], []), None),
    "nest_div_mul": ("a / (b * a)", lambda a, b: (tdiv(a, b * a), [b * a], [b * a]), lambda a, b: (a // b) * a),
}


def result_range(cls, field):
    ann = getattr(cls, field).__annotations__["return"]
    return RESULT_RANGES[ann.__metadata__[0]]


def h_c19_int(env, rec, field):
    T = pkg(env, "c19computed").types
    cls = getattr(T, rec)
    lo, hi = C19_TYPES[rec]
    if rec == "RecI64" and ("mul" in field or field == "prod"):
        lo, hi = -2**38, 2**38      # keeps the 80-bit model of Python int exact for products (stated bound)
    a, b = env.int("a", lo, hi), env.int("b", lo, hi)
    r = cls(a=a, b=b, x=1.0, y=1.0, v=[])
    expr, oracle, misread = INT_FIELDS[field]
    tlo, thi = result_range(cls, field)
    probe = oracle(1, 1)[2]
    if probe:            # C++: division by zero is undefined, Python raises: outside "in-range operands"
        d = b if field == "quot" else b * a
        env.assume(NOT(EQ(d, 0)))
    exact, inter, divs = oracle(a, b)
    inr = AND(*[AND(v >= tlo, v <= thi) for v in [exact] + inter])
    ok, res = env.attempt(getattr(r, field))
    if not ok:
        env.observe("exc", type(res).__name__)
        return env.fail("computed.no-exception-for-in-range-operands", "py:computed:%s:%s" % (field, type(res).__name__), "%s raised %s" % (expr, res))
    env.reach("computed.no-exception-for-in-range-operands")
    env.observe("result", res)
    if divs and field == "quot":
        nonneg_or_exact = OR(EQ(trem(a, b), 0), EQ(a < 0, b < 0))
        env.check("computed.int-division==truncated-quotient", IMPLIES(AND(inr, nonneg_or_exact), EQ(res, exact)), "py:computed:int-division-wrong-for-exact-or-nonnegative-quotient",
                  "a / b differs from the quotient although it is exact or non-negative")
        env.check("computed.int-division==truncated-quotient", IMPLIES(AND(inr, NOT(nonneg_or_exact)), EQ(res, exact)), "py:computed:int-division-floors-negative-quotient",
                  "a / b is emitted as Python floor division: a negative inexact quotient is rounded down (C++ truncates toward zero)")
        return
    key = "py:computed:%s:wrong-value" % field
    desc = "%s evaluates to a different value" % expr
    # (the key must not depend on a coincidence of the concrete replay values: a native run whose operands happen to
    # make the value equal to a mis-parenthesised reading used to get another key than the symbolic run - a flake)
    env.check("computed.int-expression==mathematical-value", IMPLIES(inr, EQ(res, exact)), key, desc)


FPOOL = [7.0, 2.0, -7.5, 0.1, 1e300, 3.0]
IPOOL = [0, 1, -7, 2, 3]


def h_c19_float(env, rec, field):
    T = pkg(env, "c19computed").types
    cls = getattr(T, rec)
    lo, hi = C19_TYPES[rec]
    ipool = [v for v in IPOOL if lo <= v <= hi]
    x, y, a, b, n = 7.0, 2.0, 1, 1, 0          # only the operands the field uses are chosen by the solver
    if field in ("fsum", "fquot", "fnest", "mixed"):
        x = FPOOL[env.choice("x", len(FPOOL))]
    if field in ("fsum", "fquot", "fnest"):
        y = FPOOL[env.choice("y", len(FPOOL))]
    if field in ("mixed", "pw"):
        a = ipool[env.choice("a", len(ipool))]
    if field == "pw":
        b = ipool[env.choice("b", len(ipool))]
    if field == "sz":
        n = env.choice("len", 3)
    r = cls(a=a, b=b, x=x, y=y, v=[5] * n)
    ok, res = env.attempt(getattr(r, field))
    if not ok:
        if field == "pw" and type(res).__name__ == "ZeroDivisionError" and a == 0 and b < 0:
            env.reach("computed.no-exception-for-in-range-operands")    # 0 ** negative: infinity in C++, outside the domain
            return
        return env.fail("computed.no-exception-for-in-range-operands", "py:computed:%s:%s" % (field, type(res).__name__), str(res)[:80])
    env.reach("computed.no-exception-for-in-range-operands")
    env.observe("result", res)
    same = lambda p, q: isinstance(p, float) and isinstance(q, float) and (p == q or (p != p and q != q))
    if field == "fquot":
        key = "py:computed:float-division-floors" if same(res, x // y) else "py:computed:fquot:wrong-value"
        env.check("computed.float-expression==ieee-value", same(res, x / y), key, "x / y is emitted as Python floor division: %r / %r gives %r, IEEE (C++) gives %r" % (x, y, res, x / y))
    elif field == "fnest":
        key = "py:computed:right-operand-parentheses-dropped" if same(res, (x - y) - x) else "py:computed:fnest:wrong-value"
        env.check("computed.float-expression==ieee-value", same(res, x - (y - x)), key, "x - (y - x) evaluates left-to-right")
    elif field == "fsum":
        env.check("computed.float-expression==ieee-value", same(res, x + y), "py:computed:fsum:wrong-value")
    elif field == "mixed":
        env.check("computed.float-expression==ieee-value", same(res, float(a) + x), "py:computed:mixed:wrong-value")
    elif field == "pw":
        env.check("computed.float-expression==ieee-value", same(res, float(a) ** float(b)), "py:computed:pw:wrong-value")
    elif field == "sz":
        env.check("computed.size==length", type(res) is int and res == n, "py:computed:sz:wrong-value")


# ------------------------------------------------------------------------------------------------
# C19, systematically: every nesting of two binary operators (and the placements of a unary minus) over
# three operands; the model text and the expression trees come from harness/py/c19shapes.py.
from harness.py import c19shapes as SH

SH_TYPES = {"Sh3I32": (-2**31, 2**31 - 1), "Sh3I64": (-2**63, 2**63 - 1), "Sh3U8": (0, 255), "Sh3I16": (-2**15, 2**15 - 1)}
SH_IPOOL = [0, 1, 2, 3, -2]
SH_UPOOL = [0, 1, 2, 3, 7]
SH_FPOOL = [2.0, 0.5, -3.0, 7.5, 0.0]
# `(-a) ** b` over floating-point operands was emitted as `-(self.a) ** self.b` (Python reads -(a ** b)); found by
# this harness, repaired in /repo by 641186f.  The shape keeps a key of its own so that the finding stays identifiable.
SH_KEYS = {("Sh3F64", "nl_pow"): "py:computed:neg-left-operand-of-pow"}
SH_EXCLUDED = set()


class _OutOfDomain(Exception):
    pass


def _count(tree, op):
    if SH.is_leaf(tree):
        return 0
    return (1 if tree[0] == op else 0) + sum(_count(t, op) for t in tree[1:])


def sh_eval_int(tree, vals, inter, divs):
    """exact integer value of a power-free tree (C semantics: division truncates); records every node value
    in `inter` and every (dividend, divisor) in `divs`"""
    if isinstance(tree, str):
        return vals[tree]
    if tree[0] == "lit":
        return tree[1]
    if tree[0] == "neg":
        v = -sh_eval_int(tree[1], vals, inter, divs)
    else:
        l, r = sh_eval_int(tree[1], vals, inter, divs), sh_eval_int(tree[2], vals, inter, divs)
        if tree[0] == "add":
            v = l + r
        elif tree[0] == "sub":
            v = l - r
        elif tree[0] == "mul":
            v = l * r
        elif tree[0] == "div":
            divs.append((l, r))
            v = tdiv(l, r)
        else:
            raise KeyError(tree[0])
    inter.append(v)
    return v


def sh_eval_typed(tree, vals, lo, hi):
    """value of a tree over concrete operands with the documented typing: `**` yields float64 (operands
    converted), any other operator is integral iff both operands are, else float64 (IEEE double
    operations); integer division truncates.  Raises _OutOfDomain where C++ and Python legitimately part
    (integer intermediate outside the operand type, division by zero, 0 ** negative, negative ** non-integer,
    overflow to infinity)."""
    if isinstance(tree, str):
        return vals[tree]
    if tree[0] == "lit":
        return float(tree[1]) if isinstance(vals.get("a"), float) else tree[1]
    if tree[0] == "neg":
        v = sh_eval_typed(tree[1], vals, lo, hi)
        r = -v
    else:
        l, r0 = sh_eval_typed(tree[1], vals, lo, hi), sh_eval_typed(tree[2], vals, lo, hi)
        op = tree[0]
        integral = op != "pow" and isinstance(l, int) and isinstance(r0, int)
        try:
            if integral:
                if op == "div":
                    if r0 == 0:
                        raise _OutOfDomain("integer division by zero")
                    r = tdiv(l, r0)
                    if r * r0 != l and (l < 0) != (r0 < 0):
                        raise _OutOfDomain("negative inexact quotient: Python floors (listed known finding)")
                else:
                    r = l + r0 if op == "add" else l - r0 if op == "sub" else l * r0
            else:
                l, r0 = float(l), float(r0)
                if op == "div":
                    if r0 == 0.0:
                        raise _OutOfDomain("division by zero")
                    r = l / r0
                elif op == "pow":
                    if (l == 0.0 and r0 < 0) or (l < 0 and r0 != int(r0)):
                        raise _OutOfDomain("pow outside the real domain")
                    r = l ** r0
                else:
                    r = l + r0 if op == "add" else l - r0 if op == "sub" else l * r0
        except (OverflowError, ZeroDivisionError) as e:
            raise _OutOfDomain(str(e))
    if isinstance(r, int) and not (lo <= r <= hi):
        raise _OutOfDomain("integer intermediate outside the operand type")
    if isinstance(r, complex) or (isinstance(r, float) and (r != r or r in (float("inf"), float("-inf")))):
        raise _OutOfDomain("not a finite real")
    return r


def h_c19_shape(env, rec, field):
    T = pkg(env, "c19computed").types
    cls = getattr(T, rec)
    text, tree = SH.shapes()[field]
    text = text.replace("LIT", SH.LITERAL_RECORDS.get(rec, ""))
    same = lambda p, q: type(p) is type(q) and (p == q or (p != p and q != q))
    if rec != SH.FLOAT_RECORD and not SH.uses_pow(tree):
        # integer operands, symbolic over the field type (narrowed so that products stay inside the 80-bit model)
        lo, hi = SH_TYPES[rec]
        nmul = _count(tree, "mul")
        cap = [2**63, 2**38, 2**24][nmul]
        a, b, c = (env.int(n, max(lo, -cap), min(hi, cap)) for n in "abc")
        inter, divs = [], []
        exact = sh_eval_int(tree, {"a": a, "b": b, "c": c}, inter, divs)
        # C++: division by zero is undefined; where the quotient is negative and inexact Python's floor
        # division is the listed known finding: both are outside this obligation (it is about the tree).
        # The sign conditions (rather than "exact or non-negative quotient") keep the 80-bit division
        # circuits out of the proof: with them // and C++ / are the same term.
        for n, d in divs:
            env.assume(AND(n >= 0, d > 0))     # non-negative dividend, positive divisor: floor and truncation agree
        inr = AND(*[AND(v >= lo, v <= hi) for v in inter])
        r = cls(a=a, b=b, c=c)
        ok, res = env.attempt(getattr(r, field))
        if not ok:
            env.observe("exc", type(res).__name__)
            return env.fail("computed.no-exception-for-in-range-operands", "py:computed:shape:%s:%s" % (field, type(res).__name__), "%s raised %s" % (text, res))
        env.reach("computed.no-exception-for-in-range-operands")
        env.observe("result", res)
        env.check("computed.nested-expression==value-of-the-expression-tree", IMPLIES(inr, EQ(res, exact)), "py:computed:shape:%s:wrong-value" % field,
                  "`%s` evaluates to a value different from its expression tree (operand grouping)" % text)
        return
    # power shapes / floating-point operands: operands from small pools, decided by forking
    if rec == SH.FLOAT_RECORD:
        pool, lo, hi = SH_FPOOL, 0, 0
    else:
        lo, hi = SH_TYPES[rec]
        pool = SH_UPOOL if lo == 0 else SH_IPOOL
    names = sorted({n for n in "abc" if n in text})
    vals = {"a": pool[0], "b": pool[0], "c": pool[0]}
    for n in names:
        vals[n] = pool[env.choice(n, len(pool))]
    try:
        exact = sh_eval_typed(tree, vals, lo, hi)
    except _OutOfDomain:
        env.reach("computed.operands-outside-the-common-domain")
        return
    r = cls(**vals)
    ok, res = env.attempt(getattr(r, field))
    if not ok:
        env.observe("exc", type(res).__name__)
        return env.fail("computed.no-exception-for-in-range-operands", "py:computed:shape:%s:%s" % (field, type(res).__name__), "%s raised %s" % (text, res))
    env.reach("computed.no-exception-for-in-range-operands")
    env.observe("result", res)
    env.check("computed.nested-expression==value-of-the-expression-tree", same(res, exact), SH_KEYS.get((rec, field), "py:computed:shape:%s:wrong-value" % field),
              "`%s` with %r evaluates to %r, its expression tree to %r" % (text, vals, res, exact))


# ================================================================================================
# C01 end to end through generated code: Binary<P>Writer -> bytes == header + plan-level reference
# encoding of the values; Binary<P>Reader over those bytes returns the written values.
from harness.py import kernels as HK

# step descriptors: kernels' type language plus generated-type kinds
#   ["rec", Class, [(field, desc)...]]  ["gunion", Class, [(CaseAttr, desc)...], has_null]
#   ["genum", Class, base]  ["gflags", Class, base, pool]  ["ndarray", dtype, shape]
POINT = ["rec", "Point", [("x", ["int16"]), ("y", ["int64"]), ("tag", ["optional", ["bool"]])]]
SMALL = ["rec", "Small", [("k", ["uint8"]), ("f", ["optional", ["bool"]])]]
C01_PROTOS = {
    "PBytes": [("i8", ["int8"]), ("u8", ["uint8"]), ("b", ["bool"])],
    "PI16": [("i16", ["int16"]), ("u16", ["uint16"])],
    "PI32": [("i32", ["int32"]), ("u32", ["uint32"])],
    "PI64": [("i64", ["int64"])],
    "PU64": [("u64", ["uint64"]), ("sz", ["size"])],
    "PFloats": [("f", ["f32"]), ("d", ["f64"]), ("cf", ["c32"]), ("s", ["string", ["", "a", "hé€", "0123456789abcdefXYZ"]])],
    "POptional": [("o", ["optional", ["int32"]]), ("os", ["optional", ["string", ["", "x€"]]])],
    "PUnion": [("u", ["gunion", "Int16OrBool", [("Int16", ["int16"]), ("Bool", ["bool"])], False]),
               ("un", ["gunion", "Uint8OrString", [("Uint8", ["uint8"]), ("String", ["string", ["", "ab"]])], True])],
    "PVector": [("v", ["vector", ["uint16"]]), ("fv", ["fixedvector", ["int8"], 3])],
    "PMap": [("m", ["map", ["uint8"], ["bool"]]), ("ms", ["map", ["string", ["a", "b€"]], ["int8"]])],
    "PEnum": [("e", ["genum", "Color", ["uint8"]]), ("f", ["gflags", "Perm", ["uint16"], [0, 1, 3, 11, 16, 65535]])],
    "PRecord": [("p", POINT), ("g", ["rec", "Pair", [("first", ["int8"]), ("second", ["bool"])]])],
    "PAlias": [("a", ["vector", ["uint32"]])],
    "PStream": [("n", ["uint8"]), ("pts", ["stream", SMALL]), ("tail", ["stream", ["int16"]])],
    "PArray": [("fa", ["ndarray", "int16", [2, 2]])],
}


def ggen(env, G, t, name, maxlen, cache):
    k = t[0]
    if k == "rec":
        vals, conds = {}, []
        for f, ft in t[2]:
            v, c = ggen(env, G, ft, "%s.%s" % (name, f), maxlen, cache)
            vals[f] = v
            conds.append(c)
        return getattr(G.types, t[1])(**vals), AND(*conds)
    if k == "gunion":
        ncase = len(t[2]) + (1 if t[3] else 0)
        tag = env.choice(name + ".tag", ncase)
        if t[3] and tag == 0:
            return None, True
        attr, ct = t[2][tag - (1 if t[3] else 0)]
        v, c = ggen(env, G, ct, name + ".v", maxlen, cache)
        return getattr(getattr(G.types, t[1]), attr)(v), c
    if k == "genum":
        x = env.int(name, *HK.WIDE)
        lo, hi = HK.RANGES[t[2][0]]
        return getattr(G.types, t[1])(x), AND(x >= lo, x <= hi)
    if k == "gflags":
        return getattr(G.types, t[1])(t[3][env.choice(name, len(t[3]))]), True
    if k == "ndarray":
        import numpy as np
        pool = [np.array([[0, 1], [-1, 32767]], dtype=t[1]), np.array([[-32768, 2], [3, 4]], dtype=t[1])]
        return pool[env.choice(name, len(pool))], True
    if k == "stream":
        n = env.choice(name + ".len", maxlen + 1)
        items = [ggen(env, G, t[1], "%s.%d" % (name, i), maxlen, cache) for i in range(n)]
        return [v for v, _ in items], AND(*[c for _, c in items]) if items else True
    return HK.gen(env, t, name, maxlen, cache)


def genc(env, t, v, out):
    k = t[0]
    if k == "rec":
        for f, ft in t[2]:
            genc(env, ft, getattr(v, f), out)
    elif k == "gunion":
        if v is None:
            out.append([0])
        else:
            idx = type(v).index
            out.append([idx + (1 if t[3] else 0)])
            genc(env, t[2][idx][1], v.value, out)
    elif k == "genum":
        HK.enc(env, t[2], v.value, out, True)
    elif k == "gflags":
        HK.enc(env, t[2], int(v), out, True)
    elif k == "ndarray":
        for x in v.flatten(order="C"):         # fixed array: no length prefix, elements in C order, each in its element encoding
            HK.enc(env, [t[1]], int(x), out, True)
    else:
        HK.enc(env, t, v, out, True)
    return out


def gveq(env, t, a, b):
    k = t[0]
    if k == "rec":
        if type(a) is not type(b):
            return False
        return AND(*[gveq(env, ft, getattr(a, f), getattr(b, f)) for f, ft in t[2]])
    if k == "gunion":
        if a is None or b is None:
            return a is None and b is None
        if type(a) is not type(b):
            return False
        return gveq(env, t[2][type(a).index][1], a.value, b.value)
    if k == "genum":
        return type(a) is type(b) and a._name_ == b._name_ and EQ(a.value, b.value)
    if k == "gflags":
        return type(a) is type(b) and int(a) == int(b)
    if k == "stream":
        if not isinstance(b, list) or len(a) != len(b):
            return False
        return AND(*[gveq(env, t[1], x, y) for x, y in zip(a, b)]) if a else True
    return HK.veq(env, t, a, b)


def gobs(env, t, v):
    k = t[0]
    if v is None:
        return None
    if k == "rec":
        return [gobs(env, ft, getattr(v, f)) for f, ft in t[2]]
    if k == "gunion":
        return [type(v).__name__, gobs(env, t[2][type(v).index][1], v.value)]
    if k == "genum":
        return [v._name_, v.value]
    if k == "gflags":
        return int(v)
    if k == "stream":
        return [gobs(env, t[1], x) for x in v]
    if k == "ndarray":
        return v.tolist()
    return HK.obs_val(env, t, v)


def expected_stream(env, G, proto, steps, vals, stream_mode):
    cls = getattr(G.protocols, proto + "WriterBase")
    schema = cls.schema.encode("utf-8")
    exp = env.data()
    exp.append(list(b"yardl") + [1, 0, 0, 0] + list(HK._c_uvarint(len(schema))) + list(schema))
    header_len = exp.length
    for (name, t), v in zip(steps, vals):
        if t[0] == "stream":
            if stream_mode == "list":
                if len(v) > 0:
                    exp.append(list(HK._c_uvarint(len(v))))
                    for x in v:
                        genc(env, t[1], x, exp)
            else:
                for x in v:
                    exp.append([1])
                    genc(env, t[1], x, exp)
            exp.append([0])
        else:
            genc(env, t, v, exp)
    return exp, header_len


def _gen_values(env, G, proto, maxlen):
    steps = C01_PROTOS[proto]
    cache, vals, conds = {}, [], []
    for name, t in steps:
        v, c = ggen(env, G, t, name, maxlen, cache)
        vals.append(v)
        conds.append(c)
    env.assume(AND(*conds))     # in-range values: range rejection is covered at kernel level (C01 kernels)
    return steps, vals


def h_c01_gen_write(env, proto, maxlen=2, stream_mode="list"):
    G = pkg(env, "c01types")
    steps, vals = _gen_values(env, G, proto, maxlen)
    sink = env.sink()

    def run():
        w = getattr(G.binary, "Binary%sWriter" % proto)(sink)
        for (name, t), v in zip(steps, vals):
            wv = v
            if t[0] == "stream" and stream_mode != "list":
                wv = (x for x in v)
            getattr(w, "write_" + name)(wv)
        w.close()
    ok, e = env.attempt(run)
    if not ok:
        return HK.unexpected(env, "gen.write-no-exception", e)
    env.reach("gen.write-no-exception")
    exp, header_len = expected_stream(env, G, proto, steps, vals, stream_mode)
    HK.check_sink(env, "gen.bytes==header+reference-encoding", sink, 0, exp, "py:Binary%sWriter:bytes-differ-from-reference" % proto)
    env.observe("outlen", sink.length)
    env.observe("body", [sink.at(header_len + i) for i in range(exp.cap - header_len)])


def h_c01_gen_read(env, proto, maxlen=2, stream_mode="list"):
    G = pkg(env, "c01types")
    steps, vals = _gen_values(env, G, proto, maxlen)
    if any(t[0] == "ndarray" for _, t in steps):
        env.reach("gen.read-not-encoded-for-ndarray")
        return
    exp, header_len = expected_stream(env, G, proto, steps, vals, stream_mode)
    src = env.source(exp, "full")

    def run():
        r = getattr(G.binary, "Binary%sReader" % proto)(src)
        out = []
        for name, t in steps:
            x = getattr(r, "read_" + name)()
            out.append(list(x) if t[0] == "stream" else x)
        r.close()
        return r, out
    ok, res = env.attempt(run)
    if not ok:
        return HK.unexpected(env, "gen.read-no-exception", res)
    env.reach("gen.read-no-exception")
    r, out = res
    for (name, t), v, rv in zip(steps, vals, out):
        env.check("gen.read==written", gveq(env, t, v, rv), "py:Binary%sReader.read_%s:value-differs" % (proto, name), "value read differs from the value written")
    env.check("gen.whole-stream-consumed", EQ(HK.consumed(r._stream, src), exp.length), "py:Binary%sReader:consumed-differs" % proto)
    env.observe("values", [gobs(env, t, rv) for (name, t), rv in zip(steps, out)])
