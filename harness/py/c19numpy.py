"""C19 on numpy operands: generated Python computed fields evaluated on operands that are numpy scalars of the
declared element / field dtype - elements of array fields (`arr[0]`, `mat[0, 1]`) are numpy.int8 ... numpy.int64
values, whose own arithmetic is fixed-width (wraps, or raises OverflowError for a Python int that does not fit).
The obligation is the one of the other C19 harnesses: the value is the exact mathematical value of the model
expression whenever the declared result type can hold it (and every parenthesised intermediate).

Model: models/c19computed/npelems.yml (records Np<T>: arr: T[], fix: T[3], mat: T[r:2, c:2], vec: T*, scalars).
Symbolic run: arrays are npmodel.SymArray objects whose elements come out as npmodel.NpInt (numpy's integer
semantics over z3 terms); native replay: real numpy arrays / scalars."""
import warnings
from engine.pysym.core import AND, OR, NOT, IMPLIES, EQ, ITE, is_sym, tdiv, trem
from harness.py import kernels as HK
from harness.py import npkernels as NK
from harness.py import generated as HG

NP_RECS = {"NpI8": "int8", "NpU8": "uint8", "NpI16": "int16", "NpU16": "uint16", "NpI32": "int32", "NpU32": "uint32", "NpI64": "int64"}
SCALAR_TYPES = {"k": "int64", "ku": "uint64", "i": "int32"}      # declared types of the scalar fields (s: the element type)

# field -> (model expression, operands used, oracle(d) -> (exact value, parenthesised intermediates, [(dividend, divisor)]))
NP_FIELDS = {
    "elem_sum": ("arr[0] + arr[1]", ("e0", "e1"), lambda d: (d["e0"] + d["e1"], [], [])),
    "elem_diff": ("arr[0] - arr[1]", ("e0", "e1"), lambda d: (d["e0"] - d["e1"], [], [])),
    "elem_prod": ("arr[0] * arr[1]", ("e0", "e1"), lambda d: (d["e0"] * d["e1"], [], [])),
    "elem_neg": ("-arr[0]", ("e0",), lambda d: (-d["e0"], [], [])),
    "elem_quot": ("arr[0] / arr[1]", ("e0", "e1"), lambda d: (tdiv(d["e0"], d["e1"]), [], [(d["e0"], d["e1"])])),
    "elem_times_long": ("arr[0] * k", ("e0", "k"), lambda d: (d["e0"] * d["k"], [], [])),
    "long_minus_elem": ("k - arr[1]", ("k", "e1"), lambda d: (d["k"] - d["e1"], [], [])),
    "elem_times_ulong": ("arr[0] * ku", ("e0", "ku"), lambda d: (d["e0"] * d["ku"], [], [])),
    "elem_plus_int": ("arr[0] + i", ("e0", "i"), lambda d: (d["e0"] + d["i"], [], [])),
    "elem_plus_scalar": ("arr[0] + s", ("e0", "s"), lambda d: (d["e0"] + d["s"], [], [])),
    "nested_elems": ("arr[0] - (arr[1] - arr[2])", ("e0", "e1", "e2"), lambda d: (d["e0"] - (d["e1"] - d["e2"]), [d["e1"] - d["e2"]], [])),
    "nested_mixed": ("(arr[0] + i) * arr[1]", ("e0", "i", "e1"), lambda d: ((d["e0"] + d["i"]) * d["e1"], [d["e0"] + d["i"]], [])),
    "fix_sum": ("fix[0] + fix[2]", ("f0", "f2"), lambda d: (d["f0"] + d["f2"], [], [])),
    "mat_sum": ("mat[0, 1] + mat[1, 0]", ("m01", "m10"), lambda d: (d["m01"] + d["m10"], [], [])),
    "mat_named": ("mat[r:1, c:1] - mat[r:0, c:0]", ("m11", "m00"), lambda d: (d["m11"] - d["m00"], [], [])),
    "vec_sum": ("vec[0] + vec[1]", ("v0", "v1"), lambda d: (d["v0"] + d["v1"], [], [])),
    "count": ("size(arr)", (), lambda d: (3, [], [])),
    "rows": ("size(mat, 0)", (), lambda d: (2, [], [])),
}
USES_SCALARS = [f for f, (_, uses, _) in NP_FIELDS.items() if any(u in ("k", "ku", "i", "s") for u in uses)]
MUL_CAP = 2**38      # operands of a product: keeps the 80-bit model of the ORACLE's Python ints exact (stated bound, as in h_c19_int)


def np_scalar(env, dtype_name, v):
    """a numpy scalar of the given integer dtype holding v (v inside the dtype's range)"""
    import numpy as np
    if env.mode == "sym":
        from engine.pysym.npmodel import NpInt
        return NpInt(np.dtype(dtype_name), v)
    return np.dtype(dtype_name).type(v)


def py_value(v):
    """the plain integer a (numpy or Python) integer result stands for"""
    import numpy as np
    if getattr(v, "pysym_np", False):
        return v.pysym_int()
    if isinstance(v, np.integer):
        return int(v)
    return v


def is_np_scalar(v):
    import numpy as np
    return bool(getattr(v, "pysym_np", False)) or isinstance(v, np.generic)


def _quiet():
    warnings.filterwarnings("ignore", category=RuntimeWarning)       # numpy announces scalar overflow by a RuntimeWarning and carries on


def h_c19_np(env, rec, field, scalars="py"):
    _quiet()
    T = HG.pkg(env, "c19computed").types
    cls = getattr(T, rec)
    elem = NP_RECS[rec]
    expr, uses, oracle = NP_FIELDS[field]
    ranges = {"k": HK.RANGES["int64"], "ku": HK.RANGES["uint64"], "i": HK.RANGES["int32"]}
    d = {}
    for n in ("e0", "e1", "e2", "f0", "f1", "f2", "m00", "m01", "m10", "m11", "v0", "v1", "k", "ku", "i", "s"):
        lo, hi = ranges.get(n, HK.RANGES[elem])
        if n in uses:
            if "*" in expr:
                lo, hi = max(lo, -MUL_CAP), min(hi, MUL_CAP)
            d[n] = env.int(n, lo, hi)
        else:
            d[n] = 1
    exact, inter, divs = oracle(d)
    for n_, dv in divs:
        # C++: division by zero is undefined; a negative inexact quotient is the listed floor-division finding: both outside this obligation
        env.assume(AND(n_ >= 0, dv > 0))
    tlo, thi = HG.result_range(cls, field)
    inr = AND(*[AND(v >= tlo, v <= thi) for v in [exact] + inter])
    mat_layout = ["C", "F", "T"][env.choice("mat-layout", 3)] if field.startswith("mat") else "C"
    arr = NK.with_layout(env, elem, (3,), [d["e0"], d["e1"], d["e2"]], "C")
    fix = NK.with_layout(env, elem, (3,), [d["f0"], d["f1"], d["f2"]], "C")
    mat = NK.with_layout(env, elem, (2, 2), [d["m00"], d["m01"], d["m10"], d["m11"]], mat_layout)
    sc = {n: d[n] for n in ("k", "ku", "i", "s")}
    if scalars == "np":
        sc = {n: np_scalar(env, SCALAR_TYPES.get(n, elem), d[n]) for n in sc}
    r = cls(arr=arr, fix=fix, mat=mat, vec=[d["v0"], d["v1"]], x=1.0, **sc)
    ok, res = env.attempt(getattr(r, field))
    if not ok:
        name = type(res).__name__
        env.observe("exc", name)
        env.check("computed.no-exception-for-in-range-operands", NOT(inr), "py:computed:numpy-operand:%s:%s" % (field, name),
                  "`%s` raised %s (%s) although the result type holds the value" % (expr, name, str(res)[:60]))
        return
    env.reach("computed.no-exception-for-in-range-operands")
    env.observe("numpy-result", is_np_scalar(res))
    val = py_value(res)
    env.observe("result", val)
    env.check("computed.numpy-operands==mathematical-value", IMPLIES(inr, EQ(val, exact)), "py:computed:numpy-operand:%s:wrong-value" % field,
              "`%s` on numpy %s elements / scalars evaluates to a value different from the mathematical one although the declared result type holds it" % (expr, elem))


DPOOL = [2.0, -0.5, 1e300]


def h_c19_np_float(env, rec):
    """array element (integer) combined with a float64 field: operands from pools, decided by forking"""
    _quiet()
    T = HG.pkg(env, "c19computed").types
    cls = getattr(T, rec)
    elem = NP_RECS[rec]
    lo, hi = HK.RANGES[elem]
    pool = [v for v in (0, 1, -7, 100, lo, hi) if lo <= v <= hi and abs(v) < 2**53]
    e0 = pool[env.choice("e0", len(pool))]
    x = DPOOL[env.choice("x", len(DPOOL))]
    arr = NK.with_layout(env, elem, (3,), [e0, 1, 1], "C")
    r = cls(arr=arr, x=x)
    ok, res = env.attempt(r.elem_times_double)
    if not ok:
        return env.fail("computed.no-exception-for-in-range-operands", "py:computed:numpy-operand:elem_times_double:%s" % type(res).__name__, str(res)[:80])
    env.reach("computed.no-exception-for-in-range-operands")
    env.observe("result", float(res))
    want = float(e0) * x
    env.check("computed.float-expression==ieee-value", float(res) == want, "py:computed:numpy-operand:elem_times_double:wrong-value",
              "arr[0] * x with arr[0] = %r, x = %r gives %r, IEEE double gives %r" % (e0, x, res, want))


REC_DTYPE = {"RecI32": "int32", "RecI64": "int64", "RecU8": "uint8", "RecI16": "int16"}


def h_c19_int_np(env, rec, field):
    """h_c19_int with the scalar fields a, b holding numpy scalars of their declared dtype (what a record taken
    out of a structured array, or built from array elements, holds)"""
    _quiet()
    T = HG.pkg(env, "c19computed").types
    cls = getattr(T, rec)
    lo, hi = HG.C19_TYPES[rec]
    if "mul" in field or field == "prod":
        lo, hi = max(lo, -MUL_CAP), min(hi, MUL_CAP)
    a, b = env.int("a", lo, hi), env.int("b", lo, hi)
    r = cls(a=np_scalar(env, REC_DTYPE[rec], a), b=np_scalar(env, REC_DTYPE[rec], b), x=1.0, y=1.0, v=[])
    expr, oracle, misread = HG.INT_FIELDS[field]
    tlo, thi = HG.result_range(cls, field)
    if oracle(1, 1)[2]:
        dd = b if field == "quot" else b * a
        env.assume(NOT(EQ(dd, 0)))
    exact, inter, divs = oracle(a, b)
    inr = AND(*[AND(v >= tlo, v <= thi) for v in [exact] + inter])
    ok, res = env.attempt(getattr(r, field))
    if not ok:
        name = type(res).__name__
        env.observe("exc", name)
        env.check("computed.no-exception-for-in-range-operands", NOT(inr), "py:computed:numpy-operand:%s:%s" % (field, name), "%s raised %s" % (expr, res))
        return
    env.reach("computed.no-exception-for-in-range-operands")
    val = py_value(res)
    env.observe("result", val)
    if divs:
        # same split as h_c19_int: Python's floor division of a negative inexact quotient is the listed known finding
        n_, d_ = divs[0] if isinstance(divs[0], tuple) else (a, divs[0])
        nonneg_or_exact = OR(EQ(trem(n_, d_), 0), EQ(n_ < 0, d_ < 0))
        env.check("computed.int-division==truncated-quotient", IMPLIES(AND(inr, nonneg_or_exact), EQ(val, exact)), "py:computed:int-division-wrong-for-exact-or-nonnegative-quotient",
                  "%s differs from the quotient although it is exact or non-negative (numpy operands)" % expr)
        key = "py:computed:int-division-floors-negative-quotient" if field == "quot" else "py:computed:%s:wrong-value" % field
        env.check("computed.int-division==truncated-quotient", IMPLIES(AND(inr, NOT(nonneg_or_exact)), EQ(val, exact)), key,
                  "%s is emitted as floor division: a negative inexact quotient is rounded down (C++ truncates toward zero)" % expr)
        return
    env.check("computed.numpy-operands==mathematical-value", IMPLIES(inr, EQ(val, exact)), "py:computed:numpy-operand:%s:wrong-value" % field,
              "%s on numpy %s scalars evaluates to a different value although the declared result type holds it" % (expr, REC_DTYPE[rec]))
