"""pysym harnesses for the Python runtime kernels (_binary.py).  Every harness is a plain function
`h(env, **params)`; run with a SymEnv it is explored symbolically, run with a NatEnv (inputs = solver
model) the same function is its own native replay against the pristine module copy."""
import datetime
from engine.pysym.core import AND, OR, NOT, IMPLIES, EQ, ITE, is_sym

RANGES = {"int8": (-2**7, 2**7 - 1), "uint8": (0, 2**8 - 1), "int16": (-2**15, 2**15 - 1), "uint16": (0, 2**16 - 1),
          "int32": (-2**31, 2**31 - 1), "uint32": (0, 2**32 - 1), "int64": (-2**63, 2**63 - 1), "uint64": (0, 2**64 - 1),
          "size": (0, 2**64 - 1)}
WIDE = (-2**64, 2**65)          # domain of symbolic integer leaves (wider than every type: range errors reachable)
RANGE_ERRORS = ("ValueError", "error")   # ValueError (documented) or struct.error (Int8/UInt8 go through struct)


# ------------------------------------------------------------------------------------------------
# state construction

def mk_writer(env, N, tag="w"):
    """CodedOutputStream in an arbitrary valid state: 0 <= _offset <= len(_buffer), arbitrary contents."""
    sink = env.sink()
    w = env.B.CodedOutputStream(sink, buffer_size=N)
    off = env.int(tag + ".off", 0, N)
    env.poke_buffer(w._buffer, env.bytes(tag + ".junk", N))
    w._offset = off
    return w, sink, off


def mk_reader(env, N, payload, n, mode, tag="r", trail=2, cut=None, trail_exact=False):
    """CodedInputStream reached through the public API only: a fresh stream over
    [p junk bytes][payload (n bytes)][t trailing junk bytes]; the p junk bytes are consumed with
    read_view(p) so the payload starts at an arbitrary buffer offset; refills follow `mode`."""
    data = env.data()
    p = env.int(tag + ".p", 0, N)
    data.append(env.bytes(tag + ".pre", N), p)
    data.append(payload, n)
    t = 0
    if trail:
        t = trail if trail_exact else env.int(tag + ".t", 0, trail)
        data.append(env.bytes(tag + ".post", trail), t)
    total = None
    if cut is not None:
        total = p + cut
    src = env.source(data, mode, total=total, name=tag + ".src")
    r = env.B.CodedInputStream(src, buffer_size=N)
    ok, e = env.attempt(r.read_view, p)
    return r, src, p, t, (ok, e)


def consumed(r, src):
    """logical read position of the CodedInputStream in the underlying data"""
    return src.pos - (r._last_read_count - r._offset)


def check_sink(env, obl, sink, off, exp, key=None):
    conds = [EQ(sink.length, off + exp.length)]
    for i in range(exp.cap):
        conds.append(IMPLIES(i < exp.length, EQ(sink.at(off + i), exp.at(i))))
    return env.check(obl, AND(*conds), key, "bytes written differ from the reference encoding")


def unhashable_map_key(env, t):
    """kind of the first map key type inside type descriptor t whose runtime values cannot be dictionary keys
    (hash() of a value of the real runtime class raises), else None.  yardl_types.Time once defined __eq__
    without __hash__, which made every time-keyed map unreadable in Python (repaired in /repo by e66f1b6);
    the violation keeps the stable key py:<kind>-keyed-map-unhashable."""
    if not isinstance(t, list) or not t:
        return None
    if t[0] == "map" and isinstance(t[1], list) and t[1]:
        mk = {"time": lambda: env.T.Time(1), "datetime": lambda: env.T.DateTime(1), "date": lambda: datetime.date(2024, 2, 29)}.get(t[1][0])
        if mk is not None:
            try:
                hash(mk())
            except TypeError:
                return t[1][0]
    for a in t[1:]:
        if isinstance(a, list):
            subs = [a] if (a and isinstance(a[0], str)) else [x for x in a if isinstance(x, list)]
            for x in subs:
                r = unhashable_map_key(env, x)
                if r:
                    return r
    return None


def fail_unhashable(env, obl, kind):
    env.observe("exc", "unhashable %s key" % kind)
    env.fail(obl, "py:%s-keyed-map-unhashable" % kind, "values of the runtime class for yardl `%s` are unhashable: a Python dict cannot hold a %s-keyed map" % (kind, kind))


def unexpected(env, obl, e, variant="", mode=""):
    key = env.exc_key(e) + (":short-read-schedule" if mode == "short" else "")
    env.observe("exc", key)
    env.fail(obl, key, "%s raised: %s" % (type(e).__name__, str(e)[:80]))


# ------------------------------------------------------------------------------------------------
# C01 (a) stream primitives

def _prim(env, kind):
    B = env.B
    S = lambda f: B.struct.Struct(f)
    if kind.startswith("uvarint") and kind != "uvarint":   # uvarint16/32: same code on a narrower value range (fewer length classes)
        x = env.int("x", 0, 2**int(kind[7:]) - 1)
        return x, (lambda w: w.write_unsigned_varint(x)), env.ref.uvarint(x, 64), (lambda r: r.read_unsigned_varint()), EQ
    if kind.startswith("svarint") and kind != "svarint":
        b = int(kind[7:])
        x = env.int("x", -2**(b - 1), 2**(b - 1) - 1)
        return x, (lambda w: w.write_signed_varint(x)), env.ref.svarint(x), (lambda r: r.read_signed_varint()), EQ
    if kind == "uvarint":
        x = env.int("x", 0, 2**64 - 1)
        return x, (lambda w: w.write_unsigned_varint(x)), env.ref.uvarint(x, 64), (lambda r: r.read_unsigned_varint()), EQ
    if kind == "svarint":
        x = env.int("x", -2**63, 2**63 - 1)
        return x, (lambda w: w.write_signed_varint(x)), env.ref.svarint(x), (lambda r: r.read_signed_varint()), EQ
    if kind == "byte":
        x = env.int("x", 0, 255)

        def wr(w):
            w.ensure_capacity(1)
            w.write_byte_no_check(x)
        return x, wr, env.ref.fixed(x, 1), (lambda r: r.read_byte()), EQ
    if kind == "bool":
        x = env.bool("x")
        s = S("<?")
        return x, (lambda w: w.write(s, x)), env.ref.bool(x), (lambda r: r.read(s)[0]), EQ
    ints = {"int8": "<b", "uint8": "<B", "fixed_int32": "<i"}
    if kind in ints:
        lo, hi = RANGES["int32" if kind == "fixed_int32" else kind]
        x = env.int("x", lo, hi)
        s = S(ints[kind])
        return x, (lambda w: w.write(s, x)), env.ref.fixed(x, s.size), (lambda r: r.read(s)[0]), EQ
    if kind in ("f32", "f64"):
        nb = 4 if kind == "f32" else 8
        x = env.f32("x") if nb == 4 else env.f64("x")
        s = S("<f" if nb == 4 else "<d")
        return x, (lambda w: w.write(s, x)), env.ref.fbits(x, nb), (lambda r: r.read(s)[0]), (lambda a, b: EQ(env.fbits(a, nb), env.fbits(b, nb)))
    if kind in ("c32", "c64"):
        nb = 4 if kind == "c32" else 8
        mk = env.f32 if nb == 4 else env.f64
        re, im = mk("x.re"), mk("x.im")
        s = S("<ff" if nb == 4 else "<dd")
        n1, b1 = env.ref.fbits(re, nb)
        n2, b2 = env.ref.fbits(im, nb)
        eq = lambda a, b: AND(EQ(env.fbits(a[0], nb), env.fbits(b[0], nb)), EQ(env.fbits(a[1], nb), env.fbits(b[1], nb)))
        return (re, im), (lambda w: w.write(s, re, im)), (2 * nb, b1 + b2), (lambda r: r.read(s)), eq
    raise KeyError(kind)


def h_prim_write(env, kind, N):
    """write one primitive from an arbitrary valid writer state, flush: bytes == reference codec"""
    w, sink, off = mk_writer(env, N)
    x, wr, (n, bs), rd, eq = _prim(env, kind)
    ok, e = env.attempt(wr, w)
    if not ok:
        return unexpected(env, "prim.write-no-exception", e, kind)
    env.check("prim.offset-invariant", AND(w._offset >= 0, w._offset <= N), None, "0 <= _offset <= len(_buffer) after the call")
    ok, e = env.attempt(w.flush)
    if not ok:
        return unexpected(env, "prim.write-no-exception", e, kind)
    env.reach("prim.write-no-exception")
    exp = env.data().append(bs, env.split(n, 1, len(bs)))
    check_sink(env, "prim.bytes==reference", sink, off, exp)
    env.observe("out", [sink.at(off + i) for i in range(len(bs))])
    env.observe("outlen", sink.length)


def h_prim_read(env, kind, N, mode):
    """read one primitive from its reference encoding placed at an arbitrary buffer offset, arbitrary
    refill schedule: value == encoded value and exactly its bytes are consumed"""
    x, wr, (n, bs), rd, eq = _prim(env, kind)
    sfx = "[short-reads]" if mode == "short" else ""
    n = env.split(n, 1, len(bs))
    r, src, p, t, (ok, e) = mk_reader(env, N, bs, n, mode)
    if not ok:
        return unexpected(env, "prim.read-no-exception" + sfx, e, "skip", mode)
    ok, v = env.attempt(rd, r)
    if not ok:
        return unexpected(env, "prim.read-no-exception" + sfx, v, kind, mode)
    env.reach("prim.read-no-exception" + sfx)
    env.check("prim.read==written" + sfx, eq(v, x), None, "value read differs from the value whose reference encoding was supplied")
    env.check("prim.consumed==produced" + sfx, EQ(consumed(r, src), p + n), None, "reader consumed a different number of bytes")
    env.check("prim.reader-invariant" + sfx, AND(r._offset >= 0, r._offset <= r._last_read_count, r._last_read_count <= N), None, "0 <= _offset <= _last_read_count <= len(_buffer)")
    if kind in ("f32", "f64", "c32", "c64"):
        nb = 4 if kind in ("f32", "c32") else 8
        v = [env.fbits(c, nb) for c in v] if isinstance(v, tuple) else env.fbits(v, nb)
    env.observe("value", v if not isinstance(v, tuple) else list(v))


def h_bytes(env, N, mode, direct=False):
    """write_bytes / write_bytes_directly with concrete payloads whose length is chosen by the solver
    around the buffer size; read back with read_view and read_bytearray."""
    lens = [0, 1, N - 1, N, N + 1]
    L = lens[env.choice("len", len(lens))]
    payload = bytes((37 * i + 11) % 256 for i in range(L))
    w, sink, off = mk_writer(env, N)
    ok, e = env.attempt(w.write_bytes_directly if direct else w.write_bytes, payload)
    if ok:
        ok, e = env.attempt(w.flush)
    if not ok:
        return unexpected(env, "bytes.no-exception", e, "write_bytes")
    env.reach("bytes.no-exception")
    exp = env.data().append(list(payload))
    check_sink(env, "bytes.bytes==reference", sink, off, exp)
    sfx = "[short-reads]" if mode == "short" else ""
    which = env.choice("reader", 2)
    r, src, p, t, (ok, e) = mk_reader(env, N, list(payload), L, mode)
    if not ok:
        return unexpected(env, "bytes.read-no-exception" + sfx, e, "skip", mode)
    ok, v = env.attempt(r.read_view if which == 0 else r.read_bytearray, L)
    if not ok:
        return unexpected(env, "bytes.read-no-exception" + sfx, v, "", mode)
    env.reach("bytes.read-no-exception" + sfx)
    env.check("bytes.read==written" + sfx, v == payload, None, "bytes read back differ")
    env.check("bytes.consumed==produced" + sfx, EQ(consumed(r, src), p + L))


# ------------------------------------------------------------------------------------------------
# C01 (b) serializers: a small type language

def mk_union_classes(env, n):
    U = type("U", (env.T.UnionCase,), {})
    return U, [type("U%d" % i, (U,), {"index": i, "tag": "c%d" % i}) for i in range(n)]


def mk_ser(env, t, cache):
    """serializer instance for type descriptor t (tuples); cache keeps helper classes per path"""
    B = env.B
    k = t[0]
    simple = {"int8": "int8_serializer", "uint8": "uint8_serializer", "int16": "int16_serializer", "uint16": "uint16_serializer",
              "int32": "int32_serializer", "uint32": "uint32_serializer", "int64": "int64_serializer", "uint64": "uint64_serializer",
              "size": "size_serializer", "bool": "bool_serializer", "f32": "float32_serializer", "f64": "float64_serializer",
              "c32": "complexfloat32_serializer", "c64": "complexfloat64_serializer", "string": "string_serializer",
              "date": "date_serializer", "time": "time_serializer", "datetime": "datetime_serializer"}
    if k in simple:
        return getattr(B, simple[k])
    if k == "optional":
        return B.OptionalSerializer(mk_ser(env, t[1], cache))
    if k == "vector":
        return B.VectorSerializer(mk_ser(env, t[1], cache))
    if k == "fixedvector":
        return B.FixedVectorSerializer(mk_ser(env, t[1], cache), t[2])
    if k == "map":
        return B.MapSerializer(mk_ser(env, t[1], cache), mk_ser(env, t[2], cache))
    if k == "stream":
        return B.StreamSerializer(mk_ser(env, t[1], cache))
    if k == "fixedarray":      # ["fixedarray", elem, [d0, d1, ...]]
        return B.FixedNDArraySerializer(mk_ser(env, t[1], cache), tuple(t[2]))
    if k == "ndarray":         # ["ndarray", elem, ndims, [possible dimension lengths]]
        return B.NDArraySerializer(mk_ser(env, t[1], cache), t[2])
    if k == "dynarray":        # ["dynarray", elem, [possible numbers of dimensions], [possible dimension lengths]]
        return B.DynamicNDArraySerializer(mk_ser(env, t[1], cache))
    if k == "union":
        cases = t[1]
        nn = [c for c in cases if c is not None]
        U, cls = mk_union_classes(env, len(nn))
        cache[id(t)] = (U, cls)
        lst = []
        j = 0
        for c in cases:
            if c is None:
                lst.append(None)
            else:
                lst.append((cls[j], mk_ser(env, c, cache)))
                j += 1
        return B.UnionSerializer(U, lst)
    if k == "enum":
        E = env.T.OutOfRangeEnum("E", {("M%d" % i): v for i, v in enumerate(t[2])})
        cache[id(t)] = E
        return B.EnumSerializer(mk_ser(env, t[1], cache), E)
    if k == "record":
        fields = [("f%d" % i, mk_ser(env, ft, cache)) for i, ft in enumerate(t[1])]

        class R(B.RecordSerializer):
            def __init__(self):
                super().__init__(fields)

            def write(self, stream, value):
                self._write(stream, *value)

            def write_numpy(self, stream, value):
                self._write(stream, *value)

            def read(self, stream):
                return self._read(stream)
        return R()
    raise KeyError(k)


STRINGS = ["", "a", "hé€", "0123456789abcdefXYZ"]  # empty, ascii, multi-byte UTF-8, longer than N=16
ELEM_SIZE = {"int8": 1, "uint8": 1, "f32": 4, "f64": 8, "c32": 8, "c64": 16}   # trivially serializable element types
ELEM_DTYPE = {"int8": "int8", "uint8": "uint8", "f32": "float32", "f64": "float64", "c32": "complex64", "c64": "complex128"}


class ArrVal:
    """harness-side description of an array of a trivially serializable element type whose memory image
    is `data` (symbolic bytes): what the writer put on the wire, to be compared with what a reader returns"""

    def __init__(self, elem, shape, data):
        self.elem, self.shape, self.data = elem, tuple(shape), data


def arr_bytes(env, a, n):
    """current memory image of an array returned by the code under test (SymNDArray window / numpy array)"""
    if hasattr(a, "byte_term"):
        return [env.buf_byte(a, i) for i in range(n)]
    return list(a.tobytes())


def shares_reader_buffer(env, v, r):
    """does a value returned by a serializer share memory with the CodedInputStream's internal buffer?
    (structural: symbolic windows record their backing object; natively numpy / memoryview tell)"""
    import numpy as np
    if isinstance(v, (list, tuple)):
        return any(shares_reader_buffer(env, x, r) for x in v)
    if isinstance(v, dict):
        return any(shares_reader_buffer(env, x, r) for kv in v.items() for x in kv)
    if isinstance(v, env.T.UnionCase):
        return shares_reader_buffer(env, v.value, r)
    # (an empty window shares no byte with anything: numpy.shares_memory says so too)
    if hasattr(v, "live_buffer"):            # SymNDArray
        return v.nbytes > 0 and v.live_buffer() is r._buffer
    if hasattr(v, "live") and hasattr(v, "byte_term"):   # SymSeq: live view of a SymBuf, or a frozen copy
        return v.live is r._buffer and bool(v.ln > 0)
    if v is r._buffer:
        return True
    if isinstance(v, np.ndarray):
        return bool(np.shares_memory(v, np.frombuffer(r._buffer, dtype=np.uint8)))
    if isinstance(v, memoryview):
        return v.obj is r._buffer and len(v) > 0
    return False


def gen(env, t, name, maxlen, cache):
    """a value of type t with symbolic leaves; returns (value, in_range condition)"""
    k = t[0]
    if k in RANGES:
        x = env.int(name, *WIDE)
        lo, hi = RANGES[k]
        return x, AND(x >= lo, x <= hi)
    if k == "bool":
        return env.bool(name), True
    if k == "f32":
        return env.f32(name), True
    if k == "f64":
        return env.f64(name), True
    if k in ("c32", "c64"):
        mk = env.f32 if k == "c32" else env.f64
        return env.complex(mk(name + ".re"), mk(name + ".im")), True
    if k == "string":
        pool = t[1] if len(t) > 1 else STRINGS
        return pool[env.choice(name, len(pool))], True
    if k == "date":
        pool = [datetime.date(1970, 1, 1), datetime.date(1969, 12, 31), datetime.date(2024, 2, 29), datetime.date(1, 1, 1), datetime.date(9999, 12, 31)]
        return pool[env.choice(name, len(pool))], True
    if k == "time":
        pool = [0, 1, 86399999999999, 3_600_000_000_000]
        return env.T.Time(pool[env.choice(name, len(pool))]), True
    if k == "datetime":
        pool = [0, -1, 1_700_000_000_123_456_789, -2**62]
        return env.T.DateTime(pool[env.choice(name, len(pool))]), True
    if k == "optional":
        if env.choice(name + ".has", 2) == 0:
            return None, True
        return gen(env, t[1], name + ".v", maxlen, cache)
    if k == "union":
        tag = env.choice(name + ".tag", len(t[1]))
        if t[1][tag] is None:
            return None, True
        U, cls = cache[id(t)]
        j = sum(1 for c in t[1][:tag] if c is not None)
        v, ok = gen(env, t[1][tag], name + ".v", maxlen, cache)
        return cls[j](v), ok
    if k in ("vector", "stream"):
        n = env.choice(name + ".len", maxlen + 1)
        items = [gen(env, t[1], "%s.%d" % (name, i), maxlen, cache) for i in range(n)]
        return [v for v, _ in items], AND(*[c for _, c in items]) if items else True
    if k == "fixedvector":
        items = [gen(env, t[1], "%s.%d" % (name, i), maxlen, cache) for i in range(t[2])]
        return [v for v, _ in items], AND(*[c for _, c in items]) if items else True
    if k in ("fixedarray", "ndarray", "dynarray"):
        if k == "fixedarray":
            shape = tuple(t[2])
        elif k == "ndarray":
            shape = tuple(t[3][env.choice("%s.dim%d" % (name, i), len(t[3]))] for i in range(t[2]))
        else:
            nd = t[2][env.choice(name + ".ndims", len(t[2]))]
            shape = tuple(t[3][env.choice("%s.dim%d" % (name, i), len(t[3]))] for i in range(nd))
        n = ELEM_SIZE[t[1][0]]
        for d in shape:
            n *= d
        return ArrVal(t[1][0], shape, env.bytes(name + ".b", n)), True
    if k == "map":
        n = env.choice(name + ".len", maxlen + 1)
        d = {}
        conds, kc, vc, keep = [], {}, {}, []
        for i in range(n):
            kk, c1 = gen(env, t[1], "%s.k%d" % (name, i), maxlen, cache)
            vv, c2 = gen(env, t[2], "%s.v%d" % (name, i), maxlen, cache)
            keep += [kk, vv]
            kc[id(kk)], vc[id(vv)] = c1, c2
            d[kk] = vv  # symbolic keys: the dict asks the solver whether two keys can be equal (fork)
        for kk, vv in d.items():   # after merging of equal keys: (first key object, last value object)
            conds += [kc[id(kk)], vc[id(vv)]]
        return d, AND(*conds) if conds else True
    if k == "enum":
        E = cache[id(t)]
        x = env.int(name, *WIDE)
        lo, hi = RANGES[t[1][0]]
        return E(x), AND(x >= lo, x <= hi)   # Enum lookup forks over the members, else _missing_ pseudo-member
    if k == "record":
        items = [gen(env, ft, "%s.f%d" % (name, i), maxlen, cache) for i, ft in enumerate(t[1])]
        return tuple(v for v, _ in items), AND(*[c for _, c in items])
    raise KeyError(k)


def _inrange(t, v):
    if t[0] in RANGES:
        lo, hi = RANGES[t[0]]
        return AND(v >= lo, v <= hi)
    return True


def enc(env, t, v, out, split=False):
    """reference encoding (binary.md) of v appended to `out` (a data builder)"""
    k = t[0]
    R = env.ref
    if k in ("int8", "uint8"):
        out.append(R.fixed(v, 1)[1])
    elif k in ("uint16", "uint32", "uint64", "size"):
        n, bs = R.uvarint(v, 64)
        out.append(bs, env.split(n, 1, len(bs)) if split else n)
    elif k in ("int16", "int32", "int64"):
        n, bs = R.svarint(v)
        out.append(bs, env.split(n, 1, len(bs)) if split else n)
    elif k == "bool":
        out.append(R.bool(v)[1])
    elif k in ("f32", "f64"):
        out.append(R.fbits(v, 4 if k == "f32" else 8)[1])
    elif k in ("c32", "c64"):
        nb = 4 if k == "c32" else 8
        out.append(R.fbits(v.real, nb)[1] + R.fbits(v.imag, nb)[1])
    elif k == "string":
        b = v.encode("utf-8")
        out.append(list(_c_uvarint(len(b))) + list(b))
    elif k == "date":
        out.append(list(_c_svarint(v.toordinal() - 719163)))
    elif k == "time":
        out.append(list(_c_svarint(int(v.numpy_value.astype("int64")))))
    elif k == "datetime":
        out.append(list(_c_svarint(int(v.numpy_value.astype("int64")))))
    elif k == "optional":
        if v is None:
            out.append([0])
        else:
            out.append([1])
            enc(env, t[1], v, out, split)
    elif k == "union":
        # docs/reference/binary.md, Unions: "The index is written as an unsigned varint"
        if v is None:
            out.append(list(_c_uvarint(t[1].index(None))))
        else:
            nn = [i for i, c in enumerate(t[1]) if c is not None]
            tag = nn[type(v).index]
            out.append(list(_c_uvarint(tag)))
            enc(env, t[1][tag], v.value, out, split)
    elif k == "vector":
        out.append(list(_c_uvarint(len(v))))
        for e in v:
            enc(env, t[1], e, out, split)
    elif k == "fixedvector":
        for e in v:
            enc(env, t[1], e, out, split)
    elif k in ("fixedarray", "ndarray", "dynarray"):
        # binary.md: dynamic arrays: number of dimensions, then the dimensions; rank-only arrays: the
        # dimensions; fixed arrays: nothing; then the elements in row-major order (fixed-width little-endian
        # element encodings = the memory image for the trivially serializable element types used here)
        if k == "dynarray":
            out.append(list(_c_uvarint(len(v.shape))))
        if k != "fixedarray":
            for d in v.shape:
                out.append(list(_c_uvarint(d)))
        if v.data:
            out.append(v.data)
    elif k == "map":
        out.append(list(_c_uvarint(len(v))))
        for kk, vv in v.items():
            enc(env, t[1], kk, out, split)
            enc(env, t[2], vv, out, split)
    elif k == "enum":
        enc(env, t[1], v.value, out, split)
    elif k == "record":
        for ft, e in zip(t[1], v):
            enc(env, ft, e, out, split)
    else:
        raise KeyError(k)
    return out


def _c_uvarint(v):
    from spec import refcodec
    return refcodec.c_uvarint(v)


def _c_svarint(v):
    from spec import refcodec
    return refcodec.c_svarint(v, 64)


def veq(env, t, a, b):
    """read-back equality (structure concrete, leaves symbolic)"""
    k = t[0]
    if k in RANGES or k == "bool":
        return EQ(a, b)
    if k in ("f32", "f64"):
        nb = 4 if k == "f32" else 8
        return EQ(env.fbits(a, nb), env.fbits(b, nb))
    if k in ("c32", "c64"):
        nb = 4 if k == "c32" else 8
        return AND(EQ(env.fbits(a.real, nb), env.fbits(b.real, nb)), EQ(env.fbits(a.imag, nb), env.fbits(b.imag, nb)))
    if k in ("string", "date"):
        return type(a) is type(b) and a == b
    if k in ("time", "datetime"):
        return type(a) is type(b) and bool(a == b)
    if k == "optional":
        if a is None or b is None:
            return a is None and b is None
        return veq(env, t[1], a, b)
    if k == "union":
        if a is None or b is None:
            return a is None and b is None
        if type(a) is not type(b):
            return False
        nn = [c for c in t[1] if c is not None]
        return veq(env, nn[type(a).index], a.value, b.value)
    if k in ("vector", "fixedvector", "stream"):
        if not isinstance(a, list) or not isinstance(b, list) or len(a) != len(b):
            return False
        return AND(*[veq(env, t[1], x, y) for x, y in zip(a, b)]) if a else True
    if k in ("fixedarray", "ndarray", "dynarray"):
        if not hasattr(b, "shape") or tuple(b.shape) != a.shape or str(b.dtype) != ELEM_DTYPE[a.elem]:
            return False
        return EQ(a.data, arr_bytes(env, b, len(a.data)))
    if k == "map":
        if not isinstance(a, dict) or len(a) != len(b):
            return False
        # same insertion order is what both real dicts give for a faithful round trip
        return AND(*[AND(veq(env, t[1], k1, k2), veq(env, t[2], v1, v2)) for (k1, v1), (k2, v2) in zip(a.items(), b.items())]) if a else True
    if k == "enum":
        if type(a) is not type(b) or (a._name_ != b._name_):
            return False
        return EQ(a.value, b.value)
    if k == "record":
        if not isinstance(a, tuple) or len(a) != len(b):
            return False
        return AND(*[veq(env, ft, x, y) for ft, x, y in zip(t[1], a, b)])
    raise KeyError(k)


def obs_val(env, t, v):
    k = t[0]
    if v is None:
        return None
    if k == "union":
        return [type(v).__name__, obs_val(env, [c for c in t[1] if c is not None][type(v).index], v.value)]
    if k == "enum":
        return [v._name_, v.value]
    if k in ("vector", "fixedvector", "stream"):
        return [obs_val(env, t[1], x) for x in v]
    if k == "optional":
        return obs_val(env, t[1], v)
    if k == "record":
        return [obs_val(env, ft, x) for ft, x in zip(t[1], v)]
    if k == "map":
        return [[obs_val(env, t[1], a), obs_val(env, t[2], b)] for a, b in v.items()]
    if k in ("time", "datetime", "date"):
        return str(v)
    if k in ("fixedarray", "ndarray", "dynarray"):
        n = ELEM_SIZE[t[1][0]]
        for d in v.shape:
            n *= d
        return [list(v.shape), arr_bytes(env, v, n)]
    if k in ("f32", "f64"):
        return env.fbits(v, 4 if k == "f32" else 8)
    if k in ("c32", "c64"):
        nb = 4 if k == "c32" else 8
        return [env.fbits(v.real, nb), env.fbits(v.imag, nb)]
    return v


def T(x):
    return x  # type descriptors are nested lists (json-able); used as-is


def stream_expected(env, t, v, variant, exp, split=False):
    # block structure produced by the Python writer: non-empty list -> one block, iterable -> blocks of one
    if variant == "list" and len(v) > 0:
        exp.append(list(_c_uvarint(len(v))))
        for x in v:
            enc(env, t[1], x, exp, split)
    else:
        for x in v:
            exp.append([1])
            enc(env, t[1], x, exp, split)
    exp.append([0])
    return exp


def h_ser_write(env, t, N, maxlen, variant="list"):
    cache = {}
    uk = unhashable_map_key(env, t)
    if uk:
        return fail_unhashable(env, "ser.write-no-unexpected-exception", uk)
    ser = mk_ser(env, t, cache)
    v, inr = gen(env, t, "v", maxlen, cache)
    w, sink, off = mk_writer(env, N)
    wv = v
    if t[0] == "stream" and variant != "list":
        wv = (x for x in v) if variant == "generator" else iter(v)
    ok, e = env.attempt(ser.write, w, wv)
    if not ok:
        if type(e).__name__ in RANGE_ERRORS and env.exc_key(e).split("@")[0] in ("py:ValueError", "py:error"):
            env.observe("exc", type(e).__name__)
            # the documented range rejection: must happen only for an out-of-range leaf
            env.check("ser.range-error-only-if-out-of-range", NOT(inr), env.exc_key(e) + ":in-range-value-rejected", "range error raised for a value whose leaves are all in range")
            return
        return unexpected(env, "ser.write-no-unexpected-exception", e, variant if t[0] == "stream" else "")
    env.check("ser.out-of-range-is-rejected", inr, "py:%s:out-of-range-value-accepted" % t[0], "write accepted a value outside the range of its type")
    if t[0] == "stream":
        ok, e = env.attempt(lambda: (w.ensure_capacity(1), w.write_byte_no_check(0)))  # what _end_stream does
    if ok:
        ok, e = env.attempt(w.flush)
    if not ok:
        return unexpected(env, "ser.write-no-unexpected-exception", e, "flush")
    env.reach("ser.write-no-unexpected-exception")
    exp = env.data()
    if t[0] == "stream":
        stream_expected(env, t, v, variant, exp, True)
    else:
        enc(env, t, v, exp, True)
    check_sink(env, "ser.bytes==reference", sink, off, exp)
    env.observe("outlen", sink.length)
    env.observe("out", [sink.at(off + i) for i in range(exp.cap)])


def h_ser_read(env, t, N, mode, maxlen, variant="list"):
    cache = {}
    sfx = "[short-reads]" if mode == "short" else ""
    uk = unhashable_map_key(env, t)
    if uk:
        return fail_unhashable(env, "ser.read-no-exception" + sfx, uk)
    ser = mk_ser(env, t, cache)
    v, inr = gen(env, t, "v", maxlen, cache)
    env.assume(inr)  # the reader is fed valid encodings of in-range values
    exp = env.data()
    if t[0] == "stream":
        stream_expected(env, t, v, variant, exp, True)
    else:
        enc(env, t, v, exp, True)
    payload = [exp.at(i) for i in range(exp.cap)]
    r, src, p, tt, (ok, e) = mk_reader(env, N, payload, exp.length, mode)
    if not ok:
        return unexpected(env, "ser.read-no-exception" + sfx, e, "skip", mode)
    ok, rv = env.attempt((lambda: list(ser.read(r))) if t[0] == "stream" else (lambda: ser.read(r)))
    if not ok:
        return unexpected(env, "ser.read-no-exception" + sfx, rv, "", mode)
    env.reach("ser.read-no-exception" + sfx)
    env.check("ser.read==written" + sfx, veq(env, t, v, rv), None, "value read differs from the value whose reference encoding was supplied")
    env.check("ser.consumed==produced" + sfx, EQ(consumed(r, src), p + exp.length), None, "reader consumed a different number of bytes")
    env.observe("value", obs_val(env, t, rv))


# ------------------------------------------------------------------------------------------------
# C03 capacity discipline: obligations are raised by the store hooks (every store executed by
# write_byte_no_check, keyed by the call site of its caller; every struct pack_into)

def c03_ids(site):
    return "store-in-bounds:write_byte_no_check<-%s" % site, "py:%s:write_byte_no_check:offset-out-of-range" % site


PACK_OBL = "pack_into-in-bounds:CodedOutputStream.write"
PACK_KEY = "py:CodedOutputStream.write:pack_into:offset-out-of-range"


def install_c03_hooks(mods, limits):
    from engine.pysym import core, env as E
    import z3

    def index_hook(buf, i, what):
        if what != "store":
            return
        fn, site = E.caller_site(mods, "write_byte_no_check")
        if site is None:
            return
        obl, key = c03_ids(site)
        t = core.bv(i)
        core.ctx().check(obl, z3.And(t >= 0, t < buf.n), key, "write_byte_no_check stores at _offset outside 0 <= _offset < len(_buffer)")

    def struct_hook(buf, offset, size, what):
        if what != "pack_into":
            return
        t = core.bv(offset)
        core.ctx().check(PACK_OBL, z3.And(t >= 0, t + size <= buf.n), PACK_KEY, "struct pack_into outside the buffer")

    limits["index_hook"] = index_hook
    limits["struct_hook"] = struct_hook


def c03_classify(env, e):
    """native side of the store obligations: an IndexError / struct.error at a store site"""
    from engine.pysym import env as E
    name = type(e).__name__
    fl = []
    tb = e.__traceback__
    while tb is not None:
        fl.append((tb.tb_frame, tb.tb_lineno))
        tb = tb.tb_next
    fr = E.frames_of(fl, env.mods)
    if name == "IndexError" and fr and fr[-1][1].endswith("write_byte_no_check") and len(fr) >= 2:
        site = E.site_name(env.mods, fr[-2][0], fr[-2][1], fr[-2][2], "write_byte_no_check")
        return c03_ids(site)
    if name == "error" and fr and fr[-1][1] == "CodedOutputStream.write":
        return PACK_OBL, PACK_KEY
    return None


def h_c03(env, case, N, maxlen=2):
    """drive one caller family of write_byte_no_check / pack_into from an arbitrary valid pre-state"""
    import numpy as np
    B = env.B
    w, sink, off = mk_writer(env, N)
    cache = {}
    if case == "end_stream":
        pw = object.__new__(B.BinaryProtocolWriter)   # state construction: skip the header-writing constructor
        pw._stream = w
        call = pw._end_stream
    elif case == "uvarint":
        x = env.int("x", 0, 2**64 - 1)
        call = lambda: w.write_unsigned_varint(x)
    elif case == "svarint":
        x = env.int("x", -2**63, 2**63 - 1)
        call = lambda: w.write_signed_varint(x)
    elif case == "optional_numpy":
        ser = B.OptionalSerializer(B.int32_serializer)
        has = env.choice("has", 2)
        val = np.zeros((), dtype=ser.overall_dtype())[()]
        if has:
            val = np.array((True, 77), dtype=ser.overall_dtype())[()]
        call = lambda: ser.write_numpy(w, val)
    elif case.startswith("struct:"):
        kind = case.split(":")[1]
        x, wr, _, _, _ = _prim(env, kind)
        call = lambda: wr(w)
    else:
        t = T(CASE_TYPES[case.split("/")[0]])
        ser = mk_ser(env, t, cache)
        v, inr = gen(env, t, "v", maxlen, cache)
        env.assume(inr)
        variant = case.split("/")[1] if "/" in case else "list"
        wv = v
        if t[0] == "stream" and variant != "list":
            wv = (x for x in v)
        call = lambda: ser.write(w, wv)
    ok, e = env.attempt(call)
    env.reach("c03.harness-completed")
    if not ok:
        ids = c03_classify(env, e)
        if ids:
            env.fail(ids[0], ids[1], "%s: %s" % (type(e).__name__, e))
        else:
            env.observe("exc", env.exc_key(e))
            env.fail("c03.no-other-exception", env.exc_key(e), str(e)[:80])
        return
    env.check("c03.offset-invariant", AND(w._offset >= 0, w._offset <= N), None, "class invariant 0 <= _offset <= len(_buffer) preserved")
    env.observe("offset", w._offset)


CASE_TYPES = {
    "optional": ["optional", ["int32"]],
    "optional_str": ["optional", ["string", ["", "abc"]]],
    "union": ["union", [["int32"], ["bool"]]],
    "union_null": ["union", [None, ["int32"], ["uint8"]]],
    "stream": ["stream", ["int32"]],
    "stream_opt": ["stream", ["optional", ["uint8"]]],
    "vector": ["vector", ["uint16"]],
    "map": ["map", ["uint8"], ["int16"]],
    "string": ["string"],
    "record": ["record", [["optional", ["int8"]], ["union", [None, ["bool"]]]]],
}


# ------------------------------------------------------------------------------------------------
# C16 truncation: input = first c bytes (c symbolic, c < total) of a valid encoding of 1-3 values

def _enc_units(env, t, v, exp, cache):
    """append the reference encoding of v; returns the list of 'delivery units' [(value, type, end)]:
    one per value, except for a stream where every item is delivered separately"""
    if t[0] == "prim":
        x, wr, (n, bs), rd, eq = v
        exp.append(bs, env.split(n, 1, len(bs)))
        return [(x, t, exp.length)]
    if t[0] == "stream":
        units = []
        if v:
            exp.append(list(_c_uvarint(len(v))))
            for x in v:
                enc(env, t[1], x, exp, True)
                units.append((x, t[1], exp.length))
        exp.append([0])
        units.append((None, ["end-of-stream"], exp.length))
        return units
    enc(env, t, v, exp, True)
    return [(v, t, exp.length)]


def h_trunc(env, ts, N, mode, maxlen=2):
    cache = {}
    sers, vals = [], []
    for i, t in enumerate(ts):
        if t[0] == "prim":
            # primitives of the coded stream itself (read_unsigned_varint, read(struct), read_byte ...)
            pe = _Prefixed(env, "v%d." % i)
            vals.append(_prim(pe, t[1]))
            sers.append(None)
        else:
            sers.append(mk_ser(env, t, cache))
            v, inr = gen(env, t, "v%d" % i, maxlen, cache)
            env.assume(inr)
            vals.append(v)
    exp = env.data()
    units = []
    for t, v in zip(ts, vals):
        units.append(_enc_units(env, t, v, exp, cache))
    total = exp.length
    cut = env.int("cut", 0, exp.cap)
    env.assume(cut < total)
    payload = [exp.at(i) for i in range(exp.cap)]
    r, src, p, tt, (ok, e) = mk_reader(env, N, payload, total, mode, trail=0, cut=cut)
    sfx = "[short-reads]" if mode == "short" else ""
    guard_bulk_reads(env, r, src, p + cut, sfx)

    def on_exc(e, end):
        name = type(e).__name__
        env.observe("exc", name)
        env.reach("trunc.outcome-is-an-exception" + sfx)
        # C16 asks for "an error", not for a particular exception class: a BufferError raised by
        # _fill_buffer's over-long slice (remaining + 1) on a short final fill still reports the
        # truncation, so the class is only recorded as an observation (the earlier
        # "error-is-EOFError" obligation demanded more than the property states and was removed).
        env.observe("exc-class", name)
        if mode != "short":
            env.check("trunc.no-error-before-the-cut" + sfx, cut < end, "py:trunc:error-although-value-complete", "an error was raised although every byte of the value was present")

    def delivered(x, t, end, rv):
        env.check("trunc.normal-return-only-if-complete" + sfx, end <= cut, "py:trunc:%s:normal-return-on-truncated-value" % t[0],
                  "a read returned normally although the stream was cut inside the value")
        if t[0] == "end-of-stream":
            return
        if t[0] == "prim":
            env.check("trunc.delivered==written" + sfx, x[4](rv, x[0]), "py:trunc:prim:%s:delivered-value-differs" % t[1], "a value delivered before the error differs from the written one")
        else:
            env.check("trunc.delivered==written" + sfx, veq(env, t, x, rv), "py:trunc:%s:delivered-value-differs" % t[0], "a value delivered before the error differs from the written one")

    if not ok:
        return on_exc(e, total)   # the initial skip of the p junk bytes already hit the cut
    for t, ser, v, us in zip(ts, sers, vals, units):
        if t[0] == "stream":
            it = ser.read(r)
            for x, ut, end in us:
                env.tick("stream items")
                ok, rv = env.attempt(next, it, _END)
                if not ok:
                    return on_exc(rv, end)
                if ut[0] == "end-of-stream":
                    env.check("trunc.delivered==written" + sfx, rv is _END, "py:trunc:stream:extra-item", "stream delivered an item that was not written")
                    delivered(None, ut, end, None)
                else:
                    if rv is _END:
                        env.fail("trunc.delivered==written" + sfx, "py:trunc:stream:ended-early", "stream ended before all written items were delivered")
                        return
                    delivered(x, ut, end, rv)
        else:
            x, ut, end = us[0]
            ok, rv = env.attempt((lambda: v[3](r)) if t[0] == "prim" else (lambda: ser.read(r)))
            if not ok:
                return on_exc(rv, end)
            delivered(v if t[0] == "prim" else x, ut, end, rv)
    env.reach("trunc.all-values-delivered")   # only reachable if some check above failed (cut < total)


_END = object()


def guard_bulk_reads(env, r, src, available, sfx=""):
    """Instrument (on this reader instance only, symbolic and native run alike) the two bulk entry
    points every length-prefixed value goes through: when read_view(count) / read_bytearray(count)
    returns normally, the `count` bytes starting at the reader's logical position must all have been
    present in the underlying stream, which holds `available` bytes in total.  The obligation is
    decided at the moment of the return, i.e. before the caller decodes the returned buffer (whose
    tail would be padding / stale bytes, not stream data)."""
    def wrap(name):
        real = getattr(r, name)

        def guarded(count):
            pos0 = consumed(r, src)
            res = real(count)
            env.check("trunc.bulk-read-returns-only-bytes-present" + sfx, pos0 + count <= available,
                      "py:trunc:%s:returned-bytes-beyond-end-of-stream" % name,
                      "%s(count) returned normally although the stream ended before position+count" % name)
            return res
        setattr(r, name, guarded)
    wrap("read_view")
    wrap("read_bytearray")


def h_trunc_bulk(env, N, mode, which):
    """read_view(count) / read_bytearray(count) with count ranging over 1..2N+2 (so all three code
    paths: served from the buffer, through _fill_buffer, and the large-read path count > len(buffer)
    with 0..N bytes carried over from the buffer), on a stream cut after `cut` <= count symbolic payload
    bytes, reader at an arbitrary buffer offset: the call raises iff cut < count, and a normal return
    delivers exactly the payload."""
    sfx = "[short-reads]" if mode == "short" else ""
    count = 1 + env.choice("count", 2 * N + 2)
    payload = env.bytes("b", count)
    cut = env.int("cut", 0, count)
    r, src, p, tt, (ok, e) = mk_reader(env, N, payload, count, mode, trail=0, cut=cut)
    if not ok:
        env.observe("exc", type(e).__name__)
        env.reach("trunc.outcome-is-an-exception" + sfx)   # the cut already hit the skip of the junk prefix
        return
    guard_bulk_reads(env, r, src, p + cut, sfx)
    ok, rv = env.attempt(getattr(r, which), count)
    if not ok:
        env.observe("exc", type(rv).__name__)
        env.reach("trunc.outcome-is-an-exception" + sfx)
        if mode != "short":
            env.check("trunc.no-error-before-the-cut" + sfx, cut < count, "py:trunc:error-although-value-complete", "an error was raised although every byte was present")
        return
    env.check("trunc.normal-return-only-if-complete" + sfx, cut >= count, "py:trunc:%s:normal-return-on-truncated-value" % which,
              "%s(%d) returned normally from a stream holding fewer bytes" % (which, count))
    got = [env.buf_byte(rv, j) for j in range(count)]
    env.check("trunc.delivered==written" + sfx, EQ(got, payload), "py:trunc:%s:delivered-value-differs" % which, "bytes returned differ from the stream content")
    env.observe("bytes", got)


class _Prefixed:
    """env facade that prefixes input names (several primitives in one harness)"""

    def __init__(self, env, pre):
        self._e, self._p = env, pre

    def __getattr__(self, n):
        return getattr(self._e, n)

    def int(self, name, lo, hi, default=None):
        return self._e.int(self._p + name, lo, hi, default)

    def bool(self, name):
        return self._e.bool(self._p + name)

    def f32(self, name):
        return self._e.f32(self._p + name)

    def f64(self, name):
        return self._e.f64(self._p + name)


# ------------------------------------------------------------------------------------------------
# C17 batching independence / item independence

def compositions(n):
    """all ordered partitions of n items into non-empty blocks"""
    if n == 0:
        return [[]]
    out = []
    for first in range(1, n + 1):
        for rest in compositions(n - first):
            out.append([first] + rest)
    return out


def _blocks_expected(env, t_item, items, blocks, exp, split=False):
    i = 0
    for b in blocks:
        exp.append(list(_c_uvarint(b)))
        for x in items[i:i + b]:
            enc(env, t_item, x, exp, split)
        i += b
    exp.append([0])
    return exp


def h_batch_write(env, t_item, N, nmax, variant):
    """StreamSerializer.write with a list / a generator / several batches (+ empty batches): the bytes
    are the reference stream encoding under the corresponding block partition, i.e. they decode
    (reference decoder, see lemma) to the same item sequence whatever the grouping was."""
    cache = {}
    t = ["stream", t_item]
    ser = mk_ser(env, t, cache)
    n = env.choice("n", nmax + 1)
    items = []
    for i in range(n):
        v, inr = gen(env, t_item, "i%d" % i, 2, cache)
        env.assume(inr)
        items.append(v)
    w, sink, off = mk_writer(env, N)
    if variant == "list":
        calls, blocks = [list(items)], ([n] if n else [])
    elif variant in ("generator", "iter", "tuple"):
        wv = (x for x in items) if variant == "generator" else iter(items) if variant == "iter" else tuple(items)
        calls, blocks = [wv], [1] * n
    else:  # batches: a solver-chosen composition, with an empty batch interleaved
        comps = compositions(n)
        blocks = comps[env.choice("partition", len(comps))]
        calls, i = [], 0
        for b in blocks:
            calls.append(items[i:i + b])
            calls.append([])          # an empty batch must not end the stream
            i += b
    for c in calls:
        ok, e = env.attempt(ser.write, w, c)
        if not ok:
            return unexpected(env, "batch.write-no-exception", e)
    ok, e = env.attempt(lambda: (w.ensure_capacity(1), w.write_byte_no_check(0), w.flush()))
    if not ok:
        return unexpected(env, "batch.write-no-exception", e)
    env.reach("batch.write-no-exception")
    exp = _blocks_expected(env, t_item, items, blocks, env.data(), True)
    check_sink(env, "batch.bytes==reference(partition)", sink, off, exp, "py:batch:%s:bytes-differ" % variant)
    env.observe("outlen", sink.length)
    env.observe("out", [sink.at(off + i) for i in range(exp.cap)])


def h_batch_read(env, t_item, N, mode, nmax):
    """StreamSerializer.read under every block partition of n <= nmax items returns exactly the items,
    as fresh objects, consuming exactly the stream."""
    cache = {}
    t = ["stream", t_item]
    ser = mk_ser(env, t, cache)
    n = env.choice("n", nmax + 1)
    items = []
    for i in range(n):
        v, inr = gen(env, t_item, "i%d" % i, 2, cache)
        env.assume(inr)
        items.append(v)
    comps = compositions(n)
    blocks = comps[env.choice("partition", len(comps))]
    exp = _blocks_expected(env, t_item, items, blocks, env.data(), True)
    payload = [exp.at(i) for i in range(exp.cap)]
    sfx = "[short-reads]" if mode == "short" else ""
    r, src, p, tt, (ok, e) = mk_reader(env, N, payload, exp.length, mode)
    if not ok:
        return unexpected(env, "batch.read-no-exception" + sfx, e, "", mode)
    ok, rv = env.attempt(lambda: list(ser.read(r)))
    if not ok:
        return unexpected(env, "batch.read-no-exception" + sfx, rv, "", mode)
    env.reach("batch.read-no-exception" + sfx)
    env.check("batch.items==written" + sfx, veq(env, t, items, rv), "py:batch:read:items-differ", "items read differ from the items written (partition %s)" % blocks)
    env.check("batch.consumed==produced" + sfx, EQ(consumed(r, src), p + exp.length), "py:batch:read:consumed-differs")
    fresh = True
    for a in range(len(rv)):
        for b in range(a + 1, len(rv)):
            if isinstance(rv[a], (list, dict)) and rv[a] is rv[b]:
                fresh = False
    env.check("batch.items-are-fresh-objects" + sfx, fresh, "py:batch:read:item-object-reused", "two items share one mutable object")
    env.observe("items", obs_val(env, t, rv))


def h_item_indep(env, t_item, N, nmax, trail=None):
    """Item independence: the items of a stream are taken one at a time and *kept* while the later ones
    are read; after the end of the stream the reader is moved on over N further bytes of symbolic content
    (so that the whole buffer is refilled / overwritten after the last item too).  Only then are the
    kept items compared with what was written: an item already returned never changes because of later
    reads, and shares no memory with the reader's internal buffer."""
    cache = {}
    t = ["stream", t_item]
    ser = mk_ser(env, t, cache)
    n = nmax     # fewer kept items are the prefixes of this run (each item is also compared when returned)
    items = []
    for i in range(n):
        v, inr = gen(env, t_item, "i%d" % i, 2, cache)
        env.assume(inr)
        items.append(v)
    comps = compositions(n)
    blocks = comps[env.choice("partition", len(comps))]
    exp = _blocks_expected(env, t_item, items, blocks, env.data(), True)
    payload = [exp.at(i) for i in range(exp.cap)]
    r, src, p, tt, (ok, e) = mk_reader(env, N, payload, exp.length, "full", trail=N if trail is None else trail, trail_exact=True)
    if not ok:
        return unexpected(env, "indep.read-no-exception", e)
    kept = []
    early = []

    def run():
        for x in ser.read(r):
            kept.append(x)
            early.append(veq(env, t_item, items[len(kept) - 1], x) if len(kept) <= n else False)
        r.read_view(tt)    # the trailing bytes: forces the buffer on past the last item
    ok, e = env.attempt(run)
    if not ok:
        return unexpected(env, "indep.read-no-exception", e)
    env.reach("indep.read-no-exception")
    env.check("indep.item==written-when-returned", AND(len(kept) == n, *early), "py:indep:%s:item-differs-when-returned" % t_item[0],
              "an item differs from the written one at the moment it is returned")
    env.check("indep.kept-items-unchanged-by-later-reads", veq(env, t, items, kept), "py:indep:%s:kept-item-changed-by-later-read" % t_item[0],
              "an item returned earlier no longer equals what was written once later items / bytes have been read")
    env.check("indep.items-share-no-memory-with-reader-buffer", not shares_reader_buffer(env, kept, r), "py:indep:%s:item-aliases-reader-buffer" % t_item[0],
              "a returned item is a window onto CodedInputStream._buffer")
    env.observe("items", obs_val(env, t, kept))


# ------------------------------------------------------------------------------------------------
# C15 header: readers refuse foreign streams

OWN = '{"protocol":{"name":"P","sequence":[{"name":"a","type":"int32"}]},"types":null}'
OTHER_SAME_LEN = OWN.replace("int32", "int64")          # near-identical model: one field type differs
OTHER_LONGER = OWN.replace('"a"', '"abc"')
SCHEMAS = [OWN, OTHER_SAME_LEN, OTHER_LONGER, ""]


def h_header_binary(env, mode="full"):
    B = env.B
    magic = env.bytes("magic", 5)
    ver = env.bytes("ver", 4)
    si = env.choice("schema", len(SCHEMAS))
    expected = [OWN, OTHER_SAME_LEN, None, ""][env.choice("expected", 4)]
    sb = SCHEMAS[si].encode("utf-8")
    data = env.data()
    data.append(magic).append(ver).append(list(_c_uvarint(len(sb))) + list(sb))
    header_len = data.length
    data.append(env.bytes("step", 3))
    src = env.source(data, mode)
    rd = object.__new__(B.BinaryProtocolReader)
    ok, e = env.attempt(rd.__init__, src, expected)
    magic_ok = AND(*[EQ(m, c) for m, c in zip(magic, b"yardl")])
    ver_ok = AND(EQ(ver[0], 1), EQ(ver[1], 0), EQ(ver[2], 0), EQ(ver[3], 0))
    schema_ok = (not expected) or SCHEMAS[si] == expected     # falsy expected_schema skips the comparison by design
    valid = AND(magic_ok, ver_ok, schema_ok)
    cs = getattr(rd, "_stream", None)
    if ok:
        env.observe("outcome", "accepted")
        env.check("header.accept-only-if-valid", valid, "py:BinaryProtocolReader.__init__:foreign-header-accepted",
                  "constructor returned normally although magic/version/schema do not match")
        env.check("header.cursor==header-length", EQ(consumed(cs, src), header_len), "py:BinaryProtocolReader.__init__:cursor-not-at-header-end")
        env.check("header.schema-recorded", rd._schema == SCHEMAS[si], "py:BinaryProtocolReader.__init__:schema-misread")
    else:
        name = type(e).__name__
        env.observe("outcome", name)
        if name != "RuntimeError":
            return unexpected(env, "header.refusal-is-RuntimeError", e)
        env.reach("header.refusal-is-RuntimeError")
        env.check("header.refuse-only-if-invalid", NOT(valid), "py:BinaryProtocolReader.__init__:valid-header-refused", "a valid header was refused")
        env.check("header.refused-before-any-step-byte", consumed(cs, src) <= header_len, "py:BinaryProtocolReader.__init__:step-bytes-consumed-before-refusal",
                  "bytes past the header were consumed before the refusal")


class _HeaderToken(str):
    """the header line of an NDJSON stream whose parsed form is chosen by the solver"""
    obj = None
    bad = False


class _JsonStub:
    def __init__(self, real):
        self._real = real
        self.JSONDecodeError = real.JSONDecodeError

    def loads(self, s, *a, **kw):
        if isinstance(s, _HeaderToken):
            if s.bad:
                raise self._real.JSONDecodeError("stub", "x", 0)
            return s.obj
        return self._real.loads(s, *a, **kw)

    def __getattr__(self, n):
        return getattr(self._real, n)


class _LineStream:
    def __init__(self, lines):
        self.lines, self.reads = list(lines), 0

    def readline(self):
        self.reads += 1
        return self.lines.pop(0) if self.lines else ""

    def close(self):
        pass


def h_header_ndjson(env):
    """NDJsonProtocolReader.__init__ on a solver-chosen header object.  Stub: json.loads of the header
    line returns the chosen object (shape by forking, version a symbolic int); natively the line is the
    real JSON text of that object."""
    import json as real_json
    J = env.J
    shape = env.choice("shape", 6)
    ver = env.int("version", -2**31, 2**31 - 1)
    si = env.choice("schema", 4)     # own / other / longer / key missing
    expected = [OWN, OTHER_SAME_LEN][env.choice("expected", 2)]
    schemas = [OWN, OTHER_SAME_LEN, OTHER_LONGER, None]
    inner = {"version": ver}
    if schemas[si] is not None:
        inner["schema"] = real_json.loads(schemas[si])
    objs = [None, [1, 2], {"foo": 1}, {"yardl": 5}, {"yardl": inner}, {"yardl": {"schema": inner.get("schema")}}]
    obj = objs[shape]
    if env.mode == "sym":
        line = _HeaderToken("<header>")
        line.obj, line.bad = obj, shape == 0
        old = J.json
        J.json = _JsonStub(old if not isinstance(old, _JsonStub) else old._real)
    else:
        line = "this is not json\n" if shape == 0 else real_json.dumps(obj) + "\n"
    st = _LineStream([line, '{"a":1}\n'])
    try:
        ok, e = env.attempt(J.NDJsonProtocolReader, st, expected)
    finally:
        if env.mode == "sym":
            J.json = old
    valid = AND(shape == 4, EQ(ver, 1), schemas[si] == expected)
    if ok:
        env.observe("outcome", "accepted")
        env.check("ndjson-header.accept-only-if-valid", valid, "py:NDJsonProtocolReader.__init__:foreign-header-accepted")
        env.check("ndjson-header.one-line-consumed", st.reads == 1, "py:NDJsonProtocolReader.__init__:more-than-the-header-line-read")
    else:
        name = type(e).__name__
        env.observe("outcome", name)
        if name != "ValueError":
            return unexpected(env, "ndjson-header.refusal-is-ValueError", e)
        env.reach("ndjson-header.refusal-is-ValueError")
        env.check("ndjson-header.refuse-only-if-invalid", NOT(valid), "py:NDJsonProtocolReader.__init__:valid-header-refused")
        env.check("ndjson-header.refused-before-any-step-line", st.reads <= 1, "py:NDJsonProtocolReader.__init__:step-line-consumed-before-refusal")


# ------------------------------------------------------------------------------------------------
# C02 NDJSON converters: from_json(to_json(v)) == v at the Python-object level (through the JSON data model)

CONV_SIMPLE = {"int8": "int8_converter", "uint8": "uint8_converter", "int16": "int16_converter", "uint16": "uint16_converter",
               "int32": "int32_converter", "uint32": "uint32_converter", "int64": "int64_converter", "uint64": "uint64_converter",
               "size": "size_converter", "bool": "bool_converter", "float32": "float32_converter", "float64": "float64_converter",
               "complexfloat32": "complexfloat32_converter", "complexfloat64": "complexfloat64_converter", "string": "string_converter",
               "date": "date_converter", "time": "time_converter", "datetime": "datetime_converter"}
FLOATS = [0.0, -1.5, 5.0, 1e300, 3.4028234663852886e38]
KIND_OF = {bool: "bool", int: "number", float: "number", str: "string", list: "array", dict: "object", type(None): "null"}


def json_kind(j):
    from engine.pysym.core import SymInt, SymBool
    if isinstance(j, SymBool):
        return "bool"
    if isinstance(j, SymInt):
        return "number"
    return KIND_OF.get(type(j), type(j).__name__)


def json_types_for(kind, t):
    return {"bool": [bool], "string": [str], "array": [list], "object": [dict],
            "number": [int, float] if t[0] in ("float32", "float64") else [int]}[kind]


def mk_conv(env, t, cache):
    J = env.J
    k = t[0]
    if k in CONV_SIMPLE:
        return getattr(J, CONV_SIMPLE[k])
    if k == "optional":
        return J.OptionalConverter(mk_conv(env, t[1], cache))
    if k == "vector":
        return J.VectorConverter(mk_conv(env, t[1], cache))
    if k == "fixedvector":
        return J.FixedVectorConverter(mk_conv(env, t[1], cache), t[2])
    if k == "map":
        return J.MapConverter(mk_conv(env, t[1], cache), mk_conv(env, t[2], cache))
    if k == "union":          # ["union", cases, simple]
        cases, simple = t[1], t[2]
        nn = [c for c in cases if c is not None]
        U, cls = mk_union_classes(env, len(nn))
        cache[id(t)] = (U, cls)
        lst, j = [], 0
        for c in cases:
            if c is None:
                lst.append(None)
            else:
                conv = mk_conv(env, c, cache)
                lst.append((cls[j], conv, json_types_for(REP_KIND[c[0]], c)))
                j += 1
        return J.UnionConverter(U, lst, simple)
    if k == "enum":
        import numpy as np
        E = env.T.OutOfRangeEnum("E", {("M%d" % i): v for i, v in enumerate(t[2])})
        cache[id(t)] = E
        n2v = {m.name: m for m in E}
        v2n = {m: m.name for m in E}
        return J.EnumConverter(E, np.int32, n2v, v2n)
    if k == "flags":
        import enum, numpy as np
        F = enum.IntFlag("F", {("B%d" % i): v for i, v in enumerate(t[1])})
        cache[id(t)] = F
        n2v = {m.name: m for m in F}
        v2n = {m: m.name for m in F}
        return J.FlagsConverter(F, np.int32, n2v, v2n)
    raise KeyError(k)


REP_KIND = {"int8": "number", "uint8": "number", "int16": "number", "uint16": "number", "int32": "number", "uint32": "number",
            "int64": "number", "uint64": "number", "size": "number", "bool": "bool", "float32": "number", "float64": "number",
            "string": "string", "vector": "array", "fixedvector": "array", "date": "string", "time": "string", "datetime": "string",
            "complexfloat32": "array", "complexfloat64": "array"}   # kinds used only to build simple-union harness cases; checked against the real converter below


def gen_json(env, t, name, maxlen, cache):
    k = t[0]
    if k in ("float32", "float64"):
        return FLOATS[env.choice(name, len(FLOATS) - (0 if k == "float32" else 0))], True
    if k in ("complexfloat32", "complexfloat64"):
        return complex(FLOATS[env.choice(name + ".re", 3)], FLOATS[env.choice(name + ".im", 3)]), True
    if k == "enum":
        v, _ = gen(env, t, name, maxlen, cache)
        return v, True     # JSON numbers are unbounded: the NDJSON enum converter has no integer range to enforce
    if k == "flags":
        F = cache[id(t)]
        pool = [0, t[1][0], t[1][0] | t[1][-1], 64, t[1][0] | 64]
        return F(pool[env.choice(name, len(pool))]), True
    if k == "optional":
        if env.choice(name + ".has", 2) == 0:
            return None, True
        return gen_json(env, t[1], name + ".v", maxlen, cache)
    if k == "union":
        tag = env.choice(name + ".tag", len(t[1]))
        if t[1][tag] is None:
            return None, True
        U, cls = cache[id(t)]
        j = sum(1 for c in t[1][:tag] if c is not None)
        v, ok = gen_json(env, t[1][tag], name + ".v", maxlen, cache)
        return cls[j](v), ok
    if k == "vector":
        n = env.choice(name + ".len", maxlen + 1)
        items = [gen_json(env, t[1], "%s.%d" % (name, i), maxlen, cache) for i in range(n)]
        return [v for v, _ in items], AND(*[c for _, c in items]) if items else True
    if k == "fixedvector":
        items = [gen_json(env, t[1], "%s.%d" % (name, i), maxlen, cache) for i in range(t[2])]
        return [v for v, _ in items], AND(*[c for _, c in items]) if items else True
    if k == "map":
        n = env.choice(name + ".len", maxlen + 1)
        d, conds, kc, vc, keep = {}, [], {}, {}, []
        for i in range(n):
            kk, c1 = gen_json(env, t[1], "%s.k%d" % (name, i), maxlen, cache)
            vv, c2 = gen_json(env, t[2], "%s.v%d" % (name, i), maxlen, cache)
            keep += [kk, vv]
            kc[id(kk)], vc[id(vv)] = c1, c2
            d[kk] = vv
        for kk, vv in d.items():
            conds += [kc[id(kk)], vc[id(vv)]]
        return d, AND(*conds) if conds else True
    return gen(env, t, name, maxlen, cache)


def json_pass(env, j):
    """what json.dumps + json.loads do to the object, leaving symbolic number/bool leaves in place"""
    import json
    from engine.pysym.core import SymInt, SymBool
    if isinstance(j, (SymInt, SymBool)) or j is None:
        return j
    if isinstance(j, (list, tuple)):
        return [json_pass(env, x) for x in j]
    if isinstance(j, dict):
        return {(k if isinstance(k, str) else json.dumps(k)): json_pass(env, v) for k, v in j.items()}
    return json.loads(json.dumps(j))


def jeq(env, t, a, b):
    k = t[0]
    if k in ("float32", "float64"):
        return type(a) is type(b) and a == b
    if k in ("complexfloat32", "complexfloat64"):
        return isinstance(b, complex) and a == b
    if k == "flags":
        return type(a) is type(b) and int(a) == int(b)
    if k == "optional":
        if a is None or b is None:
            return a is None and b is None
        return jeq(env, t[1], a, b)
    if k == "union":
        if a is None or b is None:
            return a is None and b is None
        if type(a) is not type(b):
            return False
        nn = [c for c in t[1] if c is not None]
        return jeq(env, nn[type(a).index], a.value, b.value)
    if k in ("vector", "fixedvector"):
        if not isinstance(b, list) or len(a) != len(b):
            return False
        return AND(*[jeq(env, t[1], x, y) for x, y in zip(a, b)]) if a else True
    if k == "map":
        if not isinstance(b, dict) or len(a) != len(b):
            return False
        return AND(*[AND(jeq(env, t[1], k1, k2), jeq(env, t[2], v1, v2)) for (k1, v1), (k2, v2) in zip(a.items(), b.items())]) if a else True
    return veq(env, t, a, b)


def h_conv(env, t, maxlen=2):
    cache = {}
    uk = unhashable_map_key(env, t)
    if uk:
        return fail_unhashable(env, "conv.from_json-no-exception", uk)
    conv = mk_conv(env, t, cache)
    v, inr = gen_json(env, t, "v", maxlen, cache)
    ok, j = env.attempt(conv.to_json, v)
    if not ok:
        if type(j).__name__ == "ValueError":
            env.observe("exc", "ValueError")
            env.check("conv.range-error-only-if-out-of-range", NOT(inr), env.exc_key(j) + ":in-range-value-rejected")
            return
        return unexpected(env, "conv.to_json-no-unexpected-exception", j)
    env.reach("conv.to_json-no-unexpected-exception")
    env.check("conv.out-of-range-is-rejected", inr, "py:ndjson:%s:out-of-range-value-accepted" % t[0])
    env.observe("kind", json_kind(j))
    ok, j2 = env.attempt(json_pass, env, j)
    if not ok:
        return unexpected(env, "conv.json-representable", j2)
    ok, v2 = env.attempt(conv.from_json, j2)
    if not ok:
        return unexpected(env, "conv.from_json-no-exception", v2)
    env.reach("conv.from_json-no-exception")
    env.check("conv.from_json(to_json(v))==v", jeq(env, t, v, v2), "py:ndjson:%s:roundtrip-differs" % tname_short(t), "from_json(to_json(v)) differs from v")
    if t[0] == "union" and t[1][0] is None and not t[2]:
        # portability (C03): the C++ writer renders the null case of a TAGGED nullable union as an object keyed by the
        # case's tag ({"null": null}; generated adl_serializer: j = ordered_json{{"<tag>", monostate}}), the Python
        # writer as a bare null: a reader must accept both spellings of the null case
        for form, label in ((None, "bare-null"), ({"null": None}, "object-keyed-by-the-null-tag")):
            ok, r = env.attempt(conv.from_json, form)
            env.check("conv.tagged-nullable-union-reads-both-null-forms", AND(ok, r is None),
                      "py:ndjson:tagged-nullable-union:%s-form-not-read-as-null" % label,
                      "from_json(%r) must be the null case (got %s)" % (form, "exception " + type(r).__name__ if not ok else repr(r)))


def tname_short(t):
    if t[0] == "union":
        return "union[%s]%s" % ("|".join("null" if c is None else c[0] for c in t[1]), "/simple" if t[2] else "/tagged")
    if t[0] in ("optional", "vector", "fixedvector"):
        return "%s<%s>" % (t[0], tname_short(t[1]))
    if t[0] == "map":
        return "map<%s,%s>" % (t[1][0], tname_short(t[2]))
    return t[0]


def h_json_kinds(env):
    """JSON kind (python type of to_json's result) per primitive converter, extracted from the real code"""
    import datetime
    reps = {"bool": True, "int8": 1, "uint8": 1, "int16": 1, "uint16": 1, "int32": 1, "uint32": 1, "int64": 1, "uint64": 1, "size": 1,
            "float32": 1.5, "float64": 1.5, "complexfloat32": 1 + 2j, "complexfloat64": 1 + 2j, "string": "s",
            "date": datetime.date(2024, 2, 29), "time": env.T.Time(1), "datetime": env.T.DateTime(1)}
    out = {}
    for k, rep in reps.items():
        out[k] = json_kind(getattr(env.J, CONV_SIMPLE[k]).to_json(rep))
    env.observe("json_kinds", sorted(out.items()))
    env.reach("conv.json-kinds-extracted")
    for k, kind in out.items():
        if k in REP_KIND:
            env.check("conv.kind-table-matches-runtime", kind == REP_KIND[k], "py:ndjson:kind-table:%s" % k, "harness kind table differs from the real converter")
    # maps, per key primitive: ndjson.md: "Maps where the key is a string are written as a JSON object. Other
    # maps are written as an array of arrays" - the table the gosym union-tagging check (specKinds) relies on
    map_kinds = {}
    for k, rep in reps.items():
        uk = unhashable_map_key(env, ["map", [k], ["int32"]])
        if uk:
            map_kinds[k] = "unhashable key"
            fail_unhashable(env, "conv.map-kind==object-iff-string-key", uk)
            continue
        conv = env.J.MapConverter(getattr(env.J, CONV_SIMPLE[k]), env.J.int32_converter)
        ok, j = env.attempt(conv.to_json, {rep: 1})
        map_kinds[k] = json_kind(j) if ok else "raises " + type(j).__name__
        env.check("conv.map-kind==object-iff-string-key", map_kinds[k] == ("object" if k == "string" else "array"), "py:ndjson:map-kind:%s-key" % k,
                  "a map with %s keys is written as JSON %s" % (k, map_kinds[k]))
        if ok:
            ok2, back = env.attempt(conv.from_json, json_pass(env, j))
            env.check("conv.map-kind==object-iff-string-key", ok2 and len(back) == 1 and list(back.values()) == [1], "py:ndjson:map-roundtrip:%s-key" % k,
                      "a map with %s keys does not come back from its JSON form" % k)
    env.observe("map_kinds", sorted(map_kinds.items()))
    return out


def h_ndjson_lines(env, nmax=2, pattern="VSV"):
    """NDJsonProtocolReader._read_json_line look-ahead (_unused_value) over a protocol whose steps follow
    `pattern` (V = required value step, S = stream step of 0..nmax items; values of the first stream may
    be null).  The read loop is the one the generated NDJSON readers use (value: required=True once;
    stream: required=False until MISSING_SENTINEL)."""
    import json as real_json
    J = env.J
    steps = ["%s%d" % (c.lower(), k) for k, c in enumerate(pattern)]
    vals, objs = [], []
    first_stream = True
    for k, c in enumerate(pattern):
        if c == "V":
            v = env.int("v%d" % k, -2**31, 2**31 - 1) if k % 2 == 0 else env.bool("v%d" % k)
            vals.append(v)
            objs.append({steps[k]: v})
        else:
            n = env.choice("n%d" % k, nmax + 1)
            items = []
            for i in range(n):
                if first_stream and env.choice("s%d_%d.null" % (k, i), 2):
                    items.append(None)
                else:
                    items.append(env.int("s%d_%d" % (k, i), 0, 255))
            first_stream = False
            vals.append(items)
            objs.extend({steps[k]: x} for x in items)
    if env.mode == "sym":
        lines = []
        for o in objs:
            tok = _HeaderToken("<line>")
            tok.obj = o
            lines.append(tok)
        old = J.json
        J.json = _JsonStub(old if not isinstance(old, _JsonStub) else old._real)
    else:
        lines = [real_json.dumps(o) + "\n" for o in objs]
    rd = object.__new__(J.NDJsonProtocolReader)
    rd._stream = _LineStream(lines)
    rd._owns_stream = False
    rd._unused_value = None

    def run():
        out = []
        for k, c in enumerate(pattern):
            if c == "V":
                out.append(rd._read_json_line(steps[k], True))
                continue
            got = []
            while True:
                env.tick("stream lines", (nmax + 1) * pattern.count("S") + 1)
                x = rd._read_json_line(steps[k], False)
                if x is J.MISSING_SENTINEL:
                    break
                got.append(x)
            out.append(got)
        return out
    try:
        ok, res = env.attempt(run)
    finally:
        if env.mode == "sym":
            J.json = old
    if not ok:
        return unexpected(env, "lines.no-exception", res)
    env.reach("lines.no-exception")
    same = []
    for k, c in enumerate(pattern):
        if c == "V":
            same.append(EQ(res[k], vals[k]))
        else:
            same.append(len(res[k]) == len(vals[k]))
            if len(res[k]) == len(vals[k]):
                same.extend(EQ(x, y) for x, y in zip(res[k], vals[k]))
    env.check("lines.values==written", AND(*same), "py:ndjson:_read_json_line:%s:values-differ" % pattern, "step values read differ from the lines written")
    # every line is read exactly once; in addition each stream step that ends at EOF (the one owning the
    # last line, and every empty stream after it) reads the EOF marker once
    owners = [k for k, c in enumerate(pattern) if c == "V" or len(vals[k]) > 0]
    last_owner = owners[-1] if owners else 0
    eof_reads = sum(1 for k, c in enumerate(pattern) if c == "S" and k >= last_owner)
    env.check("lines.all-lines-consumed-once", rd._stream.reads == len(objs) + eof_reads, "py:ndjson:_read_json_line:%s:line-count" % pattern)
