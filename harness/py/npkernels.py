"""pysym harnesses for (a) stream block headers with a symbolic 64-bit block length and (b) n-d array
serializers on arrays with every memory layout (C order, Fortran order, transposed / axis-permuted views, strided
slices).  Same conventions as harness/py/kernels.py: one function per harness, explored with a SymEnv, replayed
with a NatEnv against the pristine runtime and the real numpy."""
from engine.pysym.core import AND, OR, NOT, IMPLIES, EQ, ITE, is_sym
from harness.py import kernels as HK

_END = object()


# ------------------------------------------------------------------------------------------------
# C17 / C01: the block length in a stream block header is an unsigned varint of 1..10 bytes

def h_block_header_read(env, t_item, N, k, mode="full"):
    """One block whose header is the reference varint of a symbolic 64-bit length L, followed by the first
    min(L, k) items (and the end-of-stream marker when L < k: then the block is complete).  The items are pulled
    one at a time from StreamSerializer.read: each equals the written one, after min(L, k) items the reader has
    consumed exactly the header and those items (plus the end marker when the stream ended)."""
    cache = {}
    t = ["stream", t_item]
    ser = HK.mk_ser(env, t, cache)
    L = env.int("L", 1, 2**64 - 1)
    items = []
    for i in range(k):
        v, inr = HK.gen(env, t_item, "i%d" % i, 2, cache)
        env.assume(inr)
        items.append(v)
    exp = env.data()
    n, bs = env.ref.uvarint(L, 64)
    n = env.split(n, 1, len(bs))
    exp.append(bs, n)
    whole = bool(L <= k)                # the whole block is present (decision) / only its first k items are looked at
    m = env.split(L, 1, k) if whole else k
    ends = []
    for x in items[:m]:
        HK.enc(env, t_item, x, exp, True)
        ends.append(exp.length)
    if whole:
        exp.append([0])
    payload = [exp.at(i) for i in range(exp.cap)]
    sfx = "[short-reads]" if mode == "short" else ""
    r, src, p, tt, (ok, e) = HK.mk_reader(env, N, payload, exp.length, mode, trail=4)
    if not ok:
        return HK.unexpected(env, "blockhdr.read-no-exception" + sfx, e, "skip", mode)
    it = ser.read(r)
    got = []
    for j in range(m):
        env.tick("block items")
        ok, rv = env.attempt(next, it, _END)
        if not ok:
            return HK.unexpected(env, "blockhdr.read-no-exception" + sfx, rv, "", mode)
        if rv is _END:
            env.observe("ended-after", j)
            return env.fail("blockhdr.items==written" + sfx, "py:blockhdr:read:stream-ended-inside-block", "the stream ended after %d items of a block of L >= %d items" % (j, m))
        got.append(rv)
        env.check("blockhdr.items==written" + sfx, HK.veq(env, t_item, items[j], rv), "py:blockhdr:read:item-differs",
                  "item %d of a block whose header is a %d-byte varint differs from the written one" % (j, n))
        env.check("blockhdr.consumed==produced" + sfx, EQ(HK.consumed(r, src), p + ends[j]), "py:blockhdr:read:consumed-differs",
                  "after item %d the reader is not at the end of that item's encoding" % j)
    if whole:
        ok, rv = env.attempt(next, it, _END)
        if not ok:
            return HK.unexpected(env, "blockhdr.read-no-exception" + sfx, rv, "", mode)
        env.check("blockhdr.items==written" + sfx, rv is _END, "py:blockhdr:read:extra-item", "an item was delivered after the last item of the last block")
        env.check("blockhdr.consumed==produced" + sfx, EQ(HK.consumed(r, src), p + exp.length), "py:blockhdr:read:consumed-differs")
    env.reach("blockhdr.read-no-exception" + sfx)
    env.observe("items", HK.obs_val(env, t, got))
    env.observe("consumed", HK.consumed(r, src) - p)


class StopWriting(Exception):
    """raised by LenList's iterator once the items that exist have been handed out"""


class LenList(list):
    """A list whose length is chosen by the solver (len() = n) of which only the first len(items) <= n items
    exist: asking the iterator for a further item raises, which stops the writer; what it wrote up to then is
    the subject of the obligation.  (Symbolic run: the `len` shim of the yardl module asks sym_len(); native
    run: builtin len() calls __len__.)"""

    def __init__(self, items, n):
        list.__init__(self, items)
        self._n = n

    def sym_len(self):
        return self._n

    def __len__(self):
        return self._n

    def __iter__(self):
        k = 0
        for x in list.__iter__(self):
            k += 1
            yield x
        if bool(self._n > k):
            raise StopWriting()


def h_block_header_write(env, t_item, N, k):
    """StreamSerializer.write with a list of symbolic length n (0 <= n < 2^63, CPython's bound on len()): the
    bytes start with the reference varint of n (nothing at all for n = 0) followed by the encodings of the
    first min(n, k) items."""
    cache = {}
    t = ["stream", t_item]
    ser = HK.mk_ser(env, t, cache)
    n = env.int("n", 0, 2**63 - 1)
    items = []
    for i in range(k):
        v, inr = HK.gen(env, t_item, "i%d" % i, 2, cache)
        env.assume(inr)
        items.append(v)
    whole = bool(n <= k)                # every item exists (decision) / only the first k do
    m = env.split(n, 0, k) if whole else k
    w, sink, off = HK.mk_writer(env, N)
    ok, e = env.attempt(ser.write, w, LenList(items[:m], n))
    stopped = (not ok) and isinstance(e, StopWriting)
    if not ok and not stopped:
        return HK.unexpected(env, "blockhdr.write-no-exception", e)
    env.check("blockhdr.writer-asks-for-every-item", stopped == (not whole), "py:blockhdr:write:item-count",
              "the writer %s although the list has %s items than exist" % ("stopped asking for items" if not stopped else "asked for a further item", "more" if not whole else "no more"))
    ok, e = env.attempt(w.flush)
    if not ok:
        return HK.unexpected(env, "blockhdr.write-no-exception", e)
    env.reach("blockhdr.write-no-exception")
    exp = env.data()
    if not (whole and m == 0):
        nb, bs = env.ref.uvarint(n, 64)
        exp.append(bs, env.split(nb, 1, len(bs)))
    for x in items[:m]:
        HK.enc(env, t_item, x, exp, True)
    HK.check_sink(env, "blockhdr.bytes==varint(n)+items", sink, off, exp, "py:blockhdr:write:bytes-differ")
    env.observe("outlen", sink.length)
    env.observe("out", [sink.at(off + i) for i in range(exp.cap)])


# ------------------------------------------------------------------------------------------------
# C03 / C01: arrays are written in logical row-major order whatever their memory layout

BULK_ELEMS = ("int8", "uint8", "f32", "f64", "c32", "c64")          # trivially serializable: one memory block when C-contiguous
VARINT_ELEMS = ("int16", "uint16", "int32", "uint32", "int64", "uint64", "size")
ELEM_DTYPE = dict(HK.ELEM_DTYPE, int16="int16", uint16="uint16", int32="int32", uint32="uint32", int64="int64", uint64="uint64", size="uint64", bool="bool")
LAYOUTS = ["C", "F", "T", "S"]


def _prod(shape):
    n = 1
    for d in shape:
        n *= d
    return n


def elem_domain(elem, classes):
    """value range of a symbolic array element: the whole type for fixed-width encodings; for varint-encoded
    types the values whose encoding has <= `classes` bytes (every further length class multiplies the paths)"""
    lo, hi = HK.RANGES[elem]
    if elem in VARINT_ELEMS:
        if lo < 0:
            return max(lo, -(1 << (7 * classes - 1))), min(hi, (1 << (7 * classes - 1)) - 1)
        return 0, min(hi, (1 << (7 * classes)) - 1)
    return lo, hi


def gen_elem(env, elem, name, classes):
    if elem in HK.RANGES:
        return env.int(name, *elem_domain(elem, classes))
    if elem == "bool":
        return env.bool(name)
    if elem in ("f32", "f64"):
        return env.f32(name) if elem == "f32" else env.f64(name)
    mk = env.f32 if elem == "c32" else env.f64
    return env.complex(mk(name + ".re"), mk(name + ".im"))


def with_layout(env, elem, shape, elems, layout):
    """the array object handed to the code under test: logical content `elems` (row-major), memory layout `layout`"""
    import numpy as np
    dt = np.dtype(ELEM_DTYPE[elem])
    shape = tuple(shape)
    if isinstance(layout, list):
        layout = (layout[0], tuple(layout[1]))
    if env.mode == "sym":
        from engine.pysym.npmodel import SymArray
        return SymArray.with_layout(dt, shape, elems, layout)
    a = np.array(elems, dtype=dt).reshape(shape)
    if layout == "C":
        return a
    if layout == "F":
        return np.asfortranarray(a)
    if layout == "T":
        return a.T.copy(order="C").T
    if layout == "S":
        w = np.zeros(shape[:-1] + (2 * shape[-1],), dtype=dt)
        w[..., ::2] = a
        return w[..., ::2]
    axes = layout[1]
    inv = [axes.index(i) for i in range(len(axes))]
    return a.transpose(inv).copy(order="C").transpose(axes)


def seq_bytes(env, arr, seq):
    """memory images of a sequence of elements of arr (symbolic cells / numpy scalars), as one flat byte list
    (structured elements: the images of their fields - what the alignment padding of a copied element holds is unspecified)"""
    if arr.dtype.fields is not None:
        out = []
        for e in seq:
            for name in arr.dtype.names:
                fdt = arr.dtype.fields[name][0]
                if env.mode == "sym":
                    from engine.pysym.core import SymInt
                    from engine.pysym import mem
                    from engine.pysym.npmodel import SymArray
                    v = e[name]
                    v = v.v if hasattr(v, "pysym_np") else v
                    out.extend(SymInt(mem.zx(c)) for c in SymArray(fdt, (), [v]).elem_cells(v))
                else:
                    import numpy as np
                    out.extend(np.asarray(e[name]).tobytes())
        return out
    if env.mode == "sym":
        from engine.pysym.core import SymInt
        from engine.pysym import mem
        out = []
        for e in seq:
            out.extend(SymInt(mem.zx(c)) for c in arr.elem_cells(e))
        return out
    import numpy as np
    return list(b"".join(np.asarray(x, dtype=arr.dtype).tobytes() for x in seq))


def mask_padding(env, arr, raw):
    """the memory image of a structured array with its alignment padding bytes (unspecified content) set to 0"""
    dt = arr.dtype
    if dt.fields is None or env.mode == "sym":      # the model's padding bytes are 0
        return raw
    raw = bytearray(bytes(raw))
    used = set()
    for name in dt.names:
        fdt, off = dt.fields[name][0], dt.fields[name][1]
        used.update(range(off, off + fdt.itemsize))
    for i in range(len(raw)):
        if i % dt.itemsize not in used:
            raw[i] = 0
    return bytes(raw)


def observe_layout(env, arr):
    """what numpy says about the array (flags, iteration orders, buffer export): the symbolic model and the real
    numpy object of the replay must agree on every path"""
    f = arr.flags
    env.observe("shape", list(arr.shape))
    env.observe("strides", list(arr.strides))
    env.observe("contiguity", [bool(f.c_contiguous), bool(f.f_contiguous)])
    env.observe("flat", seq_bytes(env, arr, list(arr.flat)))
    for o in "CFAK":
        env.observe("ravel-" + o, seq_bytes(env, arr, list(arr.ravel(order=o).flat)))
    env.observe("tobytes", mask_padding(env, arr, arr.tobytes()))
    env.observe("T.flat", seq_bytes(env, arr, list(arr.T.flat)))
    if f.c_contiguous:
        env.observe("data", mask_padding(env, arr, arr.data))
    env.observe("getitem", seq_bytes(env, arr, [arr[tuple(0 for _ in arr.shape)], arr[tuple(d - 1 for d in arr.shape)]]) if _prod(arr.shape) else [])


def array_ser(env, kind, elem, shape):
    B = env.B
    es = HK.mk_ser(env, [elem], {})
    if kind == "fixedarray":
        return B.FixedNDArraySerializer(es, tuple(shape))
    if kind == "ndarray":
        return B.NDArraySerializer(es, len(shape))
    return B.DynamicNDArraySerializer(es)


def array_expected(env, kind, elem, shape, elems, exp):
    """reference encoding (binary.md): [number of dimensions] [dimensions] elements in row-major order"""
    if kind == "dynarray":
        exp.append(list(HK._c_uvarint(len(shape))))
    if kind != "fixedarray":
        for d in shape:
            exp.append(list(HK._c_uvarint(d)))
    for e in elems:
        HK.enc(env, [elem], e, exp, True)
    return exp


def h_array_write(env, kind, elem, shape, layout, N, classes=1):
    elems = [gen_elem(env, elem, "e%d" % i, classes) for i in range(_prod(shape))]
    arr = with_layout(env, elem, shape, elems, layout)
    observe_layout(env, arr)
    ser = array_ser(env, kind, elem, shape)
    w, sink, off = HK.mk_writer(env, N)
    ok, e = env.attempt(ser.write, w, arr)
    if ok:
        ok, e = env.attempt(w.flush)
    if not ok:
        return HK.unexpected(env, "array.write-no-exception", e, layout if isinstance(layout, str) else "perm")
    env.reach("array.write-no-exception")
    exp = array_expected(env, kind, elem, shape, elems, env.data())
    HK.check_sink(env, "array.bytes==row-major-reference", sink, off, exp, "py:array:%s:bytes-differ-from-row-major-reference" % kind)
    env.observe("outlen", sink.length)
    env.observe("out", [sink.at(off + i) for i in range(exp.cap)])


def h_array_write_any_layout(env, kind, elem, shape, layouts, N, classes=1):
    """the memory layout is an input decided by the solver (one path family per layout)"""
    layout = layouts[env.choice("layout", len(layouts))]
    env.observe("layout", str(layout))
    return h_array_write(env, kind, elem, shape, layout, N, classes)


def arr_elems(env, elem, a):
    """logical row-major element list of an array returned by the code under test"""
    if hasattr(a, "elems"):             # SymArray
        return [x.v if hasattr(x, "pysym_np") else x for x in a.elems]
    return a.flatten(order="C").tolist()


def h_array_read(env, kind, elem, shape, N, mode="full", classes=1):
    """the reference encoding of a logical array is read back as that array (shape, dtype, elements in logical order)"""
    import numpy as np
    sfx = "[short-reads]" if mode == "short" else ""
    elems = [gen_elem(env, elem, "e%d" % i, classes) for i in range(_prod(shape))]
    ser = array_ser(env, kind, elem, shape)
    exp = array_expected(env, kind, elem, shape, elems, env.data())
    payload = [exp.at(i) for i in range(exp.cap)]
    r, src, p, tt, (ok, e) = HK.mk_reader(env, N, payload, exp.length, mode)
    if not ok:
        return HK.unexpected(env, "array.read-no-exception" + sfx, e, "skip", mode)
    ok, rv = env.attempt(ser.read, r)
    if not ok:
        return HK.unexpected(env, "array.read-no-exception" + sfx, rv, "", mode)
    env.reach("array.read-no-exception" + sfx)
    same = hasattr(rv, "shape") and tuple(rv.shape) == tuple(shape) and np.dtype(rv.dtype) == np.dtype(ELEM_DTYPE[elem])
    if same:
        if elem in BULK_ELEMS:
            want = seq_bytes_of_values(env, elem, elems)
            nbytes = len(want)
            same = EQ(want, HK.arr_bytes(env, rv, nbytes))
            env.observe("bytes", HK.arr_bytes(env, rv, nbytes))
        else:
            got = arr_elems(env, elem, rv)
            same = EQ(elems, got)
            env.observe("elements", got)
    env.check("array.read==written" + sfx, same, "py:array:%s:read-differs" % kind, "the array read back differs from the logical array whose reference encoding was supplied")
    env.check("array.consumed==produced" + sfx, EQ(HK.consumed(r, src), p + exp.length), "py:array:%s:consumed-differs" % kind)
    env.check("array.shares-no-memory-with-reader-buffer" + sfx, not HK.shares_reader_buffer(env, rv, r), "py:array:%s:aliases-reader-buffer" % kind)


def seq_bytes_of_values(env, elem, elems):
    """memory image (fixed-width little-endian) of harness-side element values of a trivially serializable type"""
    out = []
    for e in elems:
        d = env.data()
        HK.enc(env, [elem], e, d, False)
        out.extend(d.at(i) for i in range(d.cap))
    return out


# ------------------------------------------------------------------------------------------------
# C03 / C01: arrays of RECORDS.  binary.md: a record is the concatenation of its fields' encodings; an array is its elements
# in row-major order.  numpy keeps such arrays with a structured dtype which, built with align=True as the runtime does, may
# contain alignment padding: the memory image of the array is the encoding only when there is none.

REC_PRIMS = ["uint8", "f64", "int8", "f32", "int16", "bool"]     # trivially serializable ones (sizes 1, 8, 1, 4) first; int16 (varint) and bool are not


def mk_record_ser(env, prims):
    """a record serializer as the Python backend generates it (binary.py: <Record>Serializer) for fields f0, f1, ... of the given primitive types"""
    B = env.B
    names = ["f%d" % i for i in range(len(prims))]
    fields = [(n, HK.mk_ser(env, [p], {})) for n, p in zip(names, prims)]

    class RecSer(B.RecordSerializer):
        def __init__(self):
            super().__init__(fields)

        def write(self, stream, value):
            self._write(stream, *[getattr(value, n) for n in names])

        def write_numpy(self, stream, value):
            self._write(stream, *[value[n] for n in names])

        def read(self, stream):
            return tuple(self._read(stream))
    return RecSer()


def records_with_layout(env, dt, shape, recs, layout):
    """array of structured dtype dt, logical content recs (row-major list of field-value tuples), memory layout `layout`"""
    import numpy as np
    shape = tuple(shape)
    if env.mode == "sym":
        from engine.pysym.npmodel import SymArray, RecVal
        return SymArray.with_layout(dt, shape, [RecVal(dt, r) for r in recs], layout)
    a = np.zeros(len(recs), dtype=dt)
    for i, r in enumerate(recs):
        a[i] = tuple(r)
    a = a.reshape(shape)
    if layout == "C":
        return a
    if layout == "F":
        return np.asfortranarray(a)
    if layout == "T":
        return a.T.copy(order="C").T
    raise KeyError(layout)


def field_images(env, arr, dt, n):
    """memory images of the fields of the n elements of a structured array (logical row-major order) as byte lists:
    [[image of field 0 of element 0], [field 1 of element 0], ...]"""
    import numpy as np
    out = []
    if env.mode != "sym":
        flat = np.ascontiguousarray(arr).reshape(-1)
        for i in range(n):
            for name in dt.names:
                out.append(list(np.asarray(flat[i][name]).tobytes()))
        return out
    from engine.pysym.core import SymInt
    from engine.pysym import mem
    from engine.pysym.npmodel import SymArray
    if hasattr(arr, "elems"):                      # logical array: elements are field-value lists
        for i in range(n):
            rec = arr._scalar(arr.elems[i])
            for name, v in zip(dt.names, rec.vals):
                fdt = dt.fields[name][0]
                out.append([SymInt(mem.zx(c)) for c in SymArray(fdt, (), [v]).elem_cells(v)])
        return out
    bs = HK.arr_bytes(env, arr, n * dt.itemsize)      # np.frombuffer window: the fields sit at their offsets
    for i in range(n):
        for name in dt.names:
            fdt, off = dt.fields[name][0], dt.fields[name][1]
            out.append(bs[i * dt.itemsize + off:i * dt.itemsize + off + fdt.itemsize])
    return out


def expected_images(env, dt, recs):
    import numpy as np
    out = []
    for r in recs:
        for name, v in zip(dt.names, r):
            fdt = dt.fields[name][0]
            if env.mode == "sym":
                from engine.pysym.core import SymInt
                from engine.pysym import mem
                from engine.pysym.npmodel import SymArray
                out.append([SymInt(mem.zx(c)) for c in SymArray(fdt, (), [v]).elem_cells(v)])
            else:
                out.append(list(np.array(v, dtype=fdt).tobytes()))
    return out


def record_setup(env, kind, pool, nfields, shape):
    import numpy as np
    prims = [pool[env.choice("field%d" % i, len(pool))] for i in range(nfields)]
    env.observe("fields", prims)
    rser = mk_record_ser(env, prims)
    dt = np.dtype(rser.overall_dtype())
    recs = [[gen_elem(env, p, "e%d.f%d" % (i, j), 1) for j, p in enumerate(prims)] for i in range(_prod(shape))]
    B = env.B
    ser = B.FixedNDArraySerializer(rser, tuple(shape)) if kind == "fixedarray" else B.NDArraySerializer(rser, len(shape)) if kind == "ndarray" else B.DynamicNDArraySerializer(rser)
    exp = env.data()
    if kind == "dynarray":
        exp.append(list(HK._c_uvarint(len(shape))))
    if kind != "fixedarray":
        for d in shape:
            exp.append(list(HK._c_uvarint(d)))
    for r in recs:
        for p, v in zip(prims, r):
            HK.enc(env, [p], v, exp, True)
    env.observe("itemsize", [dt.itemsize, sum(dt.fields[n][0].itemsize for n in dt.names)])
    return prims, rser, dt, recs, ser, exp


def h_record_array_write(env, kind, pool, nfields, shape, layouts, N):
    """array of records whose field types are chosen by the solver (padded and unpadded aligned layouts both occur), given with the
    aligned dtype the runtime declares or with its packed variant (which the writer accepts), in a solver-chosen memory layout:
    bytes written = dimensions + field-by-field reference encoding of the elements in row-major order."""
    from numpy.lib import recfunctions
    prims, rser, dt, recs, ser, exp = record_setup(env, kind, pool, nfields, shape)
    layout = layouts[env.choice("layout", len(layouts))]
    packed = env.choice("dtype", 2) == 1
    adt = recfunctions.repack_fields(dt, align=False, recurse=True) if packed else dt
    env.observe("variant", [str(layout), "packed" if packed else "aligned"])
    arr = records_with_layout(env, adt, shape, recs, layout)
    observe_layout(env, arr)
    w, sink, off = HK.mk_writer(env, N)
    ok, e = env.attempt(ser.write, w, arr)
    if ok:
        ok, e = env.attempt(w.flush)
    if not ok:
        return HK.unexpected(env, "record-array.write-no-exception", e, str(layout))
    env.reach("record-array.write-no-exception")
    HK.check_sink(env, "record-array.bytes==field-by-field-reference", sink, off, exp, "py:array-of-records:%s:bytes-differ-from-field-by-field-reference" % kind)
    env.observe("outlen", sink.length)
    env.observe("out", [sink.at(off + i) for i in range(exp.cap)])


def h_record_array_read(env, kind, pool, nfields, shape, N):
    """the field-by-field reference encoding of an array of records is read back as that array"""
    import numpy as np
    prims, rser, dt, recs, ser, exp = record_setup(env, kind, pool, nfields, shape)
    payload = [exp.at(i) for i in range(exp.cap)]
    r, src, p, tt, (ok, e) = HK.mk_reader(env, N, payload, exp.length, "full")
    if not ok:
        return HK.unexpected(env, "record-array.read-no-exception", e, "skip")
    ok, rv = env.attempt(ser.read, r)
    if not ok:
        return HK.unexpected(env, "record-array.read-no-exception", rv)
    env.reach("record-array.read-no-exception")
    n = _prod(shape)
    same = hasattr(rv, "shape") and tuple(rv.shape) == tuple(shape) and np.dtype(rv.dtype) == dt
    if same:
        got, want = field_images(env, rv, dt, n), expected_images(env, dt, recs)
        same = EQ(want, got)
        env.observe("fields-read", got)
    env.check("record-array.read==written", same, "py:array-of-records:%s:read-differs" % kind, "the array of records read back differs (shape, dtype or a field of an element) from the one whose reference encoding was supplied")
    env.check("record-array.consumed==produced", EQ(HK.consumed(r, src), p + exp.length), "py:array-of-records:%s:consumed-differs" % kind)
    env.check("record-array.shares-no-memory-with-reader-buffer", not HK.shares_reader_buffer(env, rv, r), "py:array-of-records:%s:aliases-reader-buffer" % kind)
