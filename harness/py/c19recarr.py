"""C19 on FIELDS OF ELEMENTS OF ARRAYS OF RECORDS: computed fields such as `recarr[0].a + recarr[1].a` where recarr is
`Rec[]`, `Rec[2]`, `Rec[,]`, `Rec[x, y]`, `Rec[r:2, c:2]`, an alias of such an array, an array of an alias of a record, and
`nestarr[0].inner.a` where the element record has a record-typed field.  C++ evaluates `yardl::at(recarr, 0).a`; the obligation
is the one of the other C19 harnesses: the generated Python returns the exact value of the model expression whenever the
declared result type holds it (and every intermediate), and does not raise.

What the generated code receives: an array of records is a numpy array with the structured dtype `get_dtype(Rec)` that the
generated types.py declares (and that the generated binary / NDJSON readers produce); one element of it is a `numpy.void`, whose
fields are read with value["name"] - a numpy.void has NO field attributes.  A vector of records (`Rec*`) is a Python list of
instances of the generated class: the control.

Model: models/c19computed/recelems.yml.  Symbolic run: npmodel.SymArray of npmodel.RecVal elements (RecVal = numpy.void:
["name"] yields the field as numpy scalar of the field's dtype, a structured field yields a RecVal again, attribute access
raises AttributeError); native replay: real numpy structured arrays.  What `arr[i]`, `arr[i]["name"]`, `hasattr(arr[i], "name")`
give is observed on every path, so every native replay compares the model with real numpy (plus void_model_lemma below).

Not covered (stated bound): record fields whose name is an attribute numpy.void itself has (size, data, real, dtype, item, ...:
there attribute access does not raise but returns that attribute); computed-field access on an element (`recarr[0].someComputed`
cannot work on a numpy.void at all)."""
import warnings
from engine.pysym.core import AND, NOT, IMPLIES, EQ
from harness.py import kernels as HK
from harness.py import npkernels as NK
from harness.py import generated as HG
from harness.py.c19numpy import py_value, is_np_scalar

MODEL = "c19computed"
OUTER = "RaOuter"
FPOOL = [2.5, -0.5, 1e300]                                          # values of the float64 field `b` an expression reads (decided by forking)

# source field -> (element record, "array" | "vector", logical shape, violation-key category)
SOURCES = {
    "recarr": ("RaInner", "array", (2,), "dynamic-array"),
    "recfix": ("RaInner", "array", (2,), "fixed-array"),
    "recmat": ("RaInner", "array", (2, 2), "2d-array"),
    "recnamed": ("RaInner", "array", (2, 2), "2d-array"),
    "recfixmat": ("RaInner", "array", (2, 2), "2d-array"),
    "aliasarr": ("RaInner", "array", (2,), "alias"),
    "aliaselem": ("RaInner", "array", (2,), "alias"),
    "nestarr": ("RaPair", "array", (2,), "nested-record"),
    "nestfix": ("RaPair", "array", (2,), "nested-record"),
    "recvec": ("RaInner", "vector", (2,), "vector"),
    "nestvec": ("RaPair", "vector", (2,), "vector"),
}


class El:
    """field values of one element (RaInner: a, b, u; RaPair: k, inner)"""

    def __init__(self, **kw):
        self.__dict__.update(kw)


# computed field (Python name) -> (model expression, source field, kind, oracle(E) -> (exact value, intermediates) | index of the element whose b is read)
# E = the elements in logical row-major order (2 x 2: [i, j] is E[2 * i + j])
FIELDS = {
    "arr_field": ("recarr[1].a", "recarr", "int", lambda E: (E[1].a, [])),
    "arr_sum": ("recarr[0].a + recarr[1].a", "recarr", "int", lambda E: (E[0].a + E[1].a, [])),
    "arr_diff_small": ("recarr[0].u - recarr[1].u", "recarr", "int", lambda E: (E[0].u - E[1].u, [])),
    "arr_mixed": ("recarr[1].a - recarr[0].u", "recarr", "int", lambda E: (E[1].a - E[0].u, [])),
    "arr_float": ("recarr[0].b + 1", "recarr", "float", (0, lambda b: b + 1.0)),
    "fix_field": ("recfix[1].a", "recfix", "int", lambda E: (E[1].a, [])),
    "fix_sum": ("recfix[0].a + recfix[1].a", "recfix", "int", lambda E: (E[0].a + E[1].a, [])),
    "mat_field": ("recmat[1, 0].a", "recmat", "int", lambda E: (E[2].a, [])),
    "mat_diff": ("recmat[0, 1].a - recmat[1, 0].a", "recmat", "int", lambda E: (E[1].a - E[2].a, [])),
    "named_diff": ("recnamed[x:1, y:0].a - recnamed[x:0, y:1].a", "recnamed", "int", lambda E: (E[2].a - E[1].a, [])),
    "fixmat_sum": ("recfixmat[0, 1].a + recfixmat[r:1, c:0].a", "recfixmat", "int", lambda E: (E[1].a + E[2].a, [])),
    "aliasarr_sum": ("aliasarr[0].a + aliasarr[1].a", "aliasarr", "int", lambda E: (E[0].a + E[1].a, [])),
    "aliaselem_sum": ("aliaselem[0].a + aliaselem[1].a", "aliaselem", "int", lambda E: (E[0].a + E[1].a, [])),
    "nest_key": ("nestarr[1].k", "nestarr", "int", lambda E: (E[1].k, [])),
    "nest_inner": ("nestarr[0].inner.a", "nestarr", "int", lambda E: (E[0].inner.a, [])),
    "nest_sum": ("nestarr[0].inner.a + nestarr[1].k", "nestarr", "int", lambda E: (E[0].inner.a + E[1].k, [])),
    "nest_float": ("nestarr[1].inner.b * 2", "nestarr", "float", (1, lambda b: b * 2.0)),
    "nestfix_inner": ("nestfix[1].inner.a - nestfix[0].inner.u", "nestfix", "int", lambda E: (E[1].inner.a - E[0].inner.u, [])),
    "vec_sum": ("recvec[0].a + recvec[1].a", "recvec", "int", lambda E: (E[0].a + E[1].a, [])),
    "vec_mixed": ("recvec[1].a - recvec[0].u", "recvec", "int", lambda E: (E[1].a - E[0].u, [])),
    "vec_float": ("recvec[0].b + 1", "recvec", "float", (0, lambda b: b + 1.0)),
    "nestvec_sum": ("nestvec[0].inner.a + nestvec[1].k", "nestvec", "int", lambda E: (E[0].inner.a + E[1].k, [])),
    "count": ("size(recarr)", "recarr", "size", None),
}


def _prod(shape):
    n = 1
    for d in shape:
        n *= d
    return n


def _inner(env, name, b):
    return El(a=env.int(name + ".a", *HK.RANGES["int32"]), b=b, u=env.int(name + ".u", *HK.RANGES["uint8"]))


def gen_elements(env, rec, n, b_of):
    """n elements of record `rec` with symbolic integer fields over their whole type; b_of(i) = the float64 field of element i"""
    out = []
    for i in range(n):
        if rec == "RaInner":
            out.append(_inner(env, "e%d" % i, b_of(i)))
        else:
            out.append(El(k=env.int("e%d.k" % i, *HK.RANGES["int16"]), inner=_inner(env, "e%d.inner" % i, b_of(i))))
    return out


def as_tuple(rec, e):
    """the element as numpy takes it in an assignment to a structured array: one value per dtype field, in order"""
    return (e.a, e.b, e.u) if rec == "RaInner" else (e.k, (e.inner.a, e.inner.b, e.inner.u))


def as_object(T, rec, e):
    """the element as an instance of the generated class (what a vector of records holds)"""
    if rec == "RaInner":
        return T.RaInner(a=e.a, b=e.b, u=e.u)
    return T.RaPair(k=e.k, inner=as_object(T, "RaInner", e.inner))


def _fobs(fdt, v):
    """a field read from an element: [plain value, dtype name of the numpy scalar (integer fields)]"""
    return [py_value(v), str(v.dtype) if fdt.kind in "iu" else fdt.kind]


def observe_void(env, arr, index):
    """how the array element at `index` behaves (numpy.void natively, npmodel.RecVal symbolically): the native replay of every
    path compares these observations, which is what validates the structured-element part of the numpy model"""
    e = arr[index]
    names = list(arr.dtype.names)
    env.observe("element-has-field-attributes", [hasattr(e, n) for n in names])
    ok, r = env.attempt(getattr, e, names[0])
    env.observe("element.<first field>", "value" if ok else type(r).__name__)
    vals = []
    for n in names:
        v, fdt = e[n], arr.dtype.fields[n][0]
        if fdt.fields is not None:
            env.observe("nested-has-field-attributes", [hasattr(v, m) for m in fdt.names])
            vals.append([_fobs(fdt.fields[m][0], v[m]) for m in fdt.names])
        else:
            vals.append(_fobs(fdt, v))
    env.observe("element-fields-by-name", vals)
    ok, r = env.attempt(lambda: e["no_such_field"])
    env.observe("element[unknown name]", "value" if ok else type(r).__name__)
    env.observe("len(element)", len(e))


def h_c19_recelem(env, field):
    warnings.filterwarnings("ignore", category=RuntimeWarning)       # numpy announces scalar overflow by a RuntimeWarning and carries on
    T = HG.pkg(env, MODEL).types
    cls = getattr(T, OUTER)
    expr, src, kind, spec = FIELDS[field]
    rec, container, shape, category = SOURCES[src]
    n = _prod(shape)
    b_index, b = None, None
    if kind == "float":
        b_index = spec[0]
        b = FPOOL[env.choice("b", len(FPOOL))]
    E = gen_elements(env, rec, n, lambda i: b if i == b_index else 77.25 + i)
    if container == "array":
        layout = ["C", "F", "T"][env.choice("layout", 3)] if len(shape) > 1 else "C"
        dt = T.get_dtype(getattr(T, rec))
        value = NK.records_with_layout(env, dt, shape, [as_tuple(rec, e) for e in E], layout)
        env.observe("layout", layout)
        observe_void(env, value, tuple(d - 1 for d in shape))
    else:
        value = [as_object(T, rec, e) for e in E]
    r = cls(**{src: value})
    key = "py:computed:field-of-record-array-element:%s" % category
    if kind == "int":
        exact, inter = spec(E)
        tlo, thi = HG.result_range(cls, field)
        inr = AND(*[AND(v >= tlo, v <= thi) for v in [exact] + inter])
    else:
        inr = True
    ok, res = env.attempt(getattr(r, field))
    if not ok:
        name = type(res).__name__
        env.observe("exc", name)
        env.check("computed.no-exception-for-in-range-operands", NOT(inr), "%s:%s" % (key, name),
                  "`%s` raised %s (%s) although the result type holds the value; C++ evaluates the expression on the element" % (expr, name, str(res)[:80]))
        return
    env.reach("computed.no-exception-for-in-range-operands")
    if kind == "size":
        env.observe("result", res)
        env.check("computed.size==length", EQ(res, n), "%s:size:wrong-value" % key)
        return
    if kind == "float":
        got, want = float(res), spec[1](b)
        env.observe("result", got)
        env.check("computed.float-expression==ieee-value", got == want, "%s:float:wrong-value" % key,
                  "`%s` with b = %r gives %r, IEEE double gives %r" % (expr, b, got, want))
        return
    env.observe("numpy-result", is_np_scalar(res))      # (integer results only: the model keeps float64 fields as Python floats, which numpy.float64 is a subclass of)
    val = py_value(res)
    env.observe("result", val)
    env.check("computed.record-array-element-field==mathematical-value", IMPLIES(inr, EQ(val, exact)), "%s:wrong-value" % key,
              "`%s` evaluates to a value different from the mathematical one although the declared result type holds it" % expr)


def void_model_lemma():
    """npmodel.RecVal against numpy.void on concrete values (no code under test involved) -> (number of cases, disagreements)"""
    import numpy as np
    from engine.pysym.npmodel import SymArray, RecVal, NpInt
    inner = np.dtype([("a", np.int32), ("b", np.float64), ("u", np.uint8)], align=True)
    pair = np.dtype([("k", np.int16), ("inner", inner)], align=True)
    bad, cases = [], [0]

    def outcome(f):
        try:
            v = f()
        except Exception as e:
            return type(e).__name__
        if isinstance(v, NpInt):
            return (v.dtype.name, v.v)
        if isinstance(v, float):                    # numpy.float64 is a Python float; the model keeps float fields as Python floats
            return ("float", float(v))
        if isinstance(v, np.generic) and v.dtype.fields is None:
            return (v.dtype.name, v.item())
        if isinstance(v, (RecVal, np.void)):
            return "void"
        return v

    def same(what, real, model):
        cases[0] += 1
        a, b = outcome(real), outcome(model)
        if a != b:
            bad.append("%s: numpy %r, model %r" % (what, a, b))
    for shape, idx in (((2,), 1), ((2, 2), (1, 0))):
        for dt, recs in ((inner, [(7 * i - 3, 0.5 * i, 200 + i) for i in range(4)]), (pair, [(-i, (2**31 - 1 - i, 1.5, i)) for i in range(4)])):
            recs = recs[:_prod(shape)]
            real = np.zeros(len(recs), dtype=dt)
            for i, r in enumerate(recs):
                real[i] = r
            real = real.reshape(shape)
            model = SymArray(dt, shape, [RecVal(dt, r) for r in recs])
            for n in tuple(dt.names) + ("zz",):
                same("%s[%r][%r]" % (dt.names, idx, n), lambda: real[idx][n], lambda: model[idx][n])
                same("%s[%r].%s" % (dt.names, idx, n), lambda: getattr(real[idx], n), lambda: getattr(model[idx], n))
                same("hasattr(%s[%r], %s)" % (dt.names, idx, n), lambda: hasattr(real[idx], n), lambda: hasattr(model[idx], n))
            same("len", lambda: len(real[idx]), lambda: len(model[idx]))
            same("[0]", lambda: real[idx][0], lambda: model[idx][0])
            if dt is pair:
                for n in inner.names + ("zz",):
                    same("pair[%r]['inner'][%r]" % (idx, n), lambda: real[idx]["inner"][n], lambda: model[idx]["inner"][n])
                    same("pair[%r]['inner'].%s" % (idx, n), lambda: getattr(real[idx]["inner"], n), lambda: getattr(model[idx]["inner"], n))
                    same("pair[%r].inner" % (idx,), lambda: real[idx].inner, lambda: model[idx].inner)
    return cases[0], bad
