// The reader a yardl-generated C++ binary reader is for `P: { items: !stream { items: T } }`, reduced to what
// touches the runtime header under test (serializers.h ReadBlock / ReadBlocksIntoVector):
//   * ReadItemsImpl(T&), ReadItemsImpl(std::vector<T>&), CloseImpl(): the bodies tooling/internal/cpp/binary/binary.go
//     emits (writeStepRw: `read_block_successful = yardl::binary::ReadBlock<..>(stream_, current_block_remaining_, value);`,
//     `yardl::binary::ReadBlocksIntoVector<..>(stream_, current_block_remaining_, values);` +
//     `return current_block_remaining_ != 0;`, `stream_.VerifyFinished();`)
//   * ReadItems(T&), ReadItems(std::vector<T>&), Close(): the state machine tooling/internal/cpp/protocols/protocols.go emits
//     for step 0 of a one-step protocol (states 0 = reading, 1 = end seen by a batch read but not yet observed, 2 = done).
// This is a transcription (ASSUMPTION of the part, stated in its evidence): the subject of the check is the runtime
// header; that the emitters produce these bodies is what c07_cpp_reader / c01_cpp_proto_reader (gosym) decide.
// Shared by the llsym harness (trunc.cc) and the native replay driver (replay_trunc.cc).
#pragma once
#include "detail/binary/serializers.h"

namespace trunc_gen {
using yardl::binary::CodedInputStream;

template <typename T>
struct GenReader {
  explicit GenReader(CodedInputStream& s) : stream_(s) {}
  CodedInputStream& stream_;
  size_t current_block_remaining_ = 0;
  uint8_t state_ = 0;
  bool skip_completed_check_ = false;

  // ---- binary.go ----------------------------------------------------------------------------------
  bool ReadItemsImpl(T& value) {
    bool read_block_successful = false;
    read_block_successful = yardl::binary::ReadBlock<T, &yardl::binary::ReadInteger>(stream_, current_block_remaining_, value);
    return read_block_successful;
  }
  bool ReadItemsImpl(std::vector<T>& values) {
    yardl::binary::ReadBlocksIntoVector<T, &yardl::binary::ReadInteger>(stream_, current_block_remaining_, values);
    return current_block_remaining_ != 0;
  }
  void CloseImpl() {
    if (!skip_completed_check_) {
      stream_.VerifyFinished();
    }
  }

  // ---- protocols.go ---------------------------------------------------------------------------------
  [[noreturn]] void InvalidState(uint8_t attempted, uint8_t current) {
    (void)attempted;
    (void)current;
    throw std::runtime_error("Invalid reader state");
  }
  bool ReadItems(T& value) {
    if (state_ != 0) {
      if (state_ == 1) {
        state_ = 2;
        return false;
      }
      InvalidState(0, state_);
    }
    bool result = ReadItemsImpl(value);
    if (!result) {
      state_ = 2;
    }
    return result;
  }
  bool ReadItems(std::vector<T>& values) {
    if (values.capacity() == 0) {
      throw std::runtime_error("vector must have a nonzero capacity.");
    }
    if (state_ != 0) {
      if (state_ == 1) {
        state_ = 2;
        values.clear();
        return false;
      }
      InvalidState(0, state_);
    }
    if (!ReadItemsImpl(values)) {
      state_ = 1;
      return values.size() > 0;
    }
    return true;
  }
  void Close() {
    if (!skip_completed_check_ && state_ != 2) {
      if (state_ == 1) {
        state_ = 2;
      } else {
        InvalidState(2, state_);
      }
    }
    CloseImpl();
  }
};

constexpr size_t OVERFLOW = ~static_cast<size_t>(0);

// what a consumer of the generated reader does: read batches until the reader says the stream is finished, then Close().
// Returns the number of items delivered (copied to out[0..n)); exceptions propagate to the caller.
template <typename T>
size_t DriveBatch(CodedInputStream& s, std::vector<T>& batch, T* out, size_t out_cap) {
  GenReader<T> r(s);
  size_t n = 0;
  while (r.ReadItems(batch)) {
    for (size_t i = 0; i < batch.size(); i++) {
      if (n == out_cap) return OVERFLOW;
      out[n++] = batch[i];
    }
  }
  r.Close();
  return n;
}

template <typename T>
size_t DriveSingle(CodedInputStream& s, T* out, size_t out_cap) {
  GenReader<T> r(s);
  size_t n = 0;
  T item{};
  while (r.ReadItems(item)) {
    if (n == out_cap) return OVERFLOW;
    out[n++] = item;
  }
  r.Close();
  return n;
}
}  // namespace trunc_gen
