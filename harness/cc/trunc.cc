// llsym harness for C16 on stream steps: the consumer loop over a generated reader (trunc_gen.h) on top of the real
// serializers.h, plus ReadVector / ReadMap, plus the engine's exception-handling self-test.  Compiled at -O0 behind
// harness/cc/stubinc/yardl.h; serializers.h is included unmodified from /repo.
#include "trunc_gen.h"
#include "ehself.h"
using namespace yardl::binary;
extern "C" {
size_t h_DriveBatch_u8(CodedInputStream* s, std::vector<uint8_t>* batch, uint8_t* out, size_t cap) { return trunc_gen::DriveBatch<uint8_t>(*s, *batch, out, cap); }
size_t h_DriveBatch_u32(CodedInputStream* s, std::vector<uint32_t>* batch, uint32_t* out, size_t cap) { return trunc_gen::DriveBatch<uint32_t>(*s, *batch, out, cap); }
size_t h_DriveSingle_u8(CodedInputStream* s, uint8_t* out, size_t cap) { return trunc_gen::DriveSingle<uint8_t>(*s, out, cap); }
size_t h_DriveSingle_u32(CodedInputStream* s, uint32_t* out, size_t cap) { return trunc_gen::DriveSingle<uint32_t>(*s, out, cap); }
void h_ReadVector_u8(CodedInputStream* s, std::vector<uint8_t>* d) { ReadVector<uint8_t, &ReadInteger>(*s, *d); }
void h_ReadVector_u32(CodedInputStream* s, std::vector<uint32_t>* d) { ReadVector<uint32_t, &ReadInteger>(*s, *d); }
void h_ReadMap_u8_u32(CodedInputStream* s, std::unordered_map<uint8_t, uint32_t>* d) { ReadMap<uint8_t, uint32_t, &ReadInteger, &ReadInteger>(*s, *d); }
int32_t h_ehself(uint32_t which, uint32_t kind, int32_t x, int32_t* trace, int32_t* ntrace) { return ehself::Run(which, kind, x, trace, ntrace); }
}
