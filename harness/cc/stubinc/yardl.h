// Stub replacement for the generated yardl.h (which needs xtensor / date.h, absent here).
// Only declarations that serializers.h / header.h mention; nothing here is under test.
#pragma once
#include <array>
#include <chrono>
#include <complex>
#include <cstddef>
#include <cstdint>
#include <istream>
#include <optional>
#include <ostream>
#include <stdexcept>
#include <string>
#include <unordered_map>
#include <variant>
#include <vector>
namespace date { using days = std::chrono::duration<int, std::ratio<86400>>; }
namespace yardl {
using Size = uint64_t;
using Date = std::chrono::time_point<std::chrono::system_clock, date::days>;
using Time = std::chrono::duration<int64_t, std::nano>;
using DateTime = std::chrono::time_point<std::chrono::system_clock, std::chrono::duration<int64_t, std::nano>>;
template <typename T> struct DynamicNDArray {};
template <typename T, size_t N> struct NDArray {};
template <typename T, size_t... Dims> struct FixedNDArray {};
template <typename A> std::vector<size_t> shape(A const&);
template <typename A> size_t size(A const&);
template <typename A> auto dataptr(A& a) -> typename A::value_type*;
template <typename A, typename S> void resize(A&, S const&);
}  // namespace yardl
