// llsym harness for the serializers.h readers that take their destination by reference (C17 destination
// reuse) and for the write/read pairs of C01 item 2(c).  Compiled at -O0 behind harness/cc/stubinc/yardl.h;
// serializers.h is included unmodified from /repo.
#include "detail/binary/serializers.h"
using namespace yardl::binary;
extern "C" {
// ---- readers into a caller-supplied (possibly reused) destination -----------------------------------
void h_ReadOptional_u32(CodedInputStream* s, std::optional<uint32_t>* d) { ReadOptional<uint32_t, &ReadInteger>(*s, *d); }
void h_ReadVector_u8(CodedInputStream* s, std::vector<uint8_t>* d) { ReadVector<uint8_t, &ReadInteger>(*s, *d); }
void h_ReadVector_u32(CodedInputStream* s, std::vector<uint32_t>* d) { ReadVector<uint32_t, &ReadInteger>(*s, *d); }
void h_ReadArray_u8_3(CodedInputStream* s, std::array<uint8_t, 3>* d) { ReadArray<uint8_t, &ReadInteger, 3>(*s, *d); }
void h_ReadArray_u32_2(CodedInputStream* s, std::array<uint32_t, 2>* d) { ReadArray<uint32_t, &ReadInteger, 2>(*s, *d); }
void h_ReadMap_u8_u32(CodedInputStream* s, std::unordered_map<uint8_t, uint32_t>* d) {
  ReadMap<uint8_t, uint32_t, &ReadInteger, &ReadInteger>(*s, *d);
}
void h_ReadMap_u32_u32(CodedInputStream* s, std::unordered_map<uint32_t, uint32_t>* d) {
  ReadMap<uint32_t, uint32_t, &ReadInteger, &ReadInteger>(*s, *d);
}
// ---- writers (C01) --------------------------------------------------------------------------------------
void h_WriteOptional_u32(CodedOutputStream* s, std::optional<uint32_t> const* v) { WriteOptional<uint32_t, &WriteInteger>(*s, *v); }
void h_WriteVector_u8(CodedOutputStream* s, std::vector<uint8_t> const* v) { WriteVector<uint8_t, &WriteInteger>(*s, *v); }
void h_WriteVector_u32(CodedOutputStream* s, std::vector<uint32_t> const* v) { WriteVector<uint32_t, &WriteInteger>(*s, *v); }
void h_WriteBlock_u32(CodedOutputStream* s, uint32_t const* v) { WriteBlock<uint32_t, &WriteInteger>(*s, *v); }
bool h_ReadBlock_u32(CodedInputStream* s, size_t* rem, uint32_t* dst) { return ReadBlock<uint32_t, &ReadInteger>(*s, *rem, *dst); }
#define INT_PAIR(NAME, T)                                                              \
  void h_WriteInteger_##NAME(CodedOutputStream* s, T const* v) { WriteInteger(*s, *v); } \
  void h_ReadInteger_##NAME(CodedInputStream* s, T* v) { ReadInteger(*s, *v); }
INT_PAIR(bool, bool)
INT_PAIR(i8, int8_t)
INT_PAIR(u8, uint8_t)
INT_PAIR(i16, int16_t)
INT_PAIR(u16, uint16_t)
INT_PAIR(i32, int32_t)
INT_PAIR(u32, uint32_t)
INT_PAIR(i64, int64_t)
INT_PAIR(u64, uint64_t)
INT_PAIR(size, size_t)
void h_Flush(CodedOutputStream* s) { s->Flush(); }
}
