// llsym harness for serializers.h / header.h (behind harness/cc/stubinc/yardl.h): compiled at -O0 so
// that library calls stay calls.  The headers under test are included unmodified from /repo.
#include "detail/binary/header.h"
using namespace yardl::binary;
extern "C" {
bool h_ReadBlock_u32(CodedInputStream* s, size_t* rem, uint32_t* dst) { return ReadBlock<uint32_t, &ReadInteger>(*s, *rem, *dst); }
void h_RBIV_u8(CodedInputStream* s, size_t* rem, std::vector<uint8_t>* dst) { ReadBlocksIntoVector<uint8_t, &ReadInteger>(*s, *rem, *dst); }
void h_RBIV_u32(CodedInputStream* s, size_t* rem, std::vector<uint32_t>* dst) { ReadBlocksIntoVector<uint32_t, &ReadInteger>(*s, *rem, *dst); }
// ReadHeader is entered directly (its sret slot is a 32-byte object supplied by the engine); this
// wrapper only forces the instantiation into the module.
void h_ReadHeader(CodedInputStream* s, std::string* out) { new (out) std::string(ReadHeader(*s)); }
}
