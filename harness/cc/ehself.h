// Self-test of llsym's C++ exception handling (invoke / landingpad / resume / __cxa_begin_catch / __cxa_end_catch /
// __cxa_rethrow / llvm.eh.typeid.for / typeinfo matching): every path of Run() is executed symbolically and replayed
// natively (replay_trunc.cc), return value and trace must agree.  Nothing of yardl is involved.
#pragma once
#include <cstdint>
#include <stdexcept>

namespace ehself {
struct Base : std::exception {
  int code;
  explicit Base(int c) : code(c) {}
};
struct Derived : Base {
  explicit Derived(int c) : Base(c) {}
};
struct Other : std::exception {};
struct Trace {
  int32_t* t;
  int32_t n = 0;
  void add(int32_t v) { t[n++] = v; }
};
struct Guard {  // a destructor with an observable effect: cleanup landing pads must run, in order
  Trace& tr;
  int32_t id;
  ~Guard() { tr.add(id); }
};

inline void Thrower(Trace& tr, uint32_t kind, int32_t x) {
  Guard g{tr, 100};
  switch (kind) {
    case 0: return;
    case 1: throw Base(x);
    case 2: throw Derived(x);
    case 3: throw Other();
    case 4: throw std::runtime_error("rt");
    default: throw x;
  }
}
inline int32_t Mid(Trace& tr, uint32_t kind, int32_t x) {  // handles Base (and Derived through its base); rethrows odd codes
  Guard g{tr, 200};
  try {
    Thrower(tr, kind, x);
    tr.add(1);
  } catch (Base const& b) {
    Guard h{tr, 300};
    tr.add(2);
    tr.add(b.code);
    if (b.code & 1) throw;
    return 10;
  }
  return 11;
}
inline int32_t Top(Trace& tr, uint32_t kind, int32_t x) {
  try {
    return Mid(tr, kind, x);
  } catch (Derived const& d) {
    tr.add(3);
    return 20 + (d.code & 2);
  } catch (std::runtime_error const&) {
    tr.add(4);
    return 30;
  } catch (std::exception const&) {  // rethrown Base, Other
    tr.add(5);
    return 40;
  }
  // an int propagates to the caller
}
inline int32_t Convert(Trace& tr, uint32_t kind, int32_t x) {  // catch-all; a different exception leaves the handler
  try {
    Thrower(tr, kind, x);
    return 0;
  } catch (...) {
    Guard h{tr, 400};
    tr.add(6);
    if (x == 7) throw Other();
    return 50;
  }
}
inline int32_t Nested(Trace& tr, uint32_t kind, int32_t x) {  // non-matching inner clause, matching outer one, handler that throws again
  try {
    try {
      Thrower(tr, kind, x);
      return 0;
    } catch (std::runtime_error const&) {
      tr.add(7);
      throw Derived(x);
    }
  } catch (Base const& b) {
    tr.add(8);
    return 60 + (b.code & 1);
  }
}
inline int32_t Run(uint32_t which, uint32_t kind, int32_t x, int32_t* trace, int32_t* ntrace) {
  Trace tr{trace};
  struct Fin {
    Trace& tr;
    int32_t* n;
    ~Fin() { *n = tr.n; }
  } fin{tr, ntrace};
  switch (which) {
    case 0: return Top(tr, kind, x);
    case 1: return Convert(tr, kind, x);
    default: return Nested(tr, kind, x);
  }
}
}  // namespace ehself
