// Native replay driver for the C16 stream-step truncation part (parts/cc_trunc.py): the same consumer loop over the
// same generated-reader transcription (trunc_gen.h) on the real serializers.h, and the exception-handling self-test.
//
//   replay_trunc R <N> <hex stream bytes> <cmd>...
// cmds: pre:<k> (ReadBytes k, discard)   prefill (VerifyFinished, result ignored)
//       DriveBatch_u8:<capacity>:<hex prior>     -> "ret n=<delivered> items=<hex>"
//       DriveBatch_u32:<capacity>:<v,v,..>       -> "ret n=<delivered> items=v,v,.."
//       DriveSingle_u8 | DriveSingle_u32         -> same
//       ReadVector_u8:<capacity>:<hex prior>     -> "ret n=<size> items=<hex>"
//       ReadVector_u32:<capacity>:<v,v,..>       -> "ret n=<size> items=v,v,.."
//       ReadMap_u8_u32:<k=v,k=v> (prior entries) -> "ret n=<size>"
//       drain (ReadBytes(1) until an exception, capped)
//   replay_trunc E <which> <kind> <x>            -> "ret <code> trace=a,b,.." | "throw _ZTI<mangled type>"
// If BAKED_ARGS is defined the arguments are compiled in (self-contained replay artefacts).
#include <cstdio>
#include <cstdlib>
#include <sstream>
#include <typeinfo>

#include "trunc_gen.h"
#include "ehself.h"

using namespace yardl::binary;

static std::string unhex(std::string const& h) {
  std::string out;
  for (size_t i = 0; i + 1 < h.size(); i += 2) out.push_back(static_cast<char>(strtoul(h.substr(i, 2).c_str(), nullptr, 16)));
  return out;
}
static std::string hex(void const* p, size_t n) {
  static char const* d = "0123456789abcdef";
  std::string out;
  for (size_t i = 0; i < n; i++) {
    uint8_t b = static_cast<uint8_t const*>(p)[i];
    out.push_back(d[b >> 4]);
    out.push_back(d[b & 15]);
  }
  return out;
}
static void say(std::string const& s) {
  puts(s.c_str());
  fflush(stdout);
}
static std::vector<std::string> split(std::string const& s, char sep) {
  std::vector<std::string> out;
  std::string cur;
  for (char ch : s) {
    if (ch == sep) {
      out.push_back(cur);
      cur.clear();
    } else {
      cur.push_back(ch);
    }
  }
  out.push_back(cur);
  return out;
}
static std::string list_u32(uint32_t const* v, size_t n) {
  std::string items;
  for (size_t k = 0; k < n; k++) items += (k ? "," : "") + std::to_string(v[k]);
  return items;
}
static std::vector<uint8_t> vec_u8(std::vector<std::string> const& f) {
  size_t cap = strtoull(f[1].c_str(), nullptr, 10);
  std::vector<uint8_t> v;
  v.reserve(cap);
  for (char ch : unhex(f.size() > 2 ? f[2] : "")) v.push_back(static_cast<uint8_t>(ch));
  return v;
}
static std::vector<uint32_t> vec_u32(std::vector<std::string> const& f) {
  size_t cap = strtoull(f[1].c_str(), nullptr, 10);
  std::vector<uint32_t> v;
  v.reserve(cap);
  if (f.size() > 2 && !f[2].empty())
    for (auto const& s : split(f[2], ',')) v.push_back(static_cast<uint32_t>(strtoul(s.c_str(), nullptr, 10)));
  return v;
}
static std::string shown(size_t n) { return n == trunc_gen::OVERFLOW ? std::string("overflow") : std::to_string(n); }
constexpr size_t OUT_CAP = 8;

static int reader(std::vector<std::string> const& a) {
  size_t N = strtoul(a[0].c_str(), nullptr, 10);
  std::istringstream ss(unhex(a[1]));
  CodedInputStream r(ss, N);
  for (size_t i = 2; i < a.size(); i++) {
    std::vector<std::string> f = split(a[i], ':');
    std::string c = f[0];
    try {
      if (c == "pre") {
        size_t k = strtoul(f[1].c_str(), nullptr, 10);
        std::vector<uint8_t> t(k + 1);
        r.ReadBytes(t.data(), k);
        say("pre ok");
      } else if (c == "prefill") {
        try {
          r.VerifyFinished();
          say("prefill ret");
        } catch (std::exception const&) {
          say("prefill throw");
        }
      } else if (c == "DriveBatch_u8") {
        std::vector<uint8_t> v = vec_u8(f);
        uint8_t out[OUT_CAP] = {};
        size_t n = trunc_gen::DriveBatch<uint8_t>(r, v, out, OUT_CAP);
        say("ret n=" + shown(n) + " items=" + hex(out, n == trunc_gen::OVERFLOW ? OUT_CAP : n));
      } else if (c == "DriveBatch_u32") {
        std::vector<uint32_t> v = vec_u32(f);
        uint32_t out[OUT_CAP] = {};
        size_t n = trunc_gen::DriveBatch<uint32_t>(r, v, out, OUT_CAP);
        say("ret n=" + shown(n) + " items=" + list_u32(out, n == trunc_gen::OVERFLOW ? OUT_CAP : n));
      } else if (c == "DriveSingle_u8") {
        uint8_t out[OUT_CAP] = {};
        size_t n = trunc_gen::DriveSingle<uint8_t>(r, out, OUT_CAP);
        say("ret n=" + shown(n) + " items=" + hex(out, n == trunc_gen::OVERFLOW ? OUT_CAP : n));
      } else if (c == "DriveSingle_u32") {
        uint32_t out[OUT_CAP] = {};
        size_t n = trunc_gen::DriveSingle<uint32_t>(r, out, OUT_CAP);
        say("ret n=" + shown(n) + " items=" + list_u32(out, n == trunc_gen::OVERFLOW ? OUT_CAP : n));
      } else if (c == "ReadVector_u8") {
        std::vector<uint8_t> v = vec_u8(f);
        ReadVector<uint8_t, &ReadInteger>(r, v);
        say("ret n=" + std::to_string(v.size()) + " items=" + hex(v.data(), v.size()));
      } else if (c == "ReadVector_u32") {
        std::vector<uint32_t> v = vec_u32(f);
        ReadVector<uint32_t, &ReadInteger>(r, v);
        say("ret n=" + std::to_string(v.size()) + " items=" + list_u32(v.data(), v.size()));
      } else if (c == "ReadMap_u8_u32") {
        std::unordered_map<uint8_t, uint32_t> m;
        if (f.size() > 1 && !f[1].empty())
          for (auto const& e : split(f[1], ',')) {
            auto kv = split(e, '=');
            m[static_cast<uint8_t>(strtoul(kv[0].c_str(), nullptr, 10))] = static_cast<uint32_t>(strtoul(kv[1].c_str(), nullptr, 10));
          }
        ReadMap<uint8_t, uint32_t, &ReadInteger, &ReadInteger>(r, m);
        say("ret n=" + std::to_string(m.size()));
      } else if (c == "drain") {
        std::string got;
        try {
          for (int n = 0; n < 512; n++) {
            uint8_t v;
            r.ReadBytes(&v, 1);
            got.push_back(static_cast<char>(v));
          }
        } catch (EndOfStreamException const&) {
        }
        say("drain " + hex(got.data(), got.size()));
      } else {
        say("bad command " + c);
        return 2;
      }
    } catch (EndOfStreamException const&) {
      say("throw yardl::binary::EndOfStreamException");
    } catch (std::runtime_error const& e) {
      say(std::string("throw std::runtime_error ") + e.what());
    } catch (std::exception const& e) {
      say(std::string("throw _ZTI") + typeid(e).name());
    }
  }
  return 0;
}

static int selftest(std::vector<std::string> const& a) {
  uint32_t which = static_cast<uint32_t>(strtoul(a[0].c_str(), nullptr, 10));
  uint32_t kind = static_cast<uint32_t>(strtoul(a[1].c_str(), nullptr, 10));
  int32_t x = static_cast<int32_t>(strtol(a[2].c_str(), nullptr, 10));
  int32_t trace[16] = {};
  int32_t n = 0;
  try {
    int32_t rv = ehself::Run(which, kind, x, trace, &n);
    std::string t;
    for (int32_t k = 0; k < n; k++) t += (k ? "," : "") + std::to_string(trace[k]);
    say("ret " + std::to_string(rv) + " trace=" + t);
  } catch (std::exception const& e) {
    say(std::string("throw _ZTI") + typeid(e).name());
  } catch (int) {
    say(std::string("throw _ZTI") + typeid(int).name());
  }
  return 0;
}

int main(int argc, char** argv) {
  std::vector<std::string> a;
#ifdef BAKED_ARGS
  char const* baked[] = BAKED_ARGS;
  for (char const* s : baked) a.push_back(s);
  (void)argc;
  (void)argv;
#else
  for (int i = 1; i < argc; i++) a.push_back(argv[i]);
#endif
  if (a.size() < 3) return 2;
  std::string mode = a[0];
  a.erase(a.begin());
  return mode == "E" ? selftest(a) : reader(a);
}
