// llsym harness for coded_stream.h: one extern "C" entry point per public method, so that the
// symbolic executor (engine/llsym) can start from a stream object whose fields it has set up
// itself (arbitrary valid state).  The header under test is included unmodified from /repo.
#include <algorithm>
#include <cstdint>
#include <cstring>
#include <istream>
#include <ostream>
#include <stdexcept>
#include <vector>

#include "detail/binary/coded_stream.h"
using namespace yardl::binary;
extern "C" {
void h_ReadVarU32(CodedInputStream* s, uint32_t* out) { s->ReadVarInt32(*out); }
void h_ReadVarI32(CodedInputStream* s, int32_t* out) { s->ReadVarInt32(*out); }
void h_ReadVarU64(CodedInputStream* s, uint64_t* out) { s->ReadVarInt64(*out); }
void h_ReadVarI64(CodedInputStream* s, int64_t* out) { s->ReadVarInt64(*out); }
void h_ReadFixed1(CodedInputStream* s, uint8_t* out) { s->ReadFixedInteger(*out); }
void h_ReadFixed2(CodedInputStream* s, uint16_t* out) { s->ReadFixedInteger(*out); }
void h_ReadFixed4(CodedInputStream* s, uint32_t* out) { s->ReadFixedInteger(*out); }
void h_ReadFixed8(CodedInputStream* s, uint64_t* out) { s->ReadFixedInteger(*out); }
void h_ReadByte(CodedInputStream* s, uint8_t* out) { s->ReadByte(*out); }
void h_ReadBytes(CodedInputStream* s, uint8_t* out, size_t n) { s->ReadBytes(out, n); }
void h_VerifyFinished(CodedInputStream* s) { s->VerifyFinished(); }

void h_WriteVarU32(CodedOutputStream* s, uint32_t const* v) { s->WriteVarInt32(*v); }
void h_WriteVarI32(CodedOutputStream* s, int32_t const* v) { s->WriteVarInt32(*v); }
void h_WriteVarU64(CodedOutputStream* s, uint64_t const* v) { s->WriteVarInt64(*v); }
void h_WriteVarI64(CodedOutputStream* s, int64_t const* v) { s->WriteVarInt64(*v); }
void h_WriteFixed1(CodedOutputStream* s, uint8_t const* v) { s->WriteFixedInteger(*v); }
void h_WriteFixed2(CodedOutputStream* s, uint16_t const* v) { s->WriteFixedInteger(*v); }
void h_WriteFixed4(CodedOutputStream* s, uint32_t const* v) { s->WriteFixedInteger(*v); }
void h_WriteFixed8(CodedOutputStream* s, uint64_t const* v) { s->WriteFixedInteger(*v); }
void h_WriteByte(CodedOutputStream* s, uint8_t const* v) { s->WriteByte(*v); }
void h_WriteBytes(CodedOutputStream* s, uint8_t const* p, size_t n) { s->WriteBytes(p, n); }
void h_Flush(CodedOutputStream* s) { s->Flush(); }
}
