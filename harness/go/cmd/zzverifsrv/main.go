// Native oracle for gosym: evaluates yardl's participle-generated parsers (a foreign, reflection-driven
// library parameterised by yardl's grammar structs and lexer rules) and the yaml.v3 text parser (kind
// "yaml.Documents": concrete YAML text -> the node tree of every document) on concrete strings.  Built from the
// tree under test on every run (go build -overlay); see engine/gosym/interp/yaml_intrinsics.go.
//
// Values are encoded generically by reflection: structs as objects keyed by field name (exported fields),
// pointers as their element or null, interface values as {"$t": <dynamic type>, "$v": <value>}, big.Int
// as {"$big": <decimal>}.
package main

import (
	"bufio"
	"bytes"
	"encoding/base64"
	"encoding/json"
	"fmt"
	"io"
	"math/big"
	"os"
	"reflect"

	"github.com/alecthomas/participle/v2"
	"github.com/microsoft/yardl/tooling/pkg/dsl"
	"github.com/microsoft/yardl/tooling/pkg/dsl/parser"
	"gopkg.in/yaml.v3"
)

var bigIntType = reflect.TypeOf(big.Int{})

func typeName(t reflect.Type) string {
	if t.Kind() == reflect.Ptr {
		return "*" + typeName(t.Elem())
	}
	if t.PkgPath() == "" {
		return t.Name()
	}
	return t.PkgPath() + "." + t.Name()
}

func enc(v reflect.Value) any {
	switch v.Kind() {
	case reflect.Interface:
		if v.IsNil() {
			return nil
		}
		e := v.Elem()
		return map[string]any{"$t": typeName(e.Type()), "$v": enc(e)}
	case reflect.Ptr:
		if v.IsNil() {
			return nil
		}
		return enc(v.Elem())
	case reflect.Struct:
		if v.Type() == bigIntType {
			x := v.Interface().(big.Int)
			return map[string]any{"$big": x.String()}
		}
		m := map[string]any{}
		for i := 0; i < v.NumField(); i++ {
			f := v.Type().Field(i)
			if f.PkgPath != "" {
				continue
			}
			m[f.Name] = enc(v.Field(i))
		}
		return m
	case reflect.Slice:
		if v.IsNil() {
			return nil
		}
		out := make([]any, v.Len())
		for i := range out {
			out[i] = enc(v.Index(i))
		}
		return out
	case reflect.Map:
		if v.Len() == 0 {
			return nil // nil and empty maps are not distinguished (parser results carry no annotations)
		}
	case reflect.String:
		return v.String()
	case reflect.Bool:
		return v.Bool()
	case reflect.Int, reflect.Int8, reflect.Int16, reflect.Int32, reflect.Int64:
		return json.Number(fmt.Sprint(v.Int()))
	case reflect.Uint, reflect.Uint8, reflect.Uint16, reflect.Uint32, reflect.Uint64:
		return json.Number(fmt.Sprint(v.Uint()))
	}
	panic("zzverifsrv: cannot encode " + v.Type().String())
}

// encNode encodes a yaml.Node tree field by field (the names jsonToValue looks up).  An alias node carries a copy of the
// node it refers to; an alias to a node that is still being encoded (an anchor containing itself) is encoded without target.
func encNode(n *yaml.Node, open map[*yaml.Node]bool) any {
	if n == nil {
		return nil
	}
	m := map[string]any{
		"Kind": json.Number(fmt.Sprint(uint32(n.Kind))), "Style": json.Number(fmt.Sprint(uint32(n.Style))),
		"Tag": n.Tag, "Value": n.Value, "Anchor": n.Anchor,
		"HeadComment": n.HeadComment, "LineComment": n.LineComment, "FootComment": n.FootComment,
		"Line": json.Number(fmt.Sprint(n.Line)), "Column": json.Number(fmt.Sprint(n.Column)),
	}
	open[n] = true
	if n.Alias != nil && !open[n.Alias] {
		m["Alias"] = encNode(n.Alias, open)
	}
	if n.Content != nil {
		items := make([]any, len(n.Content))
		for i, c := range n.Content {
			items[i] = encNode(c, open)
		}
		m["Content"] = items
	}
	delete(open, n)
	return m
}

// yamlDocuments: the real yaml.v3 parser on concrete text (base64): every document of the stream as a node tree, and the
// error that ended the stream, if it was not its end.
func yamlDocuments(input string) map[string]any {
	resp := map[string]any{}
	text, err := base64.StdEncoding.DecodeString(input)
	if err != nil {
		resp["err"] = "zzverifsrv: bad base64 input"
		return resp
	}
	dec := yaml.NewDecoder(bytes.NewReader(text))
	docs := []any{}
	for {
		var n yaml.Node
		if err := dec.Decode(&n); err != nil {
			if err != io.EOF {
				resp["err"] = err.Error()
			}
			break
		}
		docs = append(docs, encNode(&n, map[*yaml.Node]bool{}))
	}
	resp["v"] = docs
	return resp
}

func eval(kind, input string) (resp map[string]any) {
	resp = map[string]any{}
	defer func() {
		if r := recover(); r != nil {
			resp = map[string]any{"panic": fmt.Sprint(r)}
		}
	}()
	if kind == "yaml.Documents" {
		return yamlDocuments(input)
	}
	var v any
	var err error
	switch kind {
	case "parser.Type":
		v, err = parser.ParseType(input)
	case "parser.Pattern":
		v, err = parser.ParsePattern(input)
	case "dsl.Expression":
		v, err = dsl.VerifParseExpressionRaw(input)
	default:
		err = fmt.Errorf("zzverifsrv: unknown kind %q", kind)
	}
	if err != nil {
		resp["err"] = err.Error()
		if pe, ok := err.(participle.Error); ok {
			resp["perr"] = map[string]any{"Msg": pe.Message(), "Pos": enc(reflect.ValueOf(pe.Position()))}
		}
	}
	if v != nil && !(reflect.ValueOf(v).Kind() == reflect.Ptr && reflect.ValueOf(v).IsNil()) {
		rv := reflect.ValueOf(&v).Elem()
		if kind == "dsl.Expression" {
			resp["v"] = enc(rv) // interface-typed: tagged
		} else {
			resp["v"] = enc(rv.Elem())
		}
	}
	return resp
}

func main() {
	r := bufio.NewReaderSize(os.Stdin, 1<<20)
	w := bufio.NewWriter(os.Stdout)
	for {
		line, err := r.ReadBytes('\n')
		if err != nil {
			return
		}
		var req [2]string
		if err := json.Unmarshal(line, &req); err != nil {
			fmt.Fprintln(w, `{"err":"bad request"}`)
			w.Flush()
			continue
		}
		b, _ := json.Marshal(eval(req[0], req[1]))
		w.Write(b)
		w.WriteByte('\n')
		w.Flush()
	}
}
