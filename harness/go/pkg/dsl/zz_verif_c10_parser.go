package dsl

// C10: the hand-written precedence parser for computed-field expressions (expressionparser.go:
// parseExpr, parseExprWithPrecedence, parseAtom, parseCall, parseSubscript, parseSubscriptArg,
// combineOperands) on an ARBITRARY token sequence.  The regular-expression lexer (participle) is outside
// the executor; its output is over-approximated: every sequence of n tokens whose types range over all
// token kinds of expressionLexer (a symbolic token type per position) followed by EOF.  The token stream
// is the library's real PeekingLexer (interpreted), fed by the Lexer below.
// Obligations: the parser terminates, does not panic, returns exactly one of (expression, error), and every
// error is a positioned participle.Error (ParseExpression panics on any other error type).

import (
	"github.com/alecthomas/participle/v2"
	"github.com/alecthomas/participle/v2/lexer"
)

type verifTokLexer struct {
	toks []lexer.Token
	pos  int
}

func (l *verifTokLexer) Next() (lexer.Token, error) {
	if l.pos < len(l.toks) {
		t := l.toks[l.pos]
		l.pos++
		return t, nil
	}
	return lexer.EOFToken(lexer.Position{Filename: "expr", Line: 1, Column: len(l.toks) + 1}), nil
}

// VerifC10Parser(n): all token sequences of length n.
func VerifC10Parser(n int) {
	syms := expressionLexer.Symbols()
	lo, hi := lexer.TokenType(0), lexer.TokenType(-1000)
	for name, t := range syms {
		if name == "EOF" || name == "whitespace" {
			continue
		}
		if t < lo {
			lo = t
		}
		if t > hi {
			hi = t
		}
	}
	verifOut("token-kinds", int(hi-lo)+1)
	var toks []lexer.Token
	for i := 0; i < n; i++ {
		t := lexer.TokenType(verifInt("token-type"))
		verifAssume(t >= lo && t <= hi)
		// token text: only integer tokens interpret it ("09" is matched by the lexer's Int rule but is not a valid literal)
		toks = append(toks, lexer.Token{Type: t, Value: verifOneOf("token-text", "1", "09"), Pos: lexer.Position{Filename: "expr", Line: 1, Column: i + 1}})
	}
	plex, err := lexer.Upgrade(&verifTokLexer{toks: toks})
	verifAssert("token-stream-built", err == nil)
	var expr Expression
	var perr error
	var msg string
	panicked := false
	done := verifBounded(func() {
		msg, panicked = verifPanics(func() { expr, perr = parseExpr(plex) })
	}, 400, 400000)
	verifAssert("parser-terminates", done)
	if !done {
		return
	}
	verifOut("panic", msg)
	verifAssert("parser-does-not-panic", !panicked)
	if !panicked {
		verifAssert("expression-or-error", (expr != nil) != (perr != nil))
		if perr != nil {
			// ParseExpression turns any error that is not a positioned participle.Error into a panic
			_, positioned := perr.(participle.Error)
			verifAssert("error-is-positioned", positioned)
		}
	}
	verifReach("c10-parser-end")
}
