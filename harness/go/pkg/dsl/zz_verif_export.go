package dsl

func VerifCompareTypes(newType, oldType Type) TypeChange {
	ctx := &EvolutionContext{
		BasePairs:     map[string]map[string]*DefinitionPair{},
		SemanticPairs: map[string]map[string]*DefinitionPair{},
		Changes:       map[string]map[string]DefinitionChange{},
	}
	return compareTypes(newType, oldType, ctx)
}

func VerifTypeChangeIsError(tc TypeChange) bool { return typeChangeIsError(tc) }

func VerifTypeChangeToWarning(tc TypeChange) string { return typeChangeToWarning(tc) }

// VerifNormalizeComment: the head-comment -> documentation-comment function of the YAML layer (C13).
func VerifNormalizeComment(comments string) string { return normalizeComment(comments) }
