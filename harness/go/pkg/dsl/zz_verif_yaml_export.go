package dsl

// VerifParseExpressionRaw: what expressionParser.ParseString returns for a concrete string (used by the
// native oracle that stands in for the participle library under gosym).
func VerifParseExpressionRaw(input string) (Expression, error) {
	e, err := expressionParser.ParseString("", input)
	if e == nil {
		return nil, err
	}
	return *e, err
}
