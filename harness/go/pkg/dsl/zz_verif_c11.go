package dsl

import (
	"errors"

	"github.com/microsoft/yardl/tooling/pkg/packaging"
)

var VerifEvoBad bool

// VerifParseHook, when set by a harness (C20), supplies the result of the ParsePackageContents seam.
var VerifParseHook func(pkgInfo *packaging.PackageInfo) (*Namespace, error)

func verifRepl_ParsePackageContents(pkgInfo *packaging.PackageInfo) (*Namespace, error) {
	if VerifParseHook != nil {
		return VerifParseHook(pkgInfo)
	}
	verifEvent("parse", pkgInfo.PackageDir())
	switch packaging.VerifModes[pkgInfo.PackageDir()] {
	case "parsebad":
		return nil, errors.New("parse error in " + pkgInfo.PackageDir())
	case "valbad":
		return &Namespace{Name: pkgInfo.Namespace, TypeDefinitions: TypeDefinitions{&NamedType{DefinitionMeta: &DefinitionMeta{Name: "ValBad"}}}}, nil
	}
	return &Namespace{Name: pkgInfo.Namespace}, nil
}

func verifRepl_Validate(namespaces []*Namespace) (*Environment, error) {
	verifEvent("validate", len(namespaces))
	for _, ns := range namespaces {
		for _, td := range ns.TypeDefinitions {
			if td.GetDefinitionMeta().Name == "ValBad" {
				return nil, errors.New("validation error in " + ns.Name)
			}
		}
	}
	return &Environment{Namespaces: namespaces}, nil
}

func verifRepl_ValidateEvolution(latest *Environment, predecessors []*Environment, versionLabels []string) (*Environment, []string, error) {
	verifEvent("evolution", len(predecessors))
	if VerifEvoBad {
		return nil, nil, errors.New("evolution error")
	}
	return latest, nil, nil
}
