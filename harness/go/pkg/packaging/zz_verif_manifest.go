package packaging

// VerifReadPackageInfo: the real manifest reader (readPackageInfo: file lookup, yaml decoding, validate()).
func VerifReadPackageInfo(dir string) (*PackageInfo, error) { return readPackageInfo(dir) }
