package packaging

// C12: the diagnostics of a package that FAILS TO LOAD (content and order) must not depend on Go map iteration
// order.  c12_diagnostics_map_order decides this for the validation passes; the package loader runs before any of
// them, keeps its own maps (namespaces collected so far, namespaces on the current import chain) and reports its
// errors without going through the sorting error sink.  The real LoadPackage runs on import graphs that fail in
// every way the loader knows - a cycle through two, three or four namespaces (entered directly or from a package
// outside the cycle, with bystander packages already collected), a namespace claimed by two directories (siblings
// or cousins), an import chain beyond the nesting limit, an import whose directory does not exist - once with
// every map range in insertion order and once with one symbolically chosen map range iterating in another order:
// the error text must be identical.  (A loader that never ranges over a map satisfies this trivially: then the
// part only records that no map range was executed.)  Natively a particular order cannot be selected, so the
// native twin confirms a reported dependence by repeating the load until Go's own randomised order shows it.
//
// Under gosym readPackageInfo / fetchAndCachePackages are the in-memory package store of zz_verif_c18.go; natively
// the graph is written out as real package directories and the unmodified loader runs on them.

import "fmt"

var c12lScenarios = []string{"cycle-of-2", "cycle-of-3", "cycle-of-3-entered-from-outside", "cycle-of-4-with-collected-bystanders",
	"conflict-between-siblings", "conflict-between-cousins", "chain-beyond-nesting-limit", "import-directory-missing"}

func c12lInstall(scenario int) {
	edges := map[int][]int{}
	ns := map[int]string{}
	n := 0
	switch c12lScenarios[scenario] {
	case "cycle-of-2":
		n, edges[0], edges[1] = 2, []int{1}, []int{0}
	case "cycle-of-3":
		n, edges[0], edges[1], edges[2] = 3, []int{1}, []int{2}, []int{0}
	case "cycle-of-3-entered-from-outside":
		n, edges[0], edges[1], edges[2], edges[3] = 4, []int{1}, []int{2}, []int{3}, []int{1}
	case "cycle-of-4-with-collected-bystanders":
		// 4 and 5 are complete before the cycle 0 -> 1 -> 2 -> 3 -> 0 is closed
		n, edges[0], edges[1], edges[2], edges[3] = 6, []int{4, 1}, []int{5, 2}, []int{3}, []int{0}
	case "conflict-between-siblings":
		n, edges[0] = 4, []int{3, 1, 2}
		ns[2] = "Nb" // the namespace of package 1
	case "conflict-between-cousins":
		n, edges[0], edges[1], edges[2] = 5, []int{1, 2}, []int{3}, []int{4}
		ns[4] = "Nd" // the namespace of package 3
	case "chain-beyond-nesting-limit":
		n = MaxImportRecursionDepth + 3
		for i := 0; i+1 < n; i++ {
			edges[i] = []int{i + 1}
		}
	default:
		n, edges[0], edges[1], edges[2] = 4, []int{3, 1}, []int{2}, []int{9} // there is no package 9
	}
	verifPkgs = make([]verifPkg, n)
	for i := 0; i < n; i++ {
		verifPkgs[i].ns = fmt.Sprintf("N%c", 'a'+i)
		if s, ok := ns[i]; ok {
			verifPkgs[i].ns = s
		}
		verifPkgs[i].imports = edges[i]
	}
}

func c12lDiagnostics(scenario int, which int, permute bool) (text string, permuted, seen int) {
	c12lInstall(scenario)
	verifMaterialise()
	if permute {
		verifSetMapOrder(-2 - which)
	}
	_, err := LoadPackage(verifDir(0))
	if permute {
		permuted = verifMapRangesPermuted()
		seen = verifMapRangesSeen()
	}
	verifSetMapOrder(0)
	if err != nil {
		text = err.Error()
	}
	return
}

// VerifC12LoadDiagnostics(maxRanges): one map range of the loader (symbolic index below maxRanges, checked to cover
// every range executed) runs in a different order.
func VerifC12LoadDiagnostics(maxRanges int) {
	scenario := verifChoose("scenario", len(c12lScenarios))
	verifOut("scenario", c12lScenarios[scenario])
	ref, _, _ := c12lDiagnostics(scenario, 0, false)
	verifAssert("failing-load-is-rejected", ref != "")
	which := verifChoose("permuted-map-range", maxRanges)
	alt, permuted, seen := c12lDiagnostics(scenario, which, true)
	verifOut("map-ranges", seen)
	verifAssert("every-map-range-covered", seen <= maxRanges)
	if permuted == 0 {
		verifReach("c12-load-diagnostics-no-map-range-permuted")
		return
	}
	same := ref == alt
	sameInt := 0
	if same {
		sameInt = 1
	}
	symbolicSame := verifRecord("same-diagnostics-under-chosen-order", sameInt) == 1
	if verifNative() {
		same = true
		for i := 0; i < 64 && same && !symbolicSame; i++ {
			again, _, _ := c12lDiagnostics(scenario, 0, false)
			same = again == ref
		}
	}
	verifAssert("load-diagnostics-independent-of-map-iteration-order", same)
	verifReach("c12-load-diagnostics-end")
}
