package packaging

// C18: import-graph resolution on symbolic package graphs.
// Under gosym the two I/O seams readPackageInfo / fetchAndCachePackages are replaced by the
// verifRepl_ functions below (a symbolic in-memory package store); natively the same graph is
// materialised as real _package.yml files and the unmodified loader runs on them.

import (
	"fmt"
	"path/filepath"
	"strings"
)

type verifPkg struct {
	ns      string
	imports []int
	dir     string // set by harnesses living in other packages (their own scratch root); "" = verifPath("/pk/p<i>")
}

var verifPkgs []verifPkg

func verifDir(i int) string {
	if i < len(verifPkgs) && verifPkgs[i].dir != "" {
		return verifPkgs[i].dir
	}
	return verifPath(fmt.Sprintf("/pk/p%d", i))
}

// VerifC18SetStore installs the in-memory package store read by the seam replacements below on behalf of
// a harness in another package (internal/cmd: zz_verif_c18.go), which owns the symbolic choices, the
// scratch directory and the assertions.  dirs[i] is package i's directory, imports[i] its import list.
func VerifC18SetStore(dirs []string, ns []string, imports [][]int) {
	verifPkgs = make([]verifPkg, len(dirs))
	for i := range dirs {
		verifPkgs[i] = verifPkg{ns: ns[i], imports: imports[i], dir: dirs[i]}
	}
}

// Graph-theoretic specification of the installed store, for harnesses in other packages.
func VerifC18Reachable() []bool { return verifReachable() }
func VerifC18HasCycle() bool    { return verifHasCycle() }

// VerifReadPkgHook, when set by a harness (C20), supplies the result of the readPackageInfo seam.
var VerifReadPkgHook func(directory string) (*PackageInfo, error)

func verifRepl_readPackageInfo(directory string) (*PackageInfo, error) {
	if VerifReadPkgHook != nil {
		return VerifReadPkgHook(directory)
	}
	for i := range verifPkgs {
		if verifDir(i) == directory {
			info := &PackageInfo{FilePath: filepath.Join(directory, PackageFileName), Namespace: verifPkgs[i].ns}
			for _, j := range verifPkgs[i].imports {
				info.Imports = append(info.Imports, &Import{Url: verifDir(j)})
			}
			return info, info.validate()
		}
	}
	return nil, fmt.Errorf("package directory '%s' not found", directory)
}

func verifRepl_fetchAndCachePackages(pwd string, urls []string) ([]string, error) {
	return append([]string{}, urls...), nil
}

func verifMaterialise() {
	verifUseRepl("readPackageInfo", "fetchAndCachePackages")
	if !verifNative() {
		return
	}
	for i, p := range verifPkgs {
		var b strings.Builder
		fmt.Fprintf(&b, "namespace: %s\n", p.ns)
		if len(p.imports) > 0 {
			b.WriteString("imports:\n")
			for _, j := range p.imports {
				fmt.Fprintf(&b, "  - ../p%d\n", j)
			}
		}
		verifFsPut(fmt.Sprintf("/pk/p%d/_package.yml", i), b.String())
	}
}

// ---- graph-theoretic specification -----------------------------------------------------------

func verifReachable() []bool {
	seen := make([]bool, len(verifPkgs))
	var visit func(i int)
	visit = func(i int) {
		if seen[i] {
			return
		}
		seen[i] = true
		for _, j := range verifPkgs[i].imports {
			visit(j)
		}
	}
	visit(0)
	return seen
}

// verifHasCycle: is there a directory-level import cycle among packages reachable from the root?
func verifHasCycle() bool {
	n := len(verifPkgs)
	state := make([]int, n)
	var dfs func(i int) bool
	dfs = func(i int) bool {
		state[i] = 1
		for _, j := range verifPkgs[i].imports {
			if state[j] == 1 {
				return true
			}
			if state[j] == 0 && dfs(j) {
				return true
			}
		}
		state[i] = 2
		return false
	}
	return dfs(0)
}

// verifLongestChain: number of packages on the longest import path from the root (acyclic graphs).
func verifLongestChain(i int) int {
	best := 0
	for _, j := range verifPkgs[i].imports {
		if d := verifLongestChain(j); d > best {
			best = d
		}
	}
	return best + 1
}

func verifShortestDepth() []int {
	n := len(verifPkgs)
	d := make([]int, n)
	for i := range d {
		d[i] = -1
	}
	d[0] = 0
	q := []int{0}
	for len(q) > 0 {
		i := q[0]
		q = q[1:]
		for _, j := range verifPkgs[i].imports {
			if d[j] < 0 {
				d[j] = d[i] + 1
				q = append(q, j)
			}
		}
	}
	return d
}

// verifNamespace: a symbolic namespace name from a finite pool.  The solver decides which pool member it is
// before the graph is chosen, so that the (string-theory) namespace decisions sit at the root of the decision
// tree and are shared by all graphs instead of being re-decided below every graph.
func verifNamespace(label string, pool []string) string {
	s := verifOneOf(label, pool...)
	for _, lit := range pool {
		if s == lit {
			return lit
		}
	}
	verifAssume(false)
	return s
}

// verifPermute returns the k-th permutation (factorial number system) of sel.
func verifPermute(sel []int, k int) []int {
	rest := append([]int{}, sel...)
	var out []int
	for n := len(rest); n > 0; n-- {
		f := verifFactorial(n - 1)
		idx := k / f
		k %= f
		out = append(out, rest[idx])
		rest = append(rest[:idx], rest[idx+1:]...)
	}
	return out
}

func verifFactorial(n int) int {
	f := 1
	for m := 2; m <= n; m++ {
		f *= m
	}
	return f
}

const (
	verifDepthBound = 250     // call frames below the call site (the loader's own nesting limit is 10 packages)
	verifStepBound  = 1000000 // SSA instructions
)

// verifLoadAndCheck: the obligations shared by the graph families below, on the installed store.
// Termination is an obligation, not an engine budget: LoadPackage runs under verifBounded (a call-depth and
// instruction bound far above what a graph of <= 5 packages can need; natively a child process under a
// wall-clock limit), and running out of either bound fails `terminates-without-panic`.
func verifLoadAndCheck() {
	n := len(verifPkgs)
	verifMaterialise()
	var info *PackageInfo
	var err error
	var msg string
	var panicked bool
	completed := verifBounded(func() {
		msg, panicked = verifPanics(func() { info, err = LoadPackage(verifDir(0)) })
	}, verifDepthBound, verifStepBound)
	verifOut("terminates", completed)
	verifOut("panic", msg)
	verifAssert("terminates-without-panic", completed && !panicked)
	if !completed || panicked {
		return
	}

	reach := verifReachable()
	cyc := verifHasCycle()
	conflict := false
	for i := 0; i < n; i++ {
		for j := i + 1; j < n; j++ {
			if reach[i] && reach[j] && verifPkgs[i].ns == verifPkgs[j].ns {
				conflict = true
			}
		}
	}
	verifOut("cycle", cyc)
	verifOut("conflict", conflict)
	if cyc || conflict {
		verifAssert("cycle-or-conflict-rejected", err != nil)
		verifReach("c18-rejected")
		return
	}
	verifAssert("acyclic-accepted", err == nil)
	if err != nil {
		return
	}
	// every reachable package is collected exactly once and under its own namespace
	refs := info.GetAllReferencedPackages()
	count := 0
	for i := 1; i < n; i++ {
		if reach[i] {
			count++
		}
	}
	verifAssert("each-reachable-once", len(refs) == count)
	for a := 0; a < len(refs); a++ {
		for b := a + 1; b < len(refs); b++ {
			verifAssert("no-duplicates", refs[a] != refs[b] && refs[a].Namespace != refs[b].Namespace)
		}
	}
	// every import edge of every collected package is resolved to the package object of its target directory,
	// and a package reached along several paths is one object
	byDir := map[string]*PackageInfo{}
	var check func(p *PackageInfo, depth int)
	check = func(p *PackageInfo, depth int) {
		if depth > n {
			return
		}
		for _, imp := range p.Imports {
			verifAssert("import-resolved", imp.Package != nil && filepath.Base(imp.Package.PackageDir()) == filepath.Base(imp.Url))
			if imp.Package == nil {
				continue
			}
			if prev, ok := byDir[filepath.Base(imp.Url)]; ok {
				verifAssert("shared-package-loaded-once", prev == imp.Package)
			}
			byDir[filepath.Base(imp.Url)] = imp.Package
			check(imp.Package, depth+1)
		}
	}
	check(info, 0)
	verifReach("c18-accepted")
}

// VerifC18Graph: all import multigraphs over n packages: every import list of length <= maxOut over all
// packages (so every list order, repeated imports and self-imports), namespaces symbolic from a pool of n.
func VerifC18Graph(n int, maxOut int) {
	pool := []string{"Aa", "Bb", "Cc", "Dd"}[:n]
	verifPkgs = make([]verifPkg, n)
	for i := 0; i < n; i++ {
		verifPkgs[i].ns = verifNamespace(fmt.Sprintf("ns%d", i), pool)
	}
	for i := 0; i < n; i++ {
		k := verifChoose(fmt.Sprintf("nimports%d", i), maxOut+1)
		for c := 0; c < k; c++ {
			verifPkgs[i].imports = append(verifPkgs[i].imports, verifChoose(fmt.Sprintf("imp%d_%d", i, c), n))
		}
	}
	verifLoadAndCheck()
}

// VerifC18Dag: node i imports a symbolic subset of the later nodes in every list order (allOrders = 1) or in
// ascending / descending order (allOrders = 0, for the larger thorough-tier bound), plus optionally one
// arbitrary extra edge (which may close a cycle, repeat an import or be a self-import) listed first or last
// by its importer; the last package's namespace is symbolic (it may collide with any other).
func VerifC18Dag(n int, allOrders int) {
	verifPkgs = make([]verifPkg, n)
	names := make([]string, n)
	for i := 0; i < n; i++ {
		names[i] = fmt.Sprintf("N%c", 'a'+i)
	}
	nsLast := verifNamespace("ns-last", names)
	for i := 0; i < n; i++ {
		verifPkgs[i].ns = names[i]
		var sel []int
		for j := i + 1; j < n; j++ {
			if verifChoose(fmt.Sprintf("edge%d_%d", i, j), 2) == 1 {
				sel = append(sel, j)
			}
		}
		if len(sel) > 1 && allOrders == 1 {
			sel = verifPermute(sel, verifChoose(fmt.Sprintf("order%d", i), verifFactorial(len(sel))))
		} else if len(sel) > 1 && verifChoose(fmt.Sprintf("desc%d", i), 2) == 1 {
			for a, b := 0, len(sel)-1; a < b; a, b = a+1, b-1 {
				sel[a], sel[b] = sel[b], sel[a]
			}
		}
		verifPkgs[i].imports = sel
	}
	verifPkgs[n-1].ns = nsLast
	if verifChoose("extra-edge", 2) == 1 {
		a := verifChoose("extra-from", n)
		b := verifChoose("extra-to", n)
		at := 0 // listed first, or (when the importer has other imports) last
		if len(verifPkgs[a].imports) > 0 && verifChoose("extra-last", 2) == 1 {
			at = len(verifPkgs[a].imports)
		}
		imp := append([]int{}, verifPkgs[a].imports[:at]...)
		imp = append(imp, b)
		verifPkgs[a].imports = append(imp, verifPkgs[a].imports[at:]...)
	}
	verifLoadAndCheck()
}

// VerifC18Depth: a chain of k packages with the loader's real depth limit.
func VerifC18Depth(k int) {
	verifPkgs = make([]verifPkg, k)
	for i := 0; i < k; i++ {
		verifPkgs[i].ns = fmt.Sprintf("N%c", 'a'+i)
		if i+1 < k {
			verifPkgs[i].imports = []int{i + 1}
		}
	}
	// optionally a shortcut edge from the root to a symbolic position, listed before or after the long path
	if verifChoose("shortcut", 2) == 1 {
		j := 2 + verifChoose("shortcut-target", k-2)
		if verifChoose("shortcut-first", 2) == 1 {
			verifPkgs[0].imports = []int{j, 1}
		} else {
			verifPkgs[0].imports = []int{1, j}
		}
	}
	verifMaterialise()
	_, err := LoadPackage(verifDir(0))
	chain := verifLongestChain(0)
	verifOut("chain", chain)
	if chain > MaxImportRecursionDepth+1 {
		verifAssert("too-deep-rejected", err != nil)
	} else if chain <= MaxImportRecursionDepth {
		verifAssert("within-limit-accepted", err == nil)
	}
	verifReach("c18-depth-end")
}
