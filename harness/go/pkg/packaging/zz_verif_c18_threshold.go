package packaging

// C18: the nesting limit of the package loader is ONE threshold.
//
// "An import chain deeper than the tool's fixed nesting limit is reported as an error": the verdict of the
// real LoadPackage on a linear import chain p0 -> p1 -> ... -> pn is decided for a symbolic number n of nested
// imports around the real constant MaxImportRecursionDepth (n in [limit-2, limit+2]) and for two ways the
// chain can end:
//   ending 0  pn imports nothing (a leaf);
//   ending 1  pn imports a package S that is already loaded when pn is reached, because an earlier package
//             p_j of the chain (a symbolic position: the root, any package up to p_(limit-4), or the direct
//             parent of pn, which makes S the diamond-wise sibling of pn) lists S before p_(j+1).  S is not on
//             the chain, has no imports, and closes no cycle; re-using a loaded package adds no nesting.
// Obligations (relational, they do not mention where the threshold lies):
//   - accepted(n) implies accepted(n-1) for the same ending (so rejected(n) implies rejected(n+1)): together
//     with the range of n this is "exactly one threshold";
//   - accepted(n) is the same for both endings: whether the deepest package has imports of its own does not
//     move the limit.
// And, under the stated assumption about what the constant counts (see the registry entry): accepted(n) iff
// n < MaxImportRecursionDepth.
//
// Under gosym readPackageInfo / fetchAndCachePackages are the in-memory package store of zz_verif_c18.go;
// natively every chain is written out as real package directories and the unmodified loader runs on them.

import "fmt"

// verifC18tAccepted installs the chain with n nested imports and the given ending and runs the real loader.
func verifC18tAccepted(n int, ending int, siblingAt int) (accepted bool, panicMsg string) {
	k := n + 1
	if ending == 1 {
		k++
	}
	verifPkgs = make([]verifPkg, k)
	for i := 0; i < k; i++ {
		verifPkgs[i].ns = fmt.Sprintf("N%c", 'a'+i)
	}
	for i := 0; i < n; i++ {
		verifPkgs[i].imports = []int{i + 1}
	}
	if ending == 1 {
		s := n + 1
		verifPkgs[siblingAt].imports = []int{s, siblingAt + 1}
		verifPkgs[n].imports = []int{s}
	}
	verifMaterialise()
	var err error
	var info *PackageInfo
	msg, panicked := verifPanics(func() { info, err = LoadPackage(verifDir(0)) })
	if panicked {
		return false, "panic: " + msg
	}
	return err == nil && info != nil, ""
}

// VerifC18DepthThreshold(span): n ranges over [limit-span, limit+span].
func VerifC18DepthThreshold(span int) {
	limit := MaxImportRecursionDepth
	n := limit - span + verifChoose("nested-imports-minus-lowest", 2*span+1)
	if n < 2 {
		verifAssume(false)
		return
	}
	ending := verifChoose("last-package-has-imports", 2)
	siblingAt := 0
	if ending == 1 {
		// absolute positions 0 .. limit-span-2 exist in every chain of the range (also in the chain shortened by
		// one); the last choice is relative: the direct parent of the last package
		c := verifChoose("already-loaded-import-listed-by", limit-span)
		if c == limit-span-1 {
			siblingAt = -1
		} else {
			siblingAt = c
		}
	}
	at := func(n int) int {
		if siblingAt < 0 {
			return n - 1
		}
		return siblingAt
	}
	if limit-span-2 < 0 || at(n-1) > n-2 {
		verifAssume(false)
		return
	}

	accN, p1 := verifC18tAccepted(n, ending, at(n))
	accPrev, p2 := verifC18tAccepted(n-1, ending, at(n-1))
	accLeaf, p3 := accN, ""
	if ending == 1 {
		accLeaf, p3 = verifC18tAccepted(n, 0, 0)
	}
	verifOut("nested-imports", n)
	verifOut("ending", ending)
	verifOut("accepted", accN)
	verifOut("accepted-one-shorter", accPrev)
	verifAssert("loader-does-not-panic", p1 == "" && p2 == "" && p3 == "")

	verifAssert("accepted-chain-stays-accepted-one-import-shorter", !accN || accPrev)
	if ending == 1 {
		verifAssert("depth-verdict-independent-of-last-package-having-imports", accN == accLeaf)
	}
	// assumption: MaxImportRecursionDepth counts the packages on an import path, the root included
	if n < limit {
		verifAssert("nesting-below-limit-accepted", accN)
	} else {
		verifAssert("nesting-at-or-beyond-limit-rejected", !accN)
	}
	verifReach("c18-depth-threshold-end")
}
