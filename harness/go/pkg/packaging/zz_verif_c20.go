package packaging

// C20: the readPackageInfo seam for the watch-mode harness (internal/cmd/zz_verif_c20.go): the
// _package.yml text is read from the (virtual) file system at the moment of the call and its tokens are
// given the meaning the YAML decoder gives them for the three keys the harness writes.

import (
	"fmt"
	"os"
	"path/filepath"
)

func VerifC20ReadPackageInfo(directory string) (*PackageInfo, error) {
	packageDir, err := filepath.Abs(directory)
	if err != nil {
		return nil, err
	}
	if _, err := os.Stat(packageDir); os.IsNotExist(err) {
		// no such directory: there is no package to speak of (a directory without a manifest is one, below)
		return nil, fmt.Errorf("package directory '%s' not found", packageDir)
	}
	packageFilePath := filepath.Join(packageDir, PackageFileName)
	info := &PackageInfo{FilePath: packageFilePath}
	b, err := os.ReadFile(packageFilePath)
	if err != nil {
		return info, fmt.Errorf("a '%s' file is missing from the directory '%s'", PackageFileName, directory)
	}
	toks := verifTokens(string(b))
	for i, t := range toks {
		if i+1 >= len(toks) {
			break
		}
		switch t {
		case "namespace:":
			info.Namespace = toks[i+1]
		case "-":
			info.Imports = append(info.Imports, &Import{Url: toks[i+1]})
		case "outputDir:":
			info.Json = &JsonCodegenOptions{OutputDir: toks[i+1]}
		}
	}
	return info, info.validate()
}
