package packaging

// C11 scenario store shared by the stubs in cmd, dsl and the generators (gosym only).

// VerifModes: package directory -> "ok" | "parsebad" | "valbad"
var VerifModes = map[string]string{}

// VerifLoadResult is what verifRepl_LoadPackage returns (built by the harness).
var VerifLoadResult *PackageInfo

// VerifLoadHook, when set by a harness (C20), supplies the result of the LoadPackage seam.
var VerifLoadHook func(dir string) (*PackageInfo, error)

func verifRepl_LoadPackage(dir string) (*PackageInfo, error) {
	if VerifLoadHook != nil {
		return VerifLoadHook(dir)
	}
	verifEvent("load", dir)
	return VerifLoadResult, nil
}
