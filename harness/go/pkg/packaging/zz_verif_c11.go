package packaging

// C11 scenario store shared by the stubs in cmd, dsl and the generators (gosym only).

// VerifModes: package directory -> "ok" | "parsebad" | "valbad"
var VerifModes = map[string]string{}

// VerifLoadResult is what verifRepl_LoadPackage returns (built by the harness).
var VerifLoadResult *PackageInfo

func verifRepl_LoadPackage(dir string) (*PackageInfo, error) {
	verifEvent("load", dir)
	return VerifLoadResult, nil
}
