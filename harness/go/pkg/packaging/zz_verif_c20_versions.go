package packaging

// C20: readPackageInfo seam for the watch-mode scenario with predecessor versions
// (internal/cmd/zz_verif_c20_versions.go): the _package.yml text is read from the (virtual) file system at
// the moment of the call and its tokens are given the meaning the YAML decoder gives them for the keys the
// harness writes (namespace, versions, imports, cpp.sourcesOutputDir, json.outputDir).

import (
	"fmt"
	"os"
	"path/filepath"
	"strings"
)

func VerifC20vReadPackageInfo(directory string) (*PackageInfo, error) {
	packageDir, err := filepath.Abs(directory)
	if err != nil {
		return nil, err
	}
	if _, err := os.Stat(packageDir); os.IsNotExist(err) {
		// no such directory: there is no package to speak of (a directory without a manifest is one, below)
		return nil, fmt.Errorf("package directory '%s' not found", packageDir)
	}
	packageFilePath := filepath.Join(packageDir, PackageFileName)
	info := &PackageInfo{FilePath: packageFilePath}
	b, err := os.ReadFile(packageFilePath)
	if err != nil {
		return info, fmt.Errorf("a '%s' file is missing from the directory '%s'", PackageFileName, directory)
	}
	toks := verifTokens(string(b))
	section := ""
	for i := 0; i < len(toks); i++ {
		t := toks[i]
		switch t {
		case "versions:", "imports:", "cpp:", "json:":
			section = t
			continue
		}
		if i+1 >= len(toks) {
			break
		}
		switch {
		case t == "namespace:":
			info.Namespace = toks[i+1]
			i++
		case section == "versions:" && strings.HasSuffix(t, ":"):
			info.Versions = append(info.Versions, &Version{Label: strings.TrimSuffix(t, ":"), Url: toks[i+1]})
			i++
		case section == "imports:" && t == "-":
			info.Imports = append(info.Imports, &Import{Url: toks[i+1]})
			i++
		case section == "cpp:" && t == "sourcesOutputDir:":
			info.Cpp = &CppCodegenOptions{SourcesOutputDir: toks[i+1]}
			i++
		case section == "json:" && t == "outputDir:":
			info.Json = &JsonCodegenOptions{OutputDir: toks[i+1]}
			i++
		}
	}
	return info, info.validate()
}
