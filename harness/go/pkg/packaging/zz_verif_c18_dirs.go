package packaging

// C18 / C11: "a namespace claimed by two different directories is reported as an error" - for directories
// whose NAMES are related in every way in which a comparison of two package locations can go wrong.
//
// c18_graph / c18_dag decide the loader on all small import graphs with symbolic namespaces, but their package
// directories are always /pk/p0, /pk/p1, ...: a loader that identifies a package by something coarser than its
// directory (letter case folded, a common prefix / suffix, the last path element only) cannot be told from the
// real one there.  Here two packages of an import DAG over n packages (any two, in either role; the root, which
// is always read first, in the first role) live in a pair of directories drawn from c18dPairs, the namespace of one or two packages is
// symbolic (it may collide with the namespace of any other package or be its own), and every package imports a
// symbolic subset of the later packages in every list order, so the two directories are reached along any paths
// and in either order.  All directories are distinct, so the specification is purely graph-theoretic:
//   - two reachable packages declare the same namespace            => LoadPackage returns an error;
//   - otherwise (all reachable namespaces distinct; the graph is acyclic) => LoadPackage succeeds, every import
//     of every loaded package is resolved to the package read from ITS OWN directory, with its own namespace,
//     and every reachable package is listed exactly once (no directory silently stands in for another one).
//
// Under gosym readPackageInfo / fetchAndCachePackages are the in-memory package store of zz_verif_c18.go (keyed by
// directory); natively the graph is written out as real package directories (a case-sensitive file system) with
// relative import paths and the unmodified loader runs on them.

import (
	"fmt"
	"strings"
)

// directory names relative to the common parent /pk
var c18dPairs = [][2]string{
	{"units", "Units"},               // differ only in letter case
	{"units", "units2"},              // one is a proper prefix of the other
	{"units", "lib_units"},           // one is a proper suffix of the other
	{"va/units", "vb/units"},         // same last element under different parents
	{"Vendor/units", "vendor/units"}, // parents differ only in letter case
	{"units", "other"},               // unrelated
}

func c18dDir(name string) string { return verifPath("/pk/" + name) }

// c18dMaterialise (native only): the package store as real directories; imports are relative paths.
func c18dMaterialise(names []string) {
	verifUseRepl("readPackageInfo", "fetchAndCachePackages")
	if !verifNative() {
		return
	}
	for i, p := range verifPkgs {
		var b strings.Builder
		fmt.Fprintf(&b, "namespace: %s\n", p.ns)
		if len(p.imports) > 0 {
			b.WriteString("imports:\n")
			up := strings.Repeat("../", 1+strings.Count(names[i], "/"))
			for _, j := range p.imports {
				fmt.Fprintf(&b, "  - %s%s\n", up, names[j])
			}
		}
		verifFsPut("/pk/"+names[i]+"/_package.yml", b.String())
	}
}

// VerifC18ConflictDirs(n, nsFree, withRoot): n packages (0 = root); nsFree = 1: the namespace of the package in the
// second directory of the pair is symbolic, 2: of both packages of the pair; withRoot = 1: the root package may be the
// one in the first directory (a namespace shared with the root is always on the import chain, i.e. a cycle report).
func VerifC18ConflictDirs(n int, nsFree int, withRoot int) {
	// namespaces first: the string decisions sit at the root of the decision tree (see verifNamespace)
	nsNames := make([]string, n)
	for i := 0; i < n; i++ {
		nsNames[i] = fmt.Sprintf("N%c", 'a'+i)
	}
	nsSecond := verifNamespace("ns-of-package-in-second-directory", nsNames)
	nsFirst := ""
	if nsFree >= 2 {
		nsFirst = verifNamespace("ns-of-package-in-first-directory", nsNames)
	}

	pair := c18dPairs[verifChoose("directory-pair", len(c18dPairs))]
	// which two packages: any ordered pair of imported packages, or (withRoot) the root and an imported package (the
	// root is always the first to be read, so it takes the first directory)
	var roles [][2]int
	for a := 1 - withRoot; a < n; a++ {
		for b := 1; b < n; b++ {
			if a != b {
				roles = append(roles, [2]int{a, b})
			}
		}
	}
	role := roles[verifChoose("packages-in-the-two-directories", len(roles))]
	first, second := role[0], role[1]
	names := make([]string, n)
	verifPkgs = make([]verifPkg, n)
	for i := 0; i < n; i++ {
		names[i] = fmt.Sprintf("pk%d", i)
		verifPkgs[i].ns = nsNames[i]
	}
	names[first], names[second] = pair[0], pair[1]
	verifPkgs[second].ns = nsSecond
	if nsFirst != "" {
		verifPkgs[first].ns = nsFirst
	}
	for i := 0; i < n; i++ {
		verifPkgs[i].dir = c18dDir(names[i])
	}

	// import DAG: package i lists a symbolic subset of the later packages in a symbolic order (the root at least one)
	for i := 0; i < n; i++ {
		var sel []int
		for j := i + 1; j < n; j++ {
			if verifChoose(fmt.Sprintf("edge%d_%d", i, j), 2) == 1 {
				sel = append(sel, j)
			}
		}
		if len(sel) > 1 {
			sel = verifPermute(sel, verifChoose(fmt.Sprintf("order%d", i), verifFactorial(len(sel))))
		}
		verifPkgs[i].imports = sel
	}
	reach := verifReachable()
	if !reach[first] || !reach[second] {
		verifAssume(false) // the pair of directories plays no part in this graph
		return
	}

	c18dMaterialise(names)
	var info *PackageInfo
	var err error
	msg, panicked := verifPanics(func() { info, err = LoadPackage(verifDir(0)) })
	verifOut("panic", msg)
	verifAssert("loader-does-not-panic", !panicked)
	if panicked {
		return
	}

	conflict := false
	for i := 0; i < n; i++ {
		for j := i + 1; j < n; j++ {
			if reach[i] && reach[j] && verifPkgs[i].ns == verifPkgs[j].ns {
				conflict = true
			}
		}
	}
	verifOut("conflict", conflict)
	if conflict {
		verifAssert("namespace-claimed-by-two-directories-rejected", err != nil)
		verifReach("c18d-rejected")
		return
	}
	verifAssert("distinct-namespaces-in-distinct-directories-accepted", err == nil && info != nil)
	if err != nil || info == nil {
		return
	}

	// the loaded tree mirrors the store: every import edge leads to the package of its own directory
	var check func(i int, p *PackageInfo, depth int)
	check = func(i int, p *PackageInfo, depth int) {
		if depth > n {
			return
		}
		verifAssert("package-read-from-its-own-directory", p.PackageDir() == verifDir(i) && p.Namespace == verifPkgs[i].ns)
		verifAssert("import-list-preserved", len(p.Imports) == len(verifPkgs[i].imports))
		if len(p.Imports) != len(verifPkgs[i].imports) {
			return
		}
		for k, imp := range p.Imports {
			verifAssert("import-resolved", imp.Package != nil)
			if imp.Package != nil {
				check(verifPkgs[i].imports[k], imp.Package, depth+1)
			}
		}
	}
	check(0, info, 0)
	refs := info.GetAllReferencedPackages()
	count := 0
	for i := 1; i < n; i++ {
		if reach[i] {
			count++
		}
	}
	verifAssert("each-reachable-package-listed-once", len(refs) == count)
	for a := 0; a < len(refs); a++ {
		for b := a + 1; b < len(refs); b++ {
			verifAssert("each-reachable-package-listed-once", refs[a] != refs[b] && refs[a].PackageDir() != refs[b].PackageDir())
		}
	}
	verifReach("c18d-accepted")
}
