package types

import (
	"bytes"

	"github.com/microsoft/yardl/tooling/internal/formatting"
	"github.com/microsoft/yardl/tooling/pkg/dsl"
)

// VerifWriteUnionClass: the text of the MATLAB union class the real writeUnionClass emits for gt.
func VerifWriteUnionClass(className string, gt *dsl.GeneralizedType, ns string) string {
	b := bytes.Buffer{}
	w := formatting.NewIndentedWriter(&b, "  ")
	writeUnionClass(w, className, gt, ns)
	return b.String()
}
