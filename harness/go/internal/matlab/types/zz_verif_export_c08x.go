package types

import (
	"bytes"

	"github.com/microsoft/yardl/tooling/internal/formatting"
	"github.com/microsoft/yardl/tooling/pkg/dsl"
)

// VerifWriteComputedFieldExpression: the body the real writeComputedFieldExpression emits for a resolved expression.
func VerifWriteComputedFieldExpression(e dsl.Expression, contextNamespace string) string {
	b := bytes.Buffer{}
	w := formatting.NewIndentedWriter(&b, "  ")
	writeComputedFieldExpression(w, e, contextNamespace)
	return b.String()
}
