package binary

import "github.com/microsoft/yardl/tooling/pkg/dsl"

func VerifTypeSerializer(t dsl.Type, ctx string) string { return typeSerializer(t, ctx, nil) }
