package iocommon

import "embed"

// gosym: embedded static runtime files are not modelled; the generators' own output is.
func verifRepl_CopyEmbeddedStaticFiles(destinationDir string, symlink bool, embeddedFiles embed.FS) error {
	verifEvent("copy-static-files", destinationDir)
	return nil
}
