package protocols

import (
	"bytes"

	"github.com/microsoft/yardl/tooling/internal/formatting"
	"github.com/microsoft/yardl/tooling/pkg/dsl"
)

func VerifWriteDefinitions(ns *dsl.Namespace, st dsl.SymbolTable) string {
	b := bytes.Buffer{}
	w := formatting.NewIndentedWriter(&b, "  ")
	writeDefinitions(w, ns, st)
	return b.String()
}

func VerifWriteDeclarations(ns *dsl.Namespace) string {
	b := bytes.Buffer{}
	w := formatting.NewIndentedWriter(&b, "  ")
	writeDeclarations(w, ns)
	return b.String()
}
