package cpp

// C20 (gosym only): stand-in for the C++ generator in the watch-mode scenario with predecessor versions
// (internal/cmd/zz_verif_c20_versions.go).  The C++ backend is the only one whose output depends on the
// predecessor versions of a package (compatibility readers/writers and the previous schema of every changed
// protocol).  Under gosym the generator is replaced by a function that writes exactly that dependence: for each
// version label and protocol, the previous version's schema text computed by the real ValidateEvolution
// (ProtocolChange.PreviousSchema), or "unchanged".  Natively the real generator runs; the harness compares
// whole output trees, so the stand-in only has to depend on the predecessors in the same way.

import (
	"os"
	"path"
	"strings"

	"github.com/microsoft/yardl/tooling/internal/iocommon"
	"github.com/microsoft/yardl/tooling/pkg/dsl"
	"github.com/microsoft/yardl/tooling/pkg/packaging"
)

func verifRepl_Generate(env *dsl.Environment, options packaging.CppCodegenOptions) error {
	if err := os.MkdirAll(options.SourcesOutputDir, 0775); err != nil {
		return err
	}
	var b strings.Builder
	top := env.GetTopLevelNamespace()
	for _, label := range top.Versions {
		b.WriteString("version " + label + "\n")
		for _, p := range top.Protocols {
			b.WriteString("  protocol " + p.Name + ": ")
			if pc := p.Versions[label]; pc != nil {
				b.WriteString(pc.PreviousSchema)
			} else {
				b.WriteString("unchanged")
			}
			b.WriteString("\n")
		}
	}
	return iocommon.WriteFileIfNeeded(path.Join(options.SourcesOutputDir, "protocols.cc"), []byte(b.String()), 0644)
}
