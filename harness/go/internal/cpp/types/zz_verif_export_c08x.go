package types

import (
	"bytes"

	"github.com/microsoft/yardl/tooling/internal/formatting"
	"github.com/microsoft/yardl/tooling/pkg/dsl"
)

// VerifWriteComputedFieldExpression: the C++ text the real writeComputedFieldExpression emits for a resolved expression.
func VerifWriteComputedFieldExpression(e dsl.Expression) string {
	b := bytes.Buffer{}
	w := formatting.NewIndentedWriter(&b, "  ")
	writeComputedFieldExpression(w, e)
	return b.String()
}

// VerifWriteNamespaceMembers: the C++ type definitions (structs, enums, aliases) of one namespace as written into types.h.
func VerifWriteNamespaceMembers(ns *dsl.Namespace) string {
	b := bytes.Buffer{}
	w := formatting.NewIndentedWriter(&b, "  ")
	writeNamespaceMembers(w, ns)
	return b.String()
}
