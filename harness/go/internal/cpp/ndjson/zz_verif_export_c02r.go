package ndjson

import (
	"bytes"

	"github.com/microsoft/yardl/tooling/internal/formatting"
	"github.com/microsoft/yardl/tooling/pkg/dsl"
)

// VerifWriteRecordConverters: the to_json / from_json pair the NDJSON source file emits for one record definition.
func VerifWriteRecordConverters(t *dsl.RecordDefinition) string {
	b := bytes.Buffer{}
	w := formatting.NewIndentedWriter(&b, "  ")
	writeRecordConverters(w, t)
	return b.String()
}
