package ndjson

import (
	"bytes"

	"github.com/microsoft/yardl/tooling/internal/formatting"
	"github.com/microsoft/yardl/tooling/pkg/dsl"
)

func VerifWriteUnionConverters(u *dsl.GeneralizedType) string {
	b := bytes.Buffer{}
	w := formatting.NewIndentedWriter(&b, "  ")
	writeUnionConverters(w, u)
	return b.String()
}

// VerifWriteEnumConverters: what the NDJSON source file emits for one enum / flags definition:
// the symbol table followed by to_json / from_json.
func VerifWriteEnumConverters(t *dsl.EnumDefinition) string {
	b := bytes.Buffer{}
	w := formatting.NewIndentedWriter(&b, "  ")
	writeEnumValuesMap(w, t)
	if t.IsFlags {
		writeFlagsConverters(w, t)
	} else {
		writeEnumConverters(w, t)
	}
	return b.String()
}
