package ndjson

import (
	"bytes"

	"github.com/microsoft/yardl/tooling/internal/formatting"
	"github.com/microsoft/yardl/tooling/pkg/dsl"
)

func VerifWriteUnionConverters(u *dsl.GeneralizedType) string {
	b := bytes.Buffer{}
	w := formatting.NewIndentedWriter(&b, "  ")
	writeUnionConverters(w, u)
	return b.String()
}
