package binary

import "github.com/microsoft/yardl/tooling/pkg/dsl"

func VerifTypeRwFunction(t dsl.Type, write bool) string { return typeRwFunction(t, write) }
