package binary

import (
	"bytes"

	"github.com/microsoft/yardl/tooling/internal/formatting"
	"github.com/microsoft/yardl/tooling/pkg/dsl"
)

func VerifTypeRwFunction(t dsl.Type, write bool) string { return typeRwFunction(t, write) }

func VerifWriteSerializers(t dsl.TypeDefinition) string {
	b := bytes.Buffer{}
	w := formatting.NewIndentedWriter(&b, "  ")
	writeSerializers(w, t)
	return b.String()
}

func VerifWriteTypeConversion(tc dsl.TypeChange, src, dst string, write bool) string {
	b := bytes.Buffer{}
	w := formatting.NewIndentedWriter(&b, "  ")
	writeTypeConversion(w, tc, src, dst, write)
	return b.String()
}
