package binary

import (
	"github.com/microsoft/yardl/tooling/pkg/dsl"
	"github.com/microsoft/yardl/tooling/pkg/packaging"
)

// VerifWriteHeaderFile: binary/protocols.h (the generated reader / writer class definitions with their constructors)
// written into options.SourcesOutputDir.
func VerifWriteHeaderFile(env *dsl.Environment, options packaging.CppCodegenOptions) error {
	return writeHeaderFile(env, options)
}
