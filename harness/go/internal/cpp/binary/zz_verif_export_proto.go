package binary

import (
	"bytes"

	"github.com/microsoft/yardl/tooling/internal/formatting"
	"github.com/microsoft/yardl/tooling/pkg/dsl"
)

// VerifWriteProtocolMethods: the emitted definitions of every binary writer/reader method of p.
func VerifWriteProtocolMethods(p *dsl.ProtocolDefinition) string {
	b := bytes.Buffer{}
	w := formatting.NewIndentedWriter(&b, "  ")
	writeProtocolMethods(w, p)
	return b.String()
}

// VerifWriteNamespaceDefinitions: (compatibility) serializers and protocol methods of one namespace.
func VerifWriteNamespaceDefinitions(ns *dsl.Namespace) string {
	b := bytes.Buffer{}
	w := formatting.NewIndentedWriter(&b, "  ")
	writeNamespaceDefinitions(w, ns)
	return b.String()
}

// VerifWriteStepSwitch: writeProtocolStep / writeEndStream on an explicit label -> change map.
func VerifWriteStepSwitch(step *dsl.ProtocolStep, changes map[string]dsl.TypeChange, isPlural, write, end bool) string {
	b := bytes.Buffer{}
	w := formatting.NewIndentedWriter(&b, "  ")
	if end {
		writeEndStream(w, changes)
	} else {
		writeProtocolStep(w, step, changes, isPlural, write)
	}
	return b.String()
}
