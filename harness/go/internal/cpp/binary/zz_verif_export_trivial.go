package binary

import (
	"bytes"

	"github.com/microsoft/yardl/tooling/internal/formatting"
	"github.com/microsoft/yardl/tooling/pkg/dsl"
)

// VerifWriteIsTriviallySerializableSpecialization: the emitted IsTriviallySerializable<T> specialization of one definition
// (the compile-time guard of the memcpy fast path of the C++ binary serializers).
func VerifWriteIsTriviallySerializableSpecialization(t dsl.TypeDefinition) string {
	b := bytes.Buffer{}
	w := formatting.NewIndentedWriter(&b, "  ")
	writeIsTriviallySerializableSpecialization(w, t)
	return b.String()
}

// VerifWriteIsTriviallySerializableSpecializations: the whole block for an environment.
func VerifWriteIsTriviallySerializableSpecializations(env *dsl.Environment) string {
	b := bytes.Buffer{}
	w := formatting.NewIndentedWriter(&b, "  ")
	writeIsTriviallySerializableSpecializations(w, env)
	return b.String()
}
