package cmd

// C20: watch mode converges to the one-shot output for the final package contents.
//
// The real dedupLoop / generateInWatchMode / generateImpl / validatePackage / outputJson /
// WriteFileIfNeeded run under gosym's goroutine scheduler: the debounce timer, the regenerations it
// starts and the editor (this harness, playing the file-system notifier) are separate goroutines whose
// interleaving at every channel / timer / mutex / file-system operation is a decision of the path
// (bounded number of preemptions).  Time is abstract: an armed timer may fire at any later point.
// Seams: LoadPackage and ParsePackageContents are replaced by functions that read the same files of the
// virtual file system (so a regeneration sees whatever is on disk when it gets there);
// updatePackageInfoFromArgs is a no-op (koanf is opaque).  Natively everything is real, the watcher is a
// real fsnotify watcher on a scratch directory, and the interleaving is whatever the Go runtime and the
// sizes of the models produce (a slow regeneration is realised by a bulky model).

import (
	"errors"
	"fmt"
	"os"
	"path/filepath"
	"strings"
	"time"

	"github.com/fsnotify/fsnotify"
	"github.com/microsoft/yardl/tooling/pkg/dsl"
	"github.com/microsoft/yardl/tooling/pkg/packaging"
)

// model file contents the editor can save: a record whose vector field has a symbolic 64-bit length
// (so the generated output is a function of a solver-visible value), or an invalid model
func c20Valid(n uint64) string {
	return fmt.Sprintf("R: !record\n  fields:\n    a: int*%d\n", n)
}

const c20Bad = "R: !record\n  fields:\n    a: NoSuchType\n"

// bulk makes a content slow to regenerate natively (hundreds of unrelated records); under gosym the
// duration of a regeneration is abstract and the bulk is never added.
func c20Bulk(content string, n int) string {
	var b strings.Builder
	b.WriteString(content)
	for i := 0; i < n; i++ {
		fmt.Fprintf(&b, "Bulk%d: !record\n  fields:\n    f0: int\n    f1: string\n    f2: double*\n    f3: int?\n", i)
	}
	return b.String()
}

// c20Namespace is what the ParsePackageContents seam returns for the text of model.yml: the tokens of
// the text are read back (the vector length stays the symbolic integer that was written).
func c20Namespace(content string, ns string) (*dsl.Namespace, error) {
	toks := verifTokens(content)
	meta := func(line int) dsl.NodeMeta { return dsl.NodeMeta{File: "model.yml", Line: line, Column: 1} }
	var ft dsl.Type
	for i, t := range toks {
		if t == "a:" && i+1 < len(toks) {
			st := &dsl.SimpleType{NodeMeta: meta(3), Name: toks[i+1]}
			ft = st
			if i+3 < len(toks) && toks[i+2] == "*" {
				n, ok := verifAtoi(toks[i+3])
				if !ok {
					return nil, errors.New("unparseable vector length")
				}
				ft = &dsl.GeneralizedType{NodeMeta: meta(3), Cases: dsl.TypeCases{&dsl.TypeCase{NodeMeta: meta(3), Type: st}},
					Dimensionality: &dsl.Vector{NodeMeta: meta(3), Length: &n}}
			}
			break
		}
	}
	if ft == nil {
		return nil, errors.New("unparseable model file")
	}
	rec := &dsl.RecordDefinition{DefinitionMeta: &dsl.DefinitionMeta{NodeMeta: meta(1), Name: "R", Namespace: ns},
		Fields: dsl.Fields{&dsl.Field{NodeMeta: meta(3), Name: "a", Type: ft}}}
	return &dsl.Namespace{Name: ns, TypeDefinitions: dsl.TypeDefinitions{rec}}, nil
}

func c20Setup(root string) {
	verifFsPut("/pk/main/_package.yml", "namespace: Main\njson:\n  outputDir: ../out/json\n")
	verifFsPut("/pk/main/model.yml", c20Valid(7))
	verifFsPut("/pk/out/json/.keep", "x")
	packaging.VerifLoadHook = func(dir string) (*packaging.PackageInfo, error) {
		verifYield("load-package")
		if _, err := os.ReadFile(filepath.Join(dir, packaging.PackageFileName)); err != nil {
			return nil, err
		}
		return &packaging.PackageInfo{FilePath: filepath.Join(dir, packaging.PackageFileName), Namespace: "Main",
			Json: &packaging.JsonCodegenOptions{OutputDir: filepath.Join(root, "out/json")}}, nil
	}
	dsl.VerifParseHook = func(pkgInfo *packaging.PackageInfo) (*dsl.Namespace, error) {
		b, err := os.ReadFile(filepath.Join(pkgInfo.PackageDir(), "model.yml"))
		if err != nil {
			return nil, err
		}
		return c20Namespace(string(b), pkgInfo.Namespace)
	}
}

// VerifC20(nsaves, impatient, bound): the editor saves nsaves times (each time one of the contents,
// a solver/harness choice); impatient = 0: it waits for the watcher to go idle between saves (the
// sequential behaviour), 1: it does not (all interleavings within `bound` preemptions).
func VerifC20(nsaves, impatient, bound int) {
	verifUseRepl("LoadPackage", "ParsePackageContents", "updatePackageInfoFromArgs")
	verifSchedBound(bound)
	root := verifPath("/pk")
	c20Setup(root)
	os.Chdir(filepath.Join(root, "main"))

	w, werr := fsnotify.NewWatcher()
	verifAssert("watcher-created", werr == nil)
	if werr != nil {
		return
	}
	completed := make(chan error, 1)
	w.Add(".")
	go dedupLoop(map[string]string{}, w, completed)
	c20NativeWait(root, 300*time.Millisecond)
	verifQuiesce()
	first, ok := verifFsGet("/pk/out/json/model.json")
	verifAssert("initial-generation-wrote-output", ok && first != "")

	for i := 0; i < nsaves; i++ {
		content := c20Bad
		if verifChoose(fmt.Sprintf("save%d-valid", i), 2) == 1 {
			content = c20Valid(verifUint64(fmt.Sprintf("save%d-length", i)))
		}
		if verifNative() && impatient == 1 && i < nsaves-1 {
			content = c20Bulk(content, 1500) // a slow regeneration (natively only)
		}
		verifFsPut("/pk/main/model.yml", content)
		c20Notify(w, "/pk/main/model.yml")
		if impatient == 0 {
			c20NativeWait(root, 300*time.Millisecond)
			verifQuiesce()
		} else if verifNative() {
			time.Sleep(60 * time.Millisecond) // debounce (5 ms) has fired, the slow regeneration is in flight
		}
	}
	c20NativeWait(root, 2500*time.Millisecond)
	verifQuiesce()

	crashes := verifCrashes()
	verifAssert("watcher-keeps-running", len(crashes) == 0 && len(completed) == 0)
	got, _ := verifFsGet("/pk/out/json/model.json")

	// reference: the one-shot command on the final contents, run now that nothing else is running
	_, _, err := generateImpl(map[string]string{})
	want, _ := verifFsGet("/pk/out/json/model.json")
	verifOut("one-shot-accepts-final-contents", err == nil)
	if err != nil {
		verifAssert("invalid-final-contents-leave-output-untouched", got == want)
	} else {
		verifAssert("converged-to-one-shot-output", got == want)
	}
	c20NativeStop(w)
	verifReach("c20-end")
}

// c20NativeStop (native only): end the watch loop of this case, so that it cannot react to the removal of
// the scratch directory and change the process working directory under the next replay case.
func c20NativeStop(w *fsnotify.Watcher) {
	if verifNative() {
		w.Close()
		time.Sleep(100 * time.Millisecond)
	}
}

// c20NativeWait (native only): wait until the output file has been stable for `quiet`.
func c20NativeWait(root string, quiet time.Duration) {
	if !verifNative() {
		return
	}
	VerifQuiesceFn = func() {}
	p := filepath.Join(root, "out/json/model.json")
	lastChange := time.Now()
	var lastMod time.Time
	var lastSize int64 = -1
	deadline := time.Now().Add(60 * time.Second)
	for time.Now().Before(deadline) {
		if st, err := os.Stat(p); err == nil {
			if !st.ModTime().Equal(lastMod) || st.Size() != lastSize {
				lastMod, lastSize, lastChange = st.ModTime(), st.Size(), time.Now()
			}
		}
		if time.Since(lastChange) >= quiet {
			return
		}
		time.Sleep(20 * time.Millisecond)
	}
}

// c20Notify plays the file-system notifier for one saved file: fsnotify delivers an event only if the
// file's directory is being watched.  Natively the real watcher does this by itself.
func c20Notify(w *fsnotify.Watcher, path string) {
	if verifNative() {
		return
	}
	real := verifPath(path)
	for _, d := range w.WatchList() {
		if d == filepath.Dir(real) {
			w.Events <- fsnotify.Event{Name: real, Op: fsnotify.Write}
			return
		}
	}
}

// VerifC20Import(impatient, bound): watch mode over a package that imports one or two other packages,
// with the real LoadPackage / collectPackages / fetchAndCachePackages (process working directory
// juggling) under the scheduler; only the YAML decoding of _package.yml (readPackageInfo) and of model
// files is behind seams.  The editor breaks dep's manifest (an import URL that cannot be fetched),
// repairs it, changes the model of the root package and finally the model of the imported package.
// Obligations: the watcher survives the invalid state, the process working directory is the package
// directory again whenever the watcher is idle, and the final output equals the one-shot output.
func VerifC20Import(impatient, bound int) {
	verifUseRepl("readPackageInfo", "ParsePackageContents", "updatePackageInfoFromArgs")
	verifSchedBound(bound)
	root := verifPath("/pk")
	mainDir := filepath.Join(root, "main")
	nimports := 1 + verifChoose("imports", 2)
	manifest := "namespace: Main\nimports:\n  - ../dep\n"
	if nimports == 2 {
		manifest += "  - ../lib\n"
	}
	verifFsPut("/pk/main/_package.yml", manifest+"json:\n  outputDir: ../out/json\n")
	verifFsPut("/pk/main/model.yml", c20Valid(7))
	depGood := "namespace: Dep\n"
	depBad := "namespace: Dep\nimports:\n  - " + verifOneOf("bad-import-url", "ftp://nowhere/pkg", "../missing") + "\n"
	verifFsPut("/pk/dep/_package.yml", depGood)
	verifFsPut("/pk/dep/model.yml", c20Valid(3))
	verifFsPut("/pk/lib/_package.yml", "namespace: Lib\n")
	verifFsPut("/pk/lib/model.yml", c20Valid(5))
	verifFsPut("/pk/out/json/.keep", "x")
	packaging.VerifReadPkgHook = packaging.VerifC20ReadPackageInfo
	dsl.VerifParseHook = func(pkgInfo *packaging.PackageInfo) (*dsl.Namespace, error) {
		b, err := os.ReadFile(filepath.Join(pkgInfo.PackageDir(), "model.yml"))
		if err != nil {
			return nil, err
		}
		return c20Namespace(string(b), pkgInfo.Namespace)
	}
	os.Chdir(mainDir)

	w, werr := fsnotify.NewWatcher()
	verifAssert("watcher-created", werr == nil)
	if werr != nil {
		return
	}
	completed := make(chan error, 1)
	w.Add(".")
	go dedupLoop(map[string]string{}, w, completed)
	c20NativeWait(root, 300*time.Millisecond)
	verifQuiesce()
	first, ok := verifFsGet("/pk/out/json/model.json")
	verifAssert("initial-generation-wrote-output", ok && first != "")
	verifAssert("cwd-is-package-dir-when-idle", verifCwd() == mainDir)

	save := func(path, content string, wait bool) {
		verifFsPut(path, content)
		c20Notify(w, path)
		if wait {
			c20NativeWait(root, 300*time.Millisecond)
			verifQuiesce()
		} else if verifNative() {
			time.Sleep(60 * time.Millisecond)
		}
	}
	// 1. the imported package becomes invalid (its own import cannot be resolved)
	save("/pk/dep/_package.yml", depBad, impatient == 0)
	if impatient == 0 {
		verifAssert("cwd-is-package-dir-when-idle", verifCwd() == mainDir)
	}
	// 2. it is repaired, 3. the model of the root package changes, 4. the model of the imported package changes
	save("/pk/dep/_package.yml", depGood, impatient == 0)
	save("/pk/main/model.yml", c20Valid(verifUint64("final-length")), impatient == 0)
	save("/pk/dep/model.yml", c20Valid(verifUint64("final-dep-length")), impatient == 0)
	c20NativeWait(root, 1500*time.Millisecond)
	verifQuiesce()

	crashes := verifCrashes()
	verifAssert("watcher-keeps-running", len(crashes) == 0 && len(completed) == 0)
	verifAssert("cwd-is-package-dir-when-idle", verifCwd() == mainDir)
	got, _ := verifFsGet("/pk/out/json/model.json")
	os.Chdir(mainDir)
	_, _, err := generateImpl(map[string]string{})
	want, _ := verifFsGet("/pk/out/json/model.json")
	verifOut("one-shot-accepts-final-contents", err == nil)
	if err != nil {
		verifAssert("invalid-final-contents-leave-output-untouched", got == want)
	} else {
		verifAssert("converged-to-one-shot-output", got == want)
	}
	c20NativeStop(w)
	verifReach("c20-import-end")
}
