package cmd

// C20: the ways a content change reaches the watcher, and imports that point to a directory that does not exist.
//
// (1) VerifC20EventKinds.  A package's content changes through whatever file operation the editor, file manager
// or build tool performs, and each operation reaches a directory watcher as a different kind of event:
//     in-place save (open / truncate / write)                         Write (Create + Write for a new file)
//     safe save: written elsewhere, then rename(2)d into the package  Create
//     model file deleted                                              Remove   (the model loses its definitions)
//     model file moved out of the package                             Rename   (ditto)
// Every save of the harness is one of these operations (a symbolic choice) on one of two model files with symbolic
// content; the harness plays the notifier and delivers the event kind the real inotify back end produces for the
// operation, natively it performs the real operation on a real directory under a real fsnotify watcher.
// Obligation: `converged-to-one-shot-output` (and `watcher-keeps-running`) for every sequence of operations.
//
// (2) VerifC20MissingImportDir.  An import path is misspelt (it names a directory that does not exist) - in the
// root manifest or in the manifest of an imported package, at start-up or through a save - and is later
// corrected; then a model of a symbolic package of the closure is edited.  Here the REAL readPackageInfo runs
// under gosym (the manifests are yaml documents on the virtual file system), so what the loader returns for an
// import that cannot be read is the real thing, and the watcher stub refuses to watch a directory that does not
// exist exactly like inotify does.  Obligations: `watcher-keeps-running` (checked while the import is broken and
// at the end), `cwd-is-package-dir-when-idle`, `converged-to-one-shot-output`.
//
// Real code under the scheduler: dedupLoop / generateInWatchMode / generateImpl / LoadPackage / collectPackages /
// fetchAndCachePackages / readPackageInfo (2) / validatePackage / outputJson / WriteFileIfNeeded.  Seams (gosym
// only): ParsePackageContents (a token reader of the same model files), updatePackageInfoFromArgs (koanf), in (1)
// also readPackageInfo (the token reader of zz_verif_c20.go).

import (
	"errors"
	"fmt"
	"os"
	"path/filepath"
	"strings"
	"time"

	"github.com/fsnotify/fsnotify"
	"github.com/microsoft/yardl/tooling/pkg/dsl"
	"github.com/microsoft/yardl/tooling/pkg/packaging"
	"gopkg.in/yaml.v3"
)

// ---- model files ------------------------------------------------------------------------------------------

// c20eModel: a model file defining one record <name> {a: int*<n>}.
func c20eModel(name string, n uint64) string {
	return fmt.Sprintf("%s: !record\n  fields:\n    a: int*%d\n", name, n)
}

func c20eBadModel(name string) string {
	return fmt.Sprintf("%s: !record\n  fields:\n    a: NoSuchType\n", name)
}

// c20eDefs reads one model file back: the record name is the first token, the field type follows "a:".
func c20eDefs(content string, file string, ns string) (dsl.TypeDefinitions, error) {
	toks := verifTokens(content)
	meta := func(line int) dsl.NodeMeta { return dsl.NodeMeta{File: file, Line: line, Column: 1} }
	if len(toks) == 0 || !strings.HasSuffix(toks[0], ":") {
		return nil, errors.New("unparseable model file")
	}
	name := strings.TrimSuffix(toks[0], ":")
	var ft dsl.Type
	for i, t := range toks {
		if t == "a:" && i+1 < len(toks) {
			st := &dsl.SimpleType{NodeMeta: meta(3), Name: toks[i+1]}
			ft = st
			if i+3 < len(toks) && toks[i+2] == "*" {
				n, ok := verifAtoi(toks[i+3])
				if !ok {
					return nil, errors.New("unparseable vector length")
				}
				ft = &dsl.GeneralizedType{NodeMeta: meta(3), Cases: dsl.TypeCases{&dsl.TypeCase{NodeMeta: meta(3), Type: st}},
					Dimensionality: &dsl.Vector{NodeMeta: meta(3), Length: &n}}
			}
			break
		}
	}
	if ft == nil {
		return nil, errors.New("unparseable model file")
	}
	rec := &dsl.RecordDefinition{DefinitionMeta: &dsl.DefinitionMeta{NodeMeta: meta(1), Name: name, Namespace: ns},
		Fields: dsl.Fields{&dsl.Field{NodeMeta: meta(3), Name: "a", Type: ft}}}
	return dsl.TypeDefinitions{rec}, nil
}

// c20eParseHook: the ParsePackageContents seam: the model files present in the package directory at the moment of
// the call, in the order ParseYamlInDir reads them (sorted by path); a package without model files is empty.
func c20eParseHook(pkgInfo *packaging.PackageInfo) (*dsl.Namespace, error) {
	out := &dsl.Namespace{Name: pkgInfo.Namespace}
	for _, f := range []string{"extra.yml", "model.yml"} {
		b, err := os.ReadFile(filepath.Join(pkgInfo.PackageDir(), f))
		if err != nil {
			continue
		}
		defs, err := c20eDefs(string(b), f, pkgInfo.Namespace)
		if err != nil {
			return nil, err
		}
		out.TypeDefinitions = append(out.TypeDefinitions, defs...)
	}
	return out, nil
}

// ---- file operations and the events they produce -------------------------------------------------------------

// c20eSend delivers one event for `path` if its directory is being watched (gosym only; natively the real
// watcher reports the real operation by itself).
func c20eSend(w *fsnotify.Watcher, path string, op fsnotify.Op) {
	if verifNative() {
		return
	}
	real := verifPath(path)
	for _, d := range w.WatchList() {
		if d == filepath.Dir(real) {
			w.Events <- fsnotify.Event{Name: real, Op: op}
			return
		}
	}
}

func c20eExists(path string) bool {
	_, ok := verifFsGet(path)
	return ok
}

// c20eWriteInPlace: open / truncate / write.
func c20eWriteInPlace(w *fsnotify.Watcher, path, content string) {
	existed := c20eExists(path)
	verifFsPut(path, content)
	if !existed {
		c20eSend(w, path, fsnotify.Create)
	}
	c20eSend(w, path, fsnotify.Write)
}

// c20eRenameIntoPlace: the new content is written outside the package and rename(2)d over / into it.
func c20eRenameIntoPlace(w *fsnotify.Watcher, path, content string, seq int) {
	if verifNative() {
		tmp := fmt.Sprintf("/pk/stash/incoming%d.tmp", seq)
		verifFsPut(tmp, content)
		os.Rename(verifPath(tmp), verifPath(path))
		return
	}
	verifFsPut(path, content)
	c20eSend(w, path, fsnotify.Create)
}

// c20eDelete: the file is unlinked.
func c20eDelete(w *fsnotify.Watcher, path string) {
	os.Remove(verifPath(path))
	c20eSend(w, path, fsnotify.Remove)
}

// c20eMoveAway: the file is rename(2)d to a directory outside the package.
func c20eMoveAway(w *fsnotify.Watcher, path string, seq int) {
	dst := fmt.Sprintf("/pk/stash/moved%d.yml", seq)
	if verifNative() {
		os.MkdirAll(filepath.Dir(verifPath(dst)), 0o755)
		os.Rename(verifPath(path), verifPath(dst))
		return
	}
	content, _ := verifFsGet(path)
	verifFsPut(dst, content)
	os.Remove(verifPath(path))
	c20eSend(w, path, fsnotify.Rename)
}

// VerifC20EventKinds(nsaves, bound): nsaves file operations, the editor waits for the watcher to go idle between
// them (bound = preemption bound of the scheduler).
func VerifC20EventKinds(nsaves, bound int) {
	verifUseRepl("readPackageInfo", "ParsePackageContents", "updatePackageInfoFromArgs")
	verifSchedBound(bound)
	root := verifPath("/pk")
	mainDir := filepath.Join(root, "main")
	verifFsPut("/pk/main/_package.yml", "namespace: Main\njson:\n  outputDir: ../out/json\n")
	verifFsPut("/pk/main/model.yml", c20eModel("R", 7))
	verifFsPut("/pk/main/extra.yml", c20eModel("X", 3))
	verifFsPut("/pk/out/json/.keep", "x")
	verifFsPut("/pk/stash/.keep", "x")
	packaging.VerifReadPkgHook = packaging.VerifC20ReadPackageInfo
	dsl.VerifParseHook = c20eParseHook
	os.Chdir(mainDir)

	w, werr := fsnotify.NewWatcher()
	verifAssert("watcher-created", werr == nil)
	if werr != nil {
		return
	}
	completed := make(chan error, 1)
	w.Add(".")
	go dedupLoop(map[string]string{}, w, completed)
	c20NativeWait(root, 300*time.Millisecond)
	verifQuiesce()
	first, ok := verifFsGet("/pk/out/json/model.json")
	verifAssert("initial-generation-wrote-output", ok && first != "")

	for i := 0; i < nsaves; i++ {
		op := verifChoose(fmt.Sprintf("save%d-operation", i), 4)
		switch op {
		case 0, 1:
			file, rec := "model.yml", "R"
			if verifChoose(fmt.Sprintf("save%d-file", i), 2) == 1 {
				file, rec = "extra.yml", "X"
			}
			content := c20eBadModel(rec)
			if verifChoose(fmt.Sprintf("save%d-valid", i), 2) == 1 {
				content = c20eModel(rec, verifUint64(fmt.Sprintf("save%d-length", i)))
			}
			if op == 0 {
				c20eWriteInPlace(w, "/pk/main/"+file, content)
			} else {
				c20eRenameIntoPlace(w, "/pk/main/"+file, content, i)
			}
		default:
			if !c20eExists("/pk/main/extra.yml") {
				verifAssume(false) // nothing left to delete or move
				return
			}
			if op == 2 {
				c20eDelete(w, "/pk/main/extra.yml")
			} else {
				c20eMoveAway(w, "/pk/main/extra.yml", i)
			}
		}
		c20NativeWait(root, 300*time.Millisecond)
		verifQuiesce()
	}
	c20NativeWait(root, 1500*time.Millisecond)
	verifQuiesce()

	crashes := verifCrashes()
	verifAssert("watcher-keeps-running", len(crashes) == 0 && len(completed) == 0)
	verifAssert("cwd-is-package-dir-when-idle", verifCwd() == mainDir)
	got, _ := verifFsGet("/pk/out/json/model.json")

	// reference: the one-shot command on the final contents, run now that nothing else is running
	os.Chdir(mainDir)
	_, _, err := generateImpl(map[string]string{})
	want, _ := verifFsGet("/pk/out/json/model.json")
	verifOut("one-shot-accepts-final-contents", err == nil)
	if err != nil {
		verifAssert("invalid-final-contents-leave-output-untouched", got == want)
	} else {
		verifAssert("converged-to-one-shot-output", got == want)
	}
	c20NativeStop(w)
	verifReach("c20-event-kinds-end")
}

// ---- manifests read by the real readPackageInfo --------------------------------------------------------------

type c20eManifest struct {
	ns      string
	imports []string
	jsonOut string
}

func (m c20eManifest) text() string {
	var b strings.Builder
	fmt.Fprintf(&b, "namespace: %s\n", m.ns)
	if len(m.imports) > 0 {
		b.WriteString("imports:\n")
		for _, u := range m.imports {
			fmt.Fprintf(&b, "  - %s\n", u)
		}
	}
	if m.jsonOut != "" {
		fmt.Fprintf(&b, "json:\n  outputDir: %s\n", m.jsonOut)
	}
	return b.String()
}

func c20eStr(v string, line int) *yaml.Node {
	return &yaml.Node{Kind: yaml.ScalarNode, Tag: "!!str", Value: v, Line: line, Column: 1}
}

// node: the document yaml.v3 parses text() into.
func (m c20eManifest) node() *yaml.Node {
	line := 1
	root := &yaml.Node{Kind: yaml.MappingNode, Tag: "!!map", Line: 1, Column: 1}
	root.Content = append(root.Content, c20eStr("namespace", line), c20eStr(m.ns, line))
	if len(m.imports) > 0 {
		line++
		seq := &yaml.Node{Kind: yaml.SequenceNode, Tag: "!!seq", Line: line + 1, Column: 3}
		root.Content = append(root.Content, c20eStr("imports", line), seq)
		for _, u := range m.imports {
			line++
			seq.Content = append(seq.Content, c20eStr(u, line))
		}
	}
	if m.jsonOut != "" {
		line++
		opts := &yaml.Node{Kind: yaml.MappingNode, Tag: "!!map", Line: line + 1, Column: 3}
		root.Content = append(root.Content, c20eStr("json", line), opts)
		line++
		opts.Content = append(opts.Content, c20eStr("outputDir", line), c20eStr(m.jsonOut, line))
	}
	return root
}

// c20ePutManifest (re)writes <dir>/_package.yml.
func c20ePutManifest(dir string, m c20eManifest) {
	p := "/pk/" + dir + "/_package.yml"
	if verifNative() {
		verifFsPut(p, m.text())
		return
	}
	os.Remove(verifPath(p)) // forget the document registered for the previous contents
	verifYamlDoc(p, m.node())
}

// VerifC20MissingImportDir(bound)
func VerifC20MissingImportDir(bound int) {
	verifUseRepl("ParsePackageContents", "updatePackageInfoFromArgs")
	verifSchedBound(bound)
	root := verifPath("/pk")
	mainDir := filepath.Join(root, "main")

	mainGood := c20eManifest{ns: "Main", imports: []string{"../dep"}, jsonOut: "../out/json"}
	depGood := c20eManifest{ns: "Dep", imports: []string{"../lib"}}
	libGood := c20eManifest{ns: "Lib"}
	// the misspelt path names a directory that does not exist: next to the packages, or below an existing package
	typo := verifOneOf("misspelt-import-path", "../nowhere", "../lib/nowhere")
	inDep := verifChoose("misspelt-import-in-imported-manifest", 2) == 1
	atStart := verifChoose("misspelt-at-start-up", 2) == 1
	mainBad, depBad := mainGood, depGood
	brokenDir, broken, repaired := "main", mainBad, mainGood
	if inDep {
		depBad.imports = []string{typo}
		brokenDir, broken, repaired = "dep", depBad, depGood
	} else {
		mainBad.imports = []string{typo}
		broken = mainBad
	}

	c20ePutManifest("main", mainGood)
	c20ePutManifest("dep", depGood)
	c20ePutManifest("lib", libGood)
	if atStart {
		c20ePutManifest(brokenDir, broken)
	}
	verifFsPut("/pk/main/model.yml", c20eModel("R", 7))
	verifFsPut("/pk/dep/model.yml", c20eModel("R", 3))
	verifFsPut("/pk/lib/model.yml", c20eModel("R", 5))
	verifFsPut("/pk/out/json/.keep", "x")
	dsl.VerifParseHook = c20eParseHook
	os.Chdir(mainDir)

	w, werr := fsnotify.NewWatcher()
	verifAssert("watcher-created", werr == nil)
	if werr != nil {
		return
	}
	completed := make(chan error, 1)
	w.Add(".")
	go dedupLoop(map[string]string{}, w, completed)
	idle := func(quiet time.Duration) {
		c20NativeWait(root, quiet)
		verifQuiesce()
	}
	idle(300 * time.Millisecond)
	_, wrote := verifFsGet("/pk/out/json/model.json")
	if atStart {
		verifAssert("nothing-generated-from-an-invalid-package", !wrote)
	} else {
		verifAssert("initial-generation-wrote-output", wrote)
		// the editor misspells the import
		c20ePutManifest(brokenDir, broken)
		c20eSend(w, "/pk/"+brokenDir+"/_package.yml", fsnotify.Write)
		idle(300 * time.Millisecond)
	}
	verifAssert("watcher-keeps-running", len(verifCrashes()) == 0 && len(completed) == 0)
	verifAssert("cwd-is-package-dir-when-idle", verifCwd() == mainDir)

	// the import is corrected
	c20ePutManifest(brokenDir, repaired)
	c20eSend(w, "/pk/"+brokenDir+"/_package.yml", fsnotify.Write)
	idle(300 * time.Millisecond)
	// and the model of some package of the closure is edited
	edited := []string{"main", "dep", "lib"}[verifChoose("final-edit-in", 3)]
	c20eWriteInPlace(w, "/pk/"+edited+"/model.yml", c20eModel("R", verifUint64("final-length")))
	idle(1500 * time.Millisecond)

	verifAssert("watcher-keeps-running", len(verifCrashes()) == 0 && len(completed) == 0)
	verifAssert("cwd-is-package-dir-when-idle", verifCwd() == mainDir)
	got, gotOk := verifFsGet("/pk/out/json/model.json")
	os.Chdir(mainDir)
	_, _, err := generateImpl(map[string]string{})
	want, _ := verifFsGet("/pk/out/json/model.json")
	verifAssert("one-shot-accepts-the-repaired-package", err == nil)
	verifAssert("converged-to-one-shot-output", gotOk && got == want)
	c20NativeStop(w)
	verifReach("c20-missing-import-dir-end")
}
