package cmd

// C20: a package of the closure that cannot be LOADED (its manifest is invalid, or names an import directory
// that does not exist) - an import, a predecessor version, or an import of a predecessor - is an invalid
// intermediate state like any other: once it is repaired, the output converges to the one-shot output.  The
// watcher must therefore watch the directory of a referenced package even when that package (or the root
// package because of it) fails to load, whether the reference was there at start-up or arrives with a save of
// the root manifest.
// Same layout, seams and machinery as VerifC20Versions (zz_verif_c20_versions.go).

import (
	"fmt"
	"os"
	"path/filepath"
	"time"

	"github.com/fsnotify/fsnotify"
)

var c20vbManifest = map[string]string{
	"imp":    "namespace: Imp\n",
	"v1":     "namespace: Main\nimports:\n  - ../impold\n",
	"impold": "namespace: Imp\n",
	"v2":     "namespace: Main\nimports:\n  - ../imp\n",
}

const c20vbMainNoVersions = "namespace: Main\nimports:\n  - ../imp\n" +
	"cpp:\n  sourcesOutputDir: ../out/cpp\n  generateHDF5: false\n  generateNDJson: false\n  generateCMakeLists: false\n" +
	"json:\n  outputDir: ../out/json\n"
const c20vbMainVersions = "namespace: Main\nversions:\n  v1: ../v1\n  v2: ../v2\nimports:\n  - ../imp\n" +
	"cpp:\n  sourcesOutputDir: ../out/cpp\n  generateHDF5: false\n  generateNDJson: false\n  generateCMakeLists: false\n" +
	"json:\n  outputDir: ../out/json\n"

// VerifC20VersionsBroken(bound): which package is broken (imp, v1, impold, v2), how (ill-cased namespace / an
// import of a directory that does not exist), and whether the root manifest lists its predecessor versions from
// the start or gains them through a save while the package is broken, are symbolic.
func VerifC20VersionsBroken(bound int) {
	verifUseRepl("readPackageInfo", "ParsePackageContents", "updatePackageInfoFromArgs", "Generate")
	verifSchedBound(bound)
	dirs := []string{"imp", "v1", "impold", "v2"}
	bd := dirs[verifChoose("broken-dir", len(dirs))]
	bad := ""
	if verifChoose("broken-kind", 2) == 0 {
		bad = "namespace: lowercase\n"
	} else {
		bad = c20vbManifest[bd] + "imports:\n  - ../nowhere\n"
		if bd == "v1" || bd == "v2" {
			bad = c20vbManifest[bd] + "  - ../nowhere\n"
		}
	}
	versionsFromStart := verifChoose("versions-listed-from-start", 2) == 1
	editDir := c20vDirs[verifChoose("final-edit-dir", len(c20vDirs))]
	editTag := verifUint64("final-edit-tag")

	root := verifPath("/pk")
	mainDir := filepath.Join(root, "main")
	c20vSetup()
	if !versionsFromStart {
		verifFsPut("/pk/main/_package.yml", c20vbMainNoVersions)
	}
	verifFsPut("/pk/"+bd+"/_package.yml", bad)
	os.Chdir(mainDir)

	w, werr := fsnotify.NewWatcher()
	verifAssert("watcher-created", werr == nil)
	if werr != nil {
		return
	}
	completed := make(chan error, 1)
	w.Add(".")
	go dedupLoop(map[string]string{}, w, completed)
	c20vNativeWait(root, 400*time.Millisecond)
	verifQuiesce()

	save := func(path, content string) {
		verifFsPut(path, content)
		c20Notify(w, path)
		c20vNativeWait(root, 400*time.Millisecond)
		verifQuiesce()
		verifAssert("cwd-is-package-dir-when-idle", verifCwd() == mainDir)
		verifAssert("watcher-keeps-running", len(verifCrashes()) == 0 && len(completed) == 0)
	}
	if !versionsFromStart {
		// the root manifest gains its versions block while one of the packages it now references is broken
		save("/pk/main/_package.yml", c20vbMainVersions)
	}
	// the editor repairs the broken manifest: this is the last edit that matters
	save("/pk/"+bd+"/_package.yml", c20vbManifest[bd])
	if verifChoose("edit-after-repair", 2) == 1 {
		save("/pk/"+editDir+"/model.yml", c20vModel(c20vIsMainNamespace(editDir), "long", editTag))
	}
	c20vNativeWait(root, 1500*time.Millisecond)
	verifQuiesce()

	crashes := verifCrashes()
	verifAssert("watcher-keeps-running", len(crashes) == 0 && len(completed) == 0)
	verifAssert("cwd-is-package-dir-when-idle", verifCwd() == mainDir)
	got := c20vOutput(root)
	_, wrote := verifFsGet("/pk/out/json/model.json")
	os.Chdir(mainDir)
	_, _, err := generateImpl(map[string]string{})
	want := c20vOutput(root)
	verifOut("one-shot-accepts-final-contents", err == nil)
	verifOut("broken", fmt.Sprintf("%s versions-from-start=%v", bd, versionsFromStart))
	if err != nil {
		verifAssert("invalid-final-contents-leave-output-untouched", got == want)
	} else {
		verifAssert("converged-to-one-shot-output", wrote && got == want)
	}
	c20NativeStop(w)
	verifReach("c20-versions-broken-end")
}
