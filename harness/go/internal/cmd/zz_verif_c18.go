package cmd

// C18: from the loaded packages down to the namespace graph the generators consume (the loader-level
// obligations on arbitrary multigraphs are in pkg/packaging/zz_verif_c18.go, a package with far cheaper
// per-path initialisation than this one).
//
// The real packaging.LoadPackage, the real parsePackageNamespaces / flattenNamespaces and the real
// dsl.Namespace.GetAllChildReferences run on every acyclic import graph within the bounds.  Under gosym the
// I/O seams readPackageInfo / fetchAndCachePackages (pkg/packaging/zz_verif_c18.go: an in-memory package store) and dsl.ParsePackageContents (an empty namespace
// carrying the package's name) are replaced; natively the same graph is written out as real package
// directories and everything is real.
//
// Termination is an obligation, not an engine budget: LoadPackage and parsePackageNamespaces run under
// verifBounded (a call-depth and instruction bound far above what a graph of <= 5 packages can need; natively
// a child process under a wall-clock limit), and running out of either bound fails `terminates-without-panic`.

import (
	"fmt"
	"strings"

	"github.com/microsoft/yardl/tooling/pkg/dsl"
	"github.com/microsoft/yardl/tooling/pkg/packaging"
)

type c18pkg struct {
	ns      string
	imports []int
}

const (
	c18DepthBound = 250     // call frames below the call site (the loader's own nesting limit is 10 packages)
	c18StepBound  = 1000000 // SSA instructions
)

func c18Dir(i int) string { return verifPath(fmt.Sprintf("/pk/p%d", i)) }

func c18Install(pkgs []c18pkg) {
	dirs := make([]string, len(pkgs))
	ns := make([]string, len(pkgs))
	imports := make([][]int, len(pkgs))
	for i, p := range pkgs {
		dirs[i], ns[i], imports[i] = c18Dir(i), p.ns, p.imports
	}
	packaging.VerifC18SetStore(dirs, ns, imports)
	verifUseRepl("readPackageInfo", "fetchAndCachePackages", "ParsePackageContents")
	if !verifNative() {
		return
	}
	for i, p := range pkgs {
		var b strings.Builder
		fmt.Fprintf(&b, "namespace: %s\n", p.ns)
		if len(p.imports) > 0 {
			b.WriteString("imports:\n")
			for _, j := range p.imports {
				fmt.Fprintf(&b, "  - ../p%d\n", j)
			}
		}
		verifFsPut(fmt.Sprintf("/pk/p%d/_package.yml", i), b.String())
	}
}

// c18CheckNamespaces: "its types are usable under their namespace from every package that imports it".
// The generators and the symbol table see imports only through Namespace.References, so after the real
// parsePackageNamespaces the namespace graph must mirror the package import graph:
//   - for every reachable package P and every import Q of P, ns(P).References contains ns(Q), and not more
//     often than P lists Q; every reference of ns(P) is the namespace of an import of P;
//   - a package has one namespace object however many importers it has;
//   - flattenNamespaces lists every reachable namespace exactly once, imports before importers, root last;
//   - GetAllChildReferences of every namespace lists every transitively imported namespace exactly once,
//     imports before importers (the order every generator emits per-namespace code in).
func c18CheckNamespaces(info *packaging.PackageInfo, pkgs []c18pkg, reach []bool) {
	n := len(pkgs)
	var top *dsl.Namespace
	var err error
	var panicked bool
	alreadyParsed := make(map[string]*dsl.Namespace)
	completed := verifBounded(func() {
		_, panicked = verifPanics(func() { top, err = parsePackageNamespaces(info, alreadyParsed) })
	}, c18DepthBound, c18StepBound)
	verifAssert("namespaces-terminate-without-panic", completed && !panicked)
	if !completed || panicked {
		return
	}
	verifAssert("namespaces-parsed", err == nil && top != nil)
	if err != nil || top == nil {
		return
	}

	nsOf := make([]*dsl.Namespace, n)
	var walk func(i int, ns *dsl.Namespace, depth int)
	walk = func(i int, ns *dsl.Namespace, depth int) {
		if depth > n {
			return
		}
		verifAssert("namespace-named-after-package", ns.Name == pkgs[i].ns)
		if nsOf[i] != nil {
			verifAssert("one-namespace-object-per-package", nsOf[i] == ns)
			return
		}
		nsOf[i] = ns
		for _, j := range pkgs[i].imports {
			listed := 0
			for _, j2 := range pkgs[i].imports {
				if j2 == j {
					listed++
				}
			}
			var found *dsl.Namespace
			have := 0
			for _, r := range ns.References {
				if r != nil && r.Name == pkgs[j].ns {
					have++
					found = r
				}
			}
			verifAssert("import-is-a-namespace-reference", have >= 1)
			verifAssert("reference-not-duplicated", have <= listed)
			if found != nil {
				walk(j, found, depth+1)
			}
		}
		for _, r := range ns.References {
			ok := false
			for _, j := range pkgs[i].imports {
				if r != nil && r.Name == pkgs[j].ns {
					ok = true
				}
			}
			verifAssert("reference-is-an-import", ok)
		}
	}
	walk(0, top, 0)
	for i := 0; i < n; i++ {
		if reach[i] && nsOf[i] == nil {
			// an import edge was lost above (already reported); nothing further can be said
			return
		}
	}

	// transitive closure of the specification graph
	closure := make([][]bool, n)
	for i := range closure {
		closure[i] = make([]bool, n)
	}
	var mark func(root, i int)
	mark = func(root, i int) {
		for _, j := range pkgs[i].imports {
			if !closure[root][j] {
				closure[root][j] = true
				mark(root, j)
			}
		}
	}
	for i := 0; i < n; i++ {
		mark(i, i)
	}
	indexOf := func(list []*dsl.Namespace, ns *dsl.Namespace) (int, int) {
		pos, cnt := -1, 0
		for k, x := range list {
			if x == ns {
				cnt++
				pos = k
			}
		}
		return pos, cnt
	}

	flat := flattenNamespaces(top, make(map[*dsl.Namespace]bool))
	want := 0
	for i := 0; i < n; i++ {
		if reach[i] {
			want++
			_, cnt := indexOf(flat, nsOf[i])
			verifAssert("flattened-each-namespace-once", cnt == 1)
		}
	}
	verifAssert("flattened-each-namespace-once", len(flat) == want)
	verifAssert("flattened-root-last", len(flat) > 0 && flat[len(flat)-1] == top)
	for i := 0; i < n; i++ {
		if !reach[i] {
			continue
		}
		pi, _ := indexOf(flat, nsOf[i])
		for _, j := range pkgs[i].imports {
			pj, _ := indexOf(flat, nsOf[j])
			verifAssert("flattened-imports-first", pj >= 0 && pj < pi)
		}
	}

	for i := 0; i < n; i++ {
		if !reach[i] {
			continue
		}
		children := nsOf[i].GetAllChildReferences()
		want := 0
		for j := 0; j < n; j++ {
			_, cnt := indexOf(children, nsOf[j])
			if closure[i][j] {
				want++
				verifAssert("child-references-each-once", cnt == 1)
			} else if nsOf[j] != nil {
				verifAssert("child-references-only-imports", cnt == 0)
			}
		}
		verifAssert("child-references-each-once", len(children) == want)
		for j := 0; j < n; j++ {
			if !closure[i][j] {
				continue
			}
			pj, _ := indexOf(children, nsOf[j])
			for _, k := range pkgs[j].imports {
				pk, _ := indexOf(children, nsOf[k])
				verifAssert("child-references-imports-first", pk >= 0 && pk < pj)
			}
		}
	}
	verifReach("c18-namespaces-checked")
}

// VerifC18Namespaces: every acyclic import graph over n packages with distinct namespaces (node i imports a
// symbolic subset of the later nodes, in every list order; optionally one package lists one of its imports a
// second time): the real LoadPackage accepts it, and the namespace graph built from the loaded packages
// mirrors the import graph (c18CheckNamespaces).
func VerifC18Namespaces(n int) {
	pkgs := make([]c18pkg, n)
	for i := 0; i < n; i++ {
		pkgs[i].ns = fmt.Sprintf("N%c", 'a'+i)
		var sel []int
		for j := i + 1; j < n; j++ {
			if verifChoose(fmt.Sprintf("edge%d_%d", i, j), 2) == 1 {
				sel = append(sel, j)
			}
		}
		if len(sel) > 1 {
			sel = c18Permute(sel, verifChoose(fmt.Sprintf("order%d", i), c18Factorial(len(sel))))
		}
		pkgs[i].imports = sel
	}
	if verifChoose("repeat", 2) == 1 {
		a := verifChoose("repeat-in", n)
		if len(pkgs[a].imports) > 0 {
			pkgs[a].imports = append(pkgs[a].imports, pkgs[a].imports[verifChoose("repeat-which", len(pkgs[a].imports))])
		}
	}
	c18Install(pkgs)
	var info *packaging.PackageInfo
	var err error
	var panicked bool
	completed := verifBounded(func() {
		_, panicked = verifPanics(func() { info, err = packaging.LoadPackage(c18Dir(0)) })
	}, c18DepthBound, c18StepBound)
	verifAssert("terminates-without-panic", completed && !panicked)
	if !completed || panicked {
		return
	}
	verifAssert("acyclic-accepted", err == nil && info != nil)
	if err != nil || info == nil {
		return
	}
	c18CheckNamespaces(info, pkgs, packaging.VerifC18Reachable())
}

// c18Permute returns the k-th permutation (factorial number system) of sel.
func c18Permute(sel []int, k int) []int {
	rest := append([]int{}, sel...)
	var out []int
	for n := len(rest); n > 0; n-- {
		f := c18Factorial(n - 1)
		idx := k / f
		k %= f
		out = append(out, rest[idx])
		rest = append(rest[:idx], rest[idx+1:]...)
	}
	return out
}

func c18Factorial(n int) int {
	f := 1
	for m := 2; m <= n; m++ {
		f *= m
	}
	return f
}
