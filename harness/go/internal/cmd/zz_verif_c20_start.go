package cmd

// C20, invalid state at start-up: the watcher is started (or regenerates) while an imported package / the
// root package is invalid; the editor then repairs it.  Nothing was generated successfully before, so the
// watcher must already be watching every directory whose repair can make the package valid.
// Same machinery as VerifC20Import (real dedupLoop / generateInWatchMode / generateImpl / LoadPackage under
// the scheduler; YAML decoding behind the same seams).

import (
	"os"
	"path/filepath"
	"time"

	"github.com/fsnotify/fsnotify"
	"github.com/microsoft/yardl/tooling/pkg/dsl"
	"github.com/microsoft/yardl/tooling/pkg/packaging"
)

// VerifC20InvalidStart(bound): which package is invalid at start-up (root model, imported model, imported
// manifest with an unresolvable import) and in which order the editor repairs / edits is symbolic.
func VerifC20InvalidStart(bound int) {
	verifUseRepl("readPackageInfo", "ParsePackageContents", "updatePackageInfoFromArgs")
	verifSchedBound(bound)
	root := verifPath("/pk")
	mainDir := filepath.Join(root, "main")
	verifFsPut("/pk/main/_package.yml", "namespace: Main\nimports:\n  - ../dep\njson:\n  outputDir: ../out/json\n")
	depGood := "namespace: Dep\n"
	depBadManifest := "namespace: Dep\nimports:\n  - ../missing\n"
	broken := verifChoose("invalid-at-start", 3) // 0: root model, 1: imported model, 2: imported manifest
	mainModel, depModel, depManifest := c20Valid(7), c20Valid(3), depGood
	switch broken {
	case 0:
		mainModel = c20Bad
	case 1:
		depModel = c20Bad
	default:
		depManifest = depBadManifest
	}
	verifFsPut("/pk/main/model.yml", mainModel)
	verifFsPut("/pk/dep/_package.yml", depManifest)
	verifFsPut("/pk/dep/model.yml", depModel)
	verifFsPut("/pk/out/json/.keep", "x")
	packaging.VerifReadPkgHook = packaging.VerifC20ReadPackageInfo
	dsl.VerifParseHook = func(pkgInfo *packaging.PackageInfo) (*dsl.Namespace, error) {
		b, err := os.ReadFile(filepath.Join(pkgInfo.PackageDir(), "model.yml"))
		if err != nil {
			return nil, err
		}
		return c20Namespace(string(b), pkgInfo.Namespace)
	}
	os.Chdir(mainDir)

	w, werr := fsnotify.NewWatcher()
	verifAssert("watcher-created", werr == nil)
	if werr != nil {
		return
	}
	completed := make(chan error, 1)
	w.Add(".")
	go dedupLoop(map[string]string{}, w, completed)
	c20NativeWait(root, 300*time.Millisecond)
	verifQuiesce()
	_, wrote := verifFsGet("/pk/out/json/model.json")
	verifAssert("nothing-generated-from-an-invalid-package", !wrote)

	save := func(path, content string) {
		verifFsPut(path, content)
		c20Notify(w, path)
		c20NativeWait(root, 300*time.Millisecond)
		verifQuiesce()
	}
	// the editor repairs the broken file; optionally it first touches an unrelated valid file
	if verifChoose("unrelated-edit-first", 2) == 1 {
		if broken == 0 {
			save("/pk/dep/model.yml", c20Valid(verifUint64("dep-length")))
		} else {
			save("/pk/main/model.yml", c20Valid(verifUint64("main-length")))
		}
	}
	switch broken {
	case 0:
		save("/pk/main/model.yml", c20Valid(verifUint64("repaired-length")))
	case 1:
		save("/pk/dep/model.yml", c20Valid(verifUint64("repaired-length")))
	default:
		save("/pk/dep/_package.yml", depGood)
	}
	c20NativeWait(root, 1500*time.Millisecond)
	verifQuiesce()

	crashes := verifCrashes()
	verifAssert("watcher-keeps-running", len(crashes) == 0 && len(completed) == 0)
	verifAssert("cwd-is-package-dir-when-idle", verifCwd() == mainDir)
	got, gotOk := verifFsGet("/pk/out/json/model.json")
	os.Chdir(mainDir)
	_, _, err := generateImpl(map[string]string{})
	want, _ := verifFsGet("/pk/out/json/model.json")
	verifAssert("one-shot-accepts-the-repaired-package", err == nil)
	verifAssert("converged-to-one-shot-output", gotOk && got == want)
	c20NativeStop(w)
	verifReach("c20-invalid-start-end")
}
