package cmd

// C11: generation is all-or-nothing with respect to validation.
// Scenario: main package importing impA (which imports dep) and impB, optionally one previous version;
// each package is ok / has a parse error / has a validation error (symbolic), evolution may fail,
// python and json outputs may be disabled.  Under gosym the leaf calls (LoadPackage,
// ParsePackageContents, Validate, ValidateEvolution, python.Generate, updatePackageInfoFromArgs) are
// stubs driven by the scenario; generateImpl, validatePackage, parseAndFlattenNamespaces,
// parsePackageNamespaces, flattenNamespaces, outputJson and WriteFileIfNeeded are the real code.
// Natively the same scenario is written out as real package directories and everything is real.

import (
	"fmt"
	"os"
	"path/filepath"
	"strings"

	"github.com/microsoft/yardl/tooling/pkg/dsl"
	"github.com/microsoft/yardl/tooling/pkg/packaging"
)

func verifRepl_updatePackageInfoFromArgs(packageInfo *packaging.PackageInfo, configArgs map[string]string) error {
	return nil
}

type c11pkg struct {
	dir, ns, mode string
	imports       []string
}

func c11Mode(label string) string {
	return verifOneOf(label, "ok", "parsebad", "valbad")
}

func c11Model(ns, mode string, main bool, evoBad bool, isOld bool) string {
	var b strings.Builder
	ft := "int"
	if mode == "valbad" {
		ft = "NoSuchType"
	}
	key := "fields"
	if mode == "parsebad" {
		key = "fieldz"
	}
	fmt.Fprintf(&b, "Rec%s: !record\n  %s:\n    a: %s\n", ns, key, ft)
	if main {
		st := "int"
		if evoBad && !isOld {
			st = "string*"
		}
		fmt.Fprintf(&b, "P: !protocol\n  sequence:\n    s: %s\n", st)
	}
	return b.String()
}

func VerifC11(withVersion int) {
	verifUseRepl("LoadPackage", "ParsePackageContents", "Validate", "ValidateEvolution", "Generate", "updatePackageInfoFromArgs")
	root := verifPath("/pk")
	pkgs := []*c11pkg{
		{dir: "main", ns: "Main", imports: []string{"impa", "impb"}},
		{dir: "impa", ns: "ImpA", imports: []string{"dep"}},
		{dir: "impb", ns: "ImpB"},
		{dir: "dep", ns: "Dep"},
	}
	if withVersion == 1 {
		pkgs = append(pkgs, &c11pkg{dir: "v0", ns: "Main"})
	}
	anyBad := false
	for _, p := range pkgs {
		p.mode = c11Mode("mode-" + p.dir)
		if p.mode != "ok" {
			anyBad = true
		}
	}
	evoBad := false
	if withVersion == 1 {
		evoBad = verifBool("evolution-bad")
	}
	pyDisabled := verifBool("python-disabled")
	jsonDisabled := verifBool("json-disabled")
	prePopulated := verifChoose("prepopulated", 2) == 1

	// ---- gosym: scenario for the stubs -------------------------------------------------------
	infos := map[string]*packaging.PackageInfo{}
	for _, p := range pkgs {
		d := filepath.Join(root, p.dir)
		packaging.VerifModes[d] = p.mode
		infos[p.dir] = &packaging.PackageInfo{FilePath: filepath.Join(d, packaging.PackageFileName), Namespace: p.ns}
	}
	for _, p := range pkgs {
		for _, imp := range p.imports {
			infos[p.dir].Imports = append(infos[p.dir].Imports, &packaging.Import{Url: "../" + imp, Package: infos[imp]})
		}
	}
	main := infos["main"]
	main.Python = &packaging.PythonCodegenOptions{OutputDir: filepath.Join(root, "out/py"), Disabled: pyDisabled}
	main.Json = &packaging.JsonCodegenOptions{OutputDir: filepath.Join(root, "out/json"), Disabled: jsonDisabled}
	if withVersion == 1 {
		main.Versions = packaging.Versions{&packaging.Version{Label: "v0", Url: "../v0", Package: infos["v0"]}}
	}
	packaging.VerifLoadResult = main
	dsl.VerifEvoBad = evoBad

	// ---- native: the same scenario as real files ---------------------------------------------
	if verifNative() {
		for _, p := range pkgs {
			var b strings.Builder
			fmt.Fprintf(&b, "namespace: %s\n", p.ns)
			if len(p.imports) > 0 {
				b.WriteString("imports:\n")
				for _, imp := range p.imports {
					fmt.Fprintf(&b, "  - ../%s\n", imp)
				}
			}
			if p.dir == "main" {
				if withVersion == 1 {
					b.WriteString("versions:\n  v0: ../v0\n")
				}
				fmt.Fprintf(&b, "python:\n  outputDir: ../out/py\n  disabled: %v\njson:\n  outputDir: ../out/json\n  disabled: %v\n", pyDisabled, jsonDisabled)
			}
			verifFsPut("/pk/"+p.dir+"/_package.yml", b.String())
			verifFsPut("/pk/"+p.dir+"/model.yml", c11Model(p.ns, p.mode, p.ns == "Main", evoBad, p.dir == "v0"))
		}
	}
	if prePopulated {
		verifFsPut("/pk/out/py/stale.py", "old")
		verifFsPut("/pk/out/json/model.json", "old")
	}
	os.Chdir(filepath.Join(root, "main"))

	var err error
	msg, panicked := verifPanics(func() { _, _, err = generateImpl(map[string]string{}) })
	verifOut("panic", msg)
	verifAssert("no-panic", !panicked)
	failed := err != nil
	verifOut("failed", failed)
	wrote := false
	for _, e := range verifEnvLog() {
		if strings.HasPrefix(e, "write:") && strings.Contains(e, "/out/") {
			wrote = true
		}
	}
	verifOut("wrote", wrote)
	if anyBad || evoBad {
		verifAssert("invalid-package-fails", failed)
		verifAssert("invalid-package-writes-nothing", !wrote)
	} else {
		verifAssert("valid-package-succeeds", !failed)
		if !pyDisabled || !jsonDisabled {
			verifAssert("valid-package-writes-output", wrote)
		}
	}
	if failed {
		verifAssert("failure-writes-nothing", !wrote)
	}
	verifReach("c11-end")
}
