package cmd

// C11 (several previous versions): generateImpl on a main package listing k = 2..3 previous versions.
// Each predecessor is, symbolically, identical / compatible / partially compatible / incompatible with the main
// model (reordered steps, removed step: documented breaking changes) / invalid / unparseable, and the version
// labels are symbolic strings out of a small set, so two of them may be equal.  The package is invalid iff ANY
// predecessor is incompatible or invalid (whatever its position in the list) or the labels are not pairwise
// distinct; an invalid package must make generateImpl fail and write nothing below the output directories.
//
// Under gosym only LoadPackage, ParsePackageContents (it returns the namespaces built here), python.Generate and
// updatePackageInfoFromArgs are seams; generateImpl, validatePackage, parse*Namespaces, the real dsl.Validate and
// the real dsl.ValidateEvolution, outputJson and WriteFileIfNeeded run unmodified.  Natively the same scenario is
// written out as package directories (_package.yml with a `versions:` map, model.yml) and everything is real.

import (
	"errors"
	"fmt"
	"os"
	"path/filepath"
	"strings"

	"github.com/microsoft/yardl/tooling/pkg/dsl"
	"github.com/microsoft/yardl/tooling/pkg/packaging"
)

type c11vModel struct {
	recFields [][2]string // Rec: field name, type
	steps     [][2]string // P: step name, type
	parseBad  bool
}

func c11vMain() *c11vModel {
	return &c11vModel{recFields: [][2]string{{"a", "int"}, {"note", "string?"}}, steps: [][2]string{{"s", "Rec"}, {"t", "string"}}}
}

var c11vModes = []string{"partial", "evobad-reordered-steps", "same", "compat", "evobad-removed-step", "valbad", "parsebad"}

// c11vPred: the model of a previous version, described by how the main model evolved from it.
func c11vPred(mode string) *c11vModel {
	m := c11vMain()
	switch mode {
	case "same":
	case "compat": // main added an optional field
		m.recFields = m.recFields[:1]
	case "partial": // main changed step t from int to string
		m.steps[1][1] = "int"
	case "evobad-reordered-steps":
		m.steps[0], m.steps[1] = m.steps[1], m.steps[0]
	case "evobad-removed-step": // main removed step u
		m.steps = append(m.steps, [2]string{"u", "int"})
	case "valbad":
		m.recFields[0][1] = "NoSuchType"
	default:
		m.parseBad = true
	}
	return m
}

func c11vBad(mode string) bool {
	return mode != "same" && mode != "compat" && mode != "partial"
}

func (m *c11vModel) yaml() string {
	var b strings.Builder
	key := "fields"
	if m.parseBad {
		key = "fieldz"
	}
	fmt.Fprintf(&b, "Rec: !record\n  %s:\n", key)
	for _, f := range m.recFields {
		fmt.Fprintf(&b, "    %s: %s\n", f[0], f[1])
	}
	b.WriteString("P: !protocol\n  sequence:\n")
	for _, s := range m.steps {
		fmt.Fprintf(&b, "    %s: %s\n", s[0], s[1])
	}
	return b.String()
}

func c11vType(s string, meta dsl.NodeMeta) dsl.Type {
	if strings.HasSuffix(s, "?") {
		inner := &dsl.SimpleType{NodeMeta: meta, Name: s[:len(s)-1]}
		return &dsl.GeneralizedType{NodeMeta: meta, Cases: dsl.TypeCases{&dsl.TypeCase{NodeMeta: meta}, &dsl.TypeCase{NodeMeta: meta, Type: inner}}}
	}
	return &dsl.SimpleType{NodeMeta: meta, Name: s}
}

// namespace: what ParsePackageContents yields for yaml() (the seam's result under gosym).
func (m *c11vModel) namespace(ns, file string) (*dsl.Namespace, error) {
	if m.parseBad {
		return nil, errors.New("parse error in " + file)
	}
	line := 0
	meta := func() dsl.NodeMeta { line++; return dsl.NodeMeta{File: file, Line: line, Column: 1} }
	rec := &dsl.RecordDefinition{DefinitionMeta: &dsl.DefinitionMeta{NodeMeta: meta(), Name: "Rec", Namespace: ns}}
	meta()
	for _, f := range m.recFields {
		mt := meta()
		rec.Fields = append(rec.Fields, &dsl.Field{NodeMeta: mt, Name: f[0], Type: c11vType(f[1], mt)})
	}
	p := &dsl.ProtocolDefinition{DefinitionMeta: &dsl.DefinitionMeta{NodeMeta: meta(), Name: "P", Namespace: ns}}
	meta()
	for _, s := range m.steps {
		mt := meta()
		p.Sequence = append(p.Sequence, &dsl.ProtocolStep{NodeMeta: mt, Name: s[0], Type: c11vType(s[1], mt)})
	}
	return &dsl.Namespace{Name: ns, TypeDefinitions: dsl.TypeDefinitions{rec}, Protocols: []*dsl.ProtocolDefinition{p}}, nil
}

var c11vLabels = []string{"v1", "v2", "v3"}

// VerifC11Versions(k, nLabels, nModes, outputs): k previous versions; labels out of the first nLabels of {v1, v2, v3};
// modes out of the first nModes of c11vModes; outputs = 1 makes the output configuration symbolic as well.
func VerifC11Versions(k int, nLabels int, nModes int, outputs int) {
	verifUseRepl("LoadPackage", "ParsePackageContents", "Generate", "updatePackageInfoFromArgs")
	root := verifPath("/pk")
	modes := make([]string, k)
	labels := make([]string, k)
	anyBad := false
	for i := 0; i < k; i++ {
		modes[i] = verifOneOf(fmt.Sprintf("mode-%d", i), c11vModes[:nModes]...)
		if c11vBad(modes[i]) {
			anyBad = true
		}
	}
	for i := 0; i < k; i++ {
		labels[i] = verifOneOf(fmt.Sprintf("label-%d", i), c11vLabels[:nLabels]...)
	}
	duplicate := false
	for i := 0; i < k; i++ {
		for j := 0; j < i; j++ {
			if labels[i] == labels[j] {
				duplicate = true
			}
		}
	}
	pyDisabled, jsonDisabled := false, false
	prePopulated := verifChoose("prepopulated", 2) == 1
	if outputs == 1 {
		pyDisabled = verifBool("python-disabled")
		jsonDisabled = verifBool("json-disabled")
	}
	verifOut("modes", strings.Join(modes, ","))
	verifOut("duplicate-labels", duplicate)

	// ---- gosym: what the seams return ---------------------------------------------------------
	models := map[string]*c11vModel{}
	mainDir := filepath.Join(root, "main")
	main := &packaging.PackageInfo{FilePath: filepath.Join(mainDir, packaging.PackageFileName), Namespace: "Main"}
	models[mainDir] = c11vMain()
	for i := 0; i < k; i++ {
		d := filepath.Join(root, fmt.Sprintf("prev%d", i))
		models[d] = c11vPred(modes[i])
		info := &packaging.PackageInfo{FilePath: filepath.Join(d, packaging.PackageFileName), Namespace: "Main"}
		main.Versions = append(main.Versions, &packaging.Version{Label: labels[i], Url: fmt.Sprintf("../prev%d", i), Package: info})
	}
	main.Python = &packaging.PythonCodegenOptions{OutputDir: filepath.Join(root, "out/py"), Disabled: pyDisabled}
	main.Json = &packaging.JsonCodegenOptions{OutputDir: filepath.Join(root, "out/json"), Disabled: jsonDisabled}
	packaging.VerifLoadResult = main
	dsl.VerifParseHook = func(p *packaging.PackageInfo) (*dsl.Namespace, error) {
		m := models[p.PackageDir()]
		if m == nil {
			return nil, errors.New("harness: unknown package " + p.PackageDir())
		}
		return m.namespace(p.Namespace, filepath.Join(p.PackageDir(), "model.yml"))
	}

	// ---- native: the same scenario as real files ----------------------------------------------
	if verifNative() {
		var b strings.Builder
		b.WriteString("namespace: Main\nversions:\n")
		for i := 0; i < k; i++ {
			fmt.Fprintf(&b, "  %s: ../prev%d\n", labels[i], i)
			verifFsPut(fmt.Sprintf("/pk/prev%d/_package.yml", i), "namespace: Main\n")
			verifFsPut(fmt.Sprintf("/pk/prev%d/model.yml", i), c11vPred(modes[i]).yaml())
		}
		fmt.Fprintf(&b, "python:\n  outputDir: ../out/py\n  disabled: %v\njson:\n  outputDir: ../out/json\n  disabled: %v\n", pyDisabled, jsonDisabled)
		verifFsPut("/pk/main/_package.yml", b.String())
		verifFsPut("/pk/main/model.yml", c11vMain().yaml())
	}
	if prePopulated {
		verifFsPut("/pk/out/py/stale.py", "old")
		verifFsPut("/pk/out/json/model.json", "old")
	}
	os.Chdir(mainDir)

	var err error
	msg, panicked := verifPanics(func() { _, _, err = generateImpl(map[string]string{}) })
	verifOut("panic", msg)
	verifAssert("no-panic", !panicked)
	failed := err != nil
	verifOut("failed", failed)
	wrote := false
	for _, e := range verifEnvLog() {
		if strings.HasPrefix(e, "write:") && strings.Contains(e, "/out/") {
			wrote = true
		}
	}
	verifOut("wrote", wrote)
	switch {
	case duplicate:
		verifAssert("duplicate-version-label-fails", failed)
		verifAssert("duplicate-version-label-writes-nothing", !wrote)
	case anyBad:
		verifAssert("incompatible-or-invalid-predecessor-fails", failed)
		verifAssert("incompatible-or-invalid-predecessor-writes-nothing", !wrote)
	default:
		verifAssert("valid-package-succeeds", !failed)
		if !pyDisabled || !jsonDisabled {
			verifAssert("valid-package-writes-output", wrote)
		}
	}
	if failed {
		verifAssert("failure-writes-nothing", !wrote)
	}
	verifReach("c11-versions-end")
}
