package cmd

// C11 / C09: "the whole package - including imported packages and previous versions - has validated" before
// anything is written, for every language rule and wherever the violation sits.
//
// The other C11 parts decide the control flow of generateImpl / validatePackage around stubbed (or one-rule)
// validation results; the C09 parts decide the rules of dsl.Validate on hand-built namespace lists.  Neither
// runs the REAL pipeline on a package tree, so a validation pass that only looks at the package being built (or
// at the current version) is invisible to both.  Here the whole of generateImpl is real - LoadPackage,
// readPackageInfo, fetchAndCachePackages, ParsePackageContents / ParseYamlInDir and the YAML layer, every pass of
// dsl.Validate, ValidateEvolution, outputJson, WriteFileIfNeeded; the only seam is updatePackageInfoFromArgs
// (koanf) - on the package tree
//     main   (namespace Main)  imports ../dep      versions: none | v1: ../v1 | v2: ../v2 (symbolic)      json output
//     dep    (namespace Dep)                       (imported by the package and by its previous version v1)
//     v1     (namespace Main)  imports ../dep
//     v2     (namespace Main)  imports ../depold
//     depold (namespace Dep)                       (an older copy of the import, only seen by v2)
// whose packages hold the same small valid model (two records, an enum, a union alias, a protocol).  ONE rule
// violation out of c11rRules - at least one for every pass of dsl.Validate that reports errors - is introduced in
// ONE symbolic package (the package itself, its import, a previous version, a previous version's own import),
// the output directory being empty or populated by an earlier run.
// Obligations: generateImpl fails, names a file of the offending package, and writes nothing below the output
// directory; the unmodified tree is accepted and written (guards against over-rejection).
//
// The models and manifests are yaml.Node documents on the virtual file system (verifYamlDoc): under gosym the
// engine's model of the yaml.v3 decoder hands them to yardl's own UnmarshalYAML methods (type strings and
// expressions go through the native participle oracle), natively their marshalled text is read by the real decoder.

import (
	"os"
	"path/filepath"
	"strings"

	"gopkg.in/yaml.v3"
)

type c11rGen struct{ line int }

func (g *c11rGen) at(n *yaml.Node) *yaml.Node {
	g.line++
	n.Line = g.line
	n.Column = 1 + g.line%5
	return n
}
func (g *c11rGen) sc(tag, v string) *yaml.Node {
	return g.at(&yaml.Node{Kind: yaml.ScalarNode, Tag: tag, Value: v})
}
func (g *c11rGen) str(v string) *yaml.Node { return g.sc("!!str", v) }
func (g *c11rGen) mp(tag string, kv ...*yaml.Node) *yaml.Node {
	return g.at(&yaml.Node{Kind: yaml.MappingNode, Tag: tag, Content: kv})
}
func (g *c11rGen) sq(items ...*yaml.Node) *yaml.Node {
	return g.at(&yaml.Node{Kind: yaml.SequenceNode, Tag: "!!seq", Content: items})
}

var c11rRules = []string{
	"bad-type-name-casing", "duplicate-type-name", "reserved-type-name", // validateTypeDefinitionNames, buildSymbolTable
	"bad-field-name-casing", "duplicate-field-name", "bad-computed-field-name-casing", "computed-field-named-like-a-field", // validateRecordFieldNames
	"bad-step-name-casing", "duplicate-step-name", // validateProtocolSequenceNames
	"bad-enum-symbol-casing", "duplicate-enum-symbol", // validateEnums
	"unknown-field-type", "unknown-step-type", // resolveTypes
	"stream-outside-step",                     // validateStreams
	"non-primitive-map-key",                   // validateMaps
	"unused-type-parameter",                   // validateGenericParametersUsed
	"bad-type-parameter-casing",               // validateTypeDefinitionNames
	"generic-protocol",                        // validateGenericTypeDefinitions
	"reference-cycle",                         // topologicalSortTypes
	"duplicate-union-case", "null-not-first-in-union", // validateUnionCases
	"duplicate-dimension-name",   // validateArrayAndVectorDimensions
	"ill-typed-computed-field",   // resolveComputedFields
}

// c11rModel: the model document of one package; rule < 0: the valid model.
func c11rModel(g *c11rGen, rule int) *yaml.Node {
	is := func(name string) bool { return rule >= 0 && c11rRules[rule] == name }
	pick := func(name, bad, good string) string {
		if is(name) {
			return bad
		}
		return good
	}
	recName := pick("bad-type-name-casing", "rec", pick("reserved-type-name", "int", pick("unused-type-parameter", "Rec<T>", pick("bad-type-parameter-casing", "Rec<t>", "Rec"))))
	var aType *yaml.Node
	switch {
	case is("stream-outside-step"):
		aType = g.mp("!stream", g.str("items"), g.str("int"))
	default:
		aType = g.str(pick("unknown-field-type", "NoSuchType", pick("bad-type-parameter-casing", "t", pick("reference-cycle", "Rec", pick("duplicate-dimension-name", "int[x, x]", "int")))))
	}
	union := g.sq(g.str("int"), g.str(pick("duplicate-union-case", "int", "string")))
	if is("null-not-first-in-union") {
		union = g.sq(g.str("int"), g.sc("!!null", "null"))
	}
	doc := g.mp("!!map",
		g.str("Leaf"), g.mp("!record", g.str("fields"), g.mp("!!map", g.str("v"), g.str("int"))),
		g.str(recName), g.mp("!record",
			g.str("fields"), g.mp("!!map",
				g.str(pick("bad-field-name-casing", "Aa", "a")), aType,
				g.str(pick("duplicate-field-name", "a", "b")), g.str("string?"),
				g.str("m"), g.str(pick("non-primitive-map-key", "Leaf->int", "string->int"))),
			g.str("computedFields"), g.mp("!!map",
				g.str(pick("bad-computed-field-name-casing", "Cc", pick("computed-field-named-like-a-field", "b", "c"))), g.str(pick("ill-typed-computed-field", "nope", "a")))),
		g.str("En"), g.mp("!enum", g.str("values"), g.sq(g.str(pick("bad-enum-symbol-casing", "Xa", "xa")), g.str(pick("duplicate-enum-symbol", "xa", "yb")))),
		g.str("Un"), union,
		g.str(pick("generic-protocol", "P<T>", "P")), g.mp("!protocol", g.str("sequence"), g.mp("!!map",
			g.str(pick("bad-step-name-casing", "Ss", "s")), g.str(pick("unknown-step-type", "NoSuchType", "Leaf")),
			g.str(pick("duplicate-step-name", "s", "t")), g.mp("!stream", g.str("items"), g.str("int")))),
	)
	return doc
}

type c11rPkg struct {
	dir, ns  string
	imports  []string
	versions [][2]string
	jsonOut  string
}

func c11rManifest(g *c11rGen, p c11rPkg) *yaml.Node {
	doc := g.mp("!!map", g.str("namespace"), g.str(p.ns))
	if len(p.imports) > 0 {
		var items []*yaml.Node
		for _, u := range p.imports {
			items = append(items, g.str(u))
		}
		doc.Content = append(doc.Content, g.str("imports"), g.sq(items...))
	}
	if len(p.versions) > 0 {
		vs := g.mp("!!map")
		for _, v := range p.versions {
			vs.Content = append(vs.Content, g.str(v[0]), g.str(v[1]))
		}
		doc.Content = append(doc.Content, g.str("versions"), vs)
	}
	if p.jsonOut != "" {
		doc.Content = append(doc.Content, g.str("json"), g.mp("!!map", g.str("outputDir"), g.str(p.jsonOut)))
	}
	return doc
}

// VerifC11RulePlacement(emptyToo): see the head of the file.  emptyToo = 1: the output directory is empty or populated
// (symbolic), 0: always populated by an earlier run.
func VerifC11RulePlacement(emptyToo int) {
	verifUseRepl("updatePackageInfoFromArgs")
	root := verifPath("/pk")
	// which previous versions the package lists: none, v1 (same import directory as the package), v2 (its own, older
	// copy of the import).  Evolution compares the protocols of imported namespaces too, so a violation in an import
	// that only ONE of two listed versions shares would be masked by an evolution error.
	var versions [][2]string
	pkgs := []c11rPkg{{dir: "main", ns: "Main", imports: []string{"../dep"}, jsonOut: "../out/json"}, {dir: "dep", ns: "Dep"}}
	switch verifChoose("previous-versions", 3) {
	case 1:
		versions = [][2]string{{"v1", "../v1"}}
		pkgs = append(pkgs, c11rPkg{dir: "v1", ns: "Main", imports: []string{"../dep"}})
	case 2:
		versions = [][2]string{{"v2", "../v2"}}
		pkgs = append(pkgs, c11rPkg{dir: "v2", ns: "Main", imports: []string{"../depold"}}, c11rPkg{dir: "depold", ns: "Dep"})
	}
	pkgs[0].versions = versions
	rule := verifChoose("rule", len(c11rRules)+1) - 1 // -1: no violation
	where := 0
	if rule >= 0 {
		where = verifChoose("violation-in", len(pkgs))
		verifOut("rule", c11rRules[rule])
		verifOut("violation-in", pkgs[where].dir)
	}
	prePopulated := emptyToo == 0 || verifChoose("prepopulated", 2) == 1

	for i, p := range pkgs {
		g := &c11rGen{}
		verifYamlDoc("/pk/"+p.dir+"/_package.yml", c11rManifest(g, p))
		r := -1
		if rule >= 0 && i == where {
			r = rule
		}
		g = &c11rGen{}
		verifYamlDoc("/pk/"+p.dir+"/model.yml", c11rModel(g, r))
		if r >= 0 && c11rRules[r] == "duplicate-type-name" {
			// a second model file of the same package defines Leaf again (the same key twice in one document would
			// already be refused by the YAML decoder)
			g = &c11rGen{}
			verifYamlDoc("/pk/"+p.dir+"/more.yml", g.mp("!!map", g.str("Leaf"), g.mp("!record", g.str("fields"), g.mp("!!map", g.str("w"), g.str("int")))))
		}
	}
	if prePopulated {
		verifFsPut("/pk/out/json/model.json", "old")
	} else {
		verifFsPut("/pk/out/.keep", "x")
	}
	os.Chdir(filepath.Join(root, "main"))

	var err error
	msg, panicked := verifPanics(func() { _, _, err = generateImpl(map[string]string{}) })
	verifOut("panic", msg)
	verifAssert("no-panic", !panicked)
	if panicked {
		return
	}
	failed := err != nil
	verifOut("failed", failed)
	wrote := false
	for _, e := range verifEnvLog() {
		if strings.HasPrefix(e, "write:") && strings.Contains(e, "/out/") {
			wrote = true
		}
	}
	verifOut("wrote", wrote)
	if rule >= 0 {
		verifAssert("rule-violation-in-any-package-fails", failed)
		verifAssert("rule-violation-in-any-package-writes-nothing", !wrote)
		if failed {
			verifAssert("error-names-a-file-of-the-offending-package", strings.Contains(err.Error(), "/"+pkgs[where].dir+"/"))
		}
	} else {
		verifAssert("valid-package-tree-succeeds", !failed)
		verifAssert("valid-package-tree-writes-output", wrote)
	}
	verifReach("c11-rule-placement-end")
}
