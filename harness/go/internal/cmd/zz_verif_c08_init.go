package cmd

// C08: "if yardl accepts a package, code generation completes for every enabled target", quantified over all accepted
// packages *including the scaffold that `yardl init <name>` writes for any name it accepts*.
//
// The REAL initImpl runs on the virtual file system (cwd = a fresh directory, or one that already holds part of a
// package) for a SYMBOLIC package name over a finite vocabulary chosen to cover the classes of names that matter: plain
// and already-Pascal names, the three word separators, digits first / inside, characters with a meaning in YAML
// (dot, colon, quote, hash, braces), words YAML resolves to something else than a string (null, ~, booleans, nan),
// reserved words of the target languages, non-ASCII, the empty string, a long name.  The real text/template renders the
// embedded manifest template, the real os.OpenFile(O_CREATE|O_EXCL) semantics decide what may be written; then yardl's own
// loader and validator (validateImpl = LoadPackage + validatePackage: readPackageInfo, the YAML layer, every pass of
// dsl.Validate; the only seam is updatePackageInfoFromArgs / koanf) read the TEXT that init wrote (parsed by the real
// yaml.v3 parser through the native oracle, type strings by the real participle grammar).  Natively everything is real.
//
// Obligations:
//   init-accepts=>scaffold-loads-and-validates   initImpl returned nil  =>  validateImpl in ./model succeeds
//   init-rejects=>nothing-written                initImpl returned an error  =>  the set of files and their contents are
//                                                 what they were before the call (no partial scaffold is left behind)
//   existing-files-are-never-overwritten         whatever init answers, a file that existed keeps its content
//   existing-package-is-refused                  model/_package.yml or model/model.yml already there => error
//   namespace-is-the-documented-derivation       accepted => the namespace the loader reads back is the Pascal-cased name
//                                                 (docs: `yardl init playground` gives `namespace: Playground`)
//   scaffold-model-is-the-shipped-example        accepted => model/model.yml is the embedded example, byte for byte
//   scaffold-enables-the-documented-targets      accepted => the manifest enables cpp (../cpp/generated), python (../python)
//                                                 and matlab (../matlab), as the quick-start pages show
//   ordinary-name-is-accepted                    a name made of letters, digits after the first letter and single separators,
//                                                 in a directory without a package, is accepted (guards against over-rejection)

import (
	"os"
	"path/filepath"
	"strings"

	"github.com/microsoft/yardl/tooling/pkg/packaging"
)

// names a user can be expected to pass and that the docs' derivation turns into a valid namespace
var c08iOrdinary = []string{"playground", "myPackage", "Sketch", "my-pkg", "my_pkg", "my pkg", "v2Model", "class", "int", "namespace", "import", "end", "true", "yes", "on", "nan"}

var c08iSpecial = []string{
	"123abc",                          // digits first
	"a.b", "x: y", "a#b", "{a}", `"q"`, // characters with a meaning in YAML
	"null", "Null", "NULL", "~", // YAML null
	"über", // non-ASCII
	"",     // empty
	"AbcdefghijAbcdefghijAbcdefghijAbcdefghijAbcdefghijAbcdefghijAbcdefghij", // 70 characters
}

// c08iPascal: the documented derivation, written independently of formatting.ToPascalCase: words are separated by
// '_', '-' or ' '; the first letter of every word is upper-cased, everything else is kept.
func c08iPascal(s string) string {
	out := ""
	up := true
	for i := 0; i < len(s); i++ {
		c := s[i : i+1]
		if c == "_" || c == "-" || c == " " {
			up = true
			continue
		}
		if up {
			c = strings.ToUpper(c)
		}
		up = false
		out += c
	}
	return out
}

const (
	c08iOldManifest = "namespace: Old\n\njson:\n  outputDir: ../json\n"
	c08iOldModel    = "Old: !record\n  fields:\n    x: int\n"
)

var c08iPreStates = []string{"fresh", "empty-model-dir", "manifest-exists", "model-file-exists", "both-exist", "model-is-a-regular-file", "other-model-file-exists"}

// VerifC08InitScaffold(withPre): withPre = 0: only the fresh directory; 1: every pre-existing state.
func VerifC08InitScaffold(withPre int) {
	verifUseRepl("updatePackageInfoFromArgs")
	root := verifPath("/w")
	os.MkdirAll(root, 0o775)

	var vocabulary []string
	vocabulary = append(vocabulary, c08iOrdinary...)
	vocabulary = append(vocabulary, c08iSpecial...)
	name := verifOneOf("name", vocabulary...)

	pre := 0
	if withPre == 1 {
		pre = verifChoose("pre-existing", len(c08iPreStates))
	}
	verifOut("pre-existing", c08iPreStates[pre])
	manifestPath, modelPath := "/w/model/_package.yml", "/w/model/model.yml"
	before := map[string]string{}
	put := func(p, content string) {
		verifFsPut(p, content)
		before[p] = content
	}
	switch c08iPreStates[pre] {
	case "empty-model-dir":
		os.MkdirAll(filepath.Join(root, "model"), 0o775)
	case "manifest-exists":
		put(manifestPath, c08iOldManifest)
	case "model-file-exists":
		put(modelPath, c08iOldModel)
	case "both-exist":
		put(manifestPath, c08iOldManifest)
		put(modelPath, c08iOldModel)
	case "model-is-a-regular-file":
		put("/w/model", "not a directory\n")
	case "other-model-file-exists":
		// a model directory without a manifest and without a model.yml: init completes it
		put("/w/model/other.yml", c08iOldModel)
	}
	os.Chdir(root)

	var err error
	msg, panicked := verifPanics(func() { err = initImpl(name) })
	verifOut("panic", msg)
	verifAssert("no-panic", !panicked)
	if panicked {
		return
	}
	accepted := err == nil
	verifOut("name", name)
	verifOut("init-accepts", accepted)

	// what is on disk now
	after := map[string]string{}
	for _, p := range verifFsList() {
		if strings.HasPrefix(p, "/w/") || p == "/w" {
			c, _ := verifFsGet(p)
			after[p] = c
		}
	}
	untouched := true
	for p, c := range before {
		if got, ok := after[p]; !ok || got != c {
			untouched = false
		}
	}
	verifAssert("existing-files-are-never-overwritten", untouched)
	_, hadManifest := before[manifestPath]
	_, hadModel := before[modelPath]
	if hadManifest || hadModel {
		verifAssert("existing-package-is-refused", !accepted)
	}

	ordinary := false
	for _, o := range c08iOrdinary {
		if name == o {
			ordinary = true
		}
	}
	if ordinary && !hadManifest && !hadModel && c08iPreStates[pre] != "model-is-a-regular-file" {
		verifAssert("ordinary-name-is-accepted", accepted)
	}

	if !accepted {
		verifOut("files-left-behind", len(after)-len(before))
		verifAssert("init-rejects=>nothing-written", untouched && len(after) == len(before))
		verifReach("c08-init-rejected")
		return
	}

	// ---- accepted: the scaffold is a package yardl accepts -----------------------------------------------
	modelDir := filepath.Join(root, "model")
	os.Chdir(modelDir)
	var verr error
	msg, panicked = verifPanics(func() { _, verr = validateImpl(map[string]string{}) })
	verifOut("validate-panic", msg)
	verifAssert("validate-no-panic", !panicked)
	if panicked {
		return
	}
	verifOut("scaffold-validates", verr == nil)
	if verr != nil {
		verifOut("validate-error", strings.ReplaceAll(verr.Error(), root, ""))
	}
	verifAssert("init-accepts=>scaffold-loads-and-validates", verr == nil)

	if verr == nil {
		info, lerr := packaging.LoadPackage(modelDir)
		verifAssert("scaffold-loads-again", lerr == nil && info != nil)
		if lerr == nil && info != nil {
			verifOut("namespace", info.Namespace)
			verifAssert("namespace-is-the-documented-derivation", info.Namespace == c08iPascal(name))
			verifAssert("scaffold-enables-the-documented-targets",
				info.Cpp != nil && !info.Cpp.Disabled && info.Cpp.SourcesOutputDir == filepath.Join(root, "cpp/generated") &&
					info.Python != nil && !info.Python.Disabled && info.Python.OutputDir == filepath.Join(root, "python") &&
					info.Matlab != nil && !info.Matlab.Disabled && info.Matlab.OutputDir == filepath.Join(root, "matlab"))
		}
	}
	verifAssert("scaffold-model-is-the-shipped-example", after[modelPath] == modelFileContents && modelFileContents != "")

	verifReach("c08-init-accepted")
}
