package cmd

// C20: watch mode over a package WITH PREDECESSOR VERSIONS converges to the one-shot output.
//
// Layout (every package is a directory with _package.yml and model.yml):
//   main    namespace Main   imports ../imp      versions v1: ../v1, v2: ../v2     C++ and JSON output
//   imp     namespace Imp
//   v1      namespace Main   imports ../impold   (an older copy of the import: same namespace Imp, other directory)
//   impold  namespace Imp
//   v2      namespace Main   imports ../imp
// Two predecessors share the namespace of the package itself, and a predecessor's import shares its namespace
// with a current import: directories, not namespaces, are what an editor saves into.
//
// The real dedupLoop / generateInWatchMode / generateImpl / LoadPackage / collectPackages / collectVersions /
// GetAllReferencedPackages / validatePackage / dsl.Validate / dsl.ValidateEvolution / outputJson run under the
// goroutine scheduler.  Seams (gosym only): the YAML decoding of _package.yml and model.yml (token readers of
// the same files), updatePackageInfoFromArgs (koanf), and the C++ generator (internal/cpp/zz_verif_c20.go: a
// stand-in that writes, per version label and protocol, the previous schema the real ValidateEvolution
// computed).  Natively everything is real (real fsnotify watcher, real parsers, real C++ generator).
//
// Obligations:
//   every-referenced-directory-watched   after start-up the watch list contains the directory of every package
//                                        in the closure (main, imports transitively, every predecessor and
//                                        its imports) -- the specification closure is the layout above;
//   converged-to-one-shot-output         for every sequence of saves (each lands in a symbolic directory of the
//                                        five, with symbolic content: field type int / long / an unknown type,
//                                        and a symbolic 64-bit tag in the record's comment), after quiescence
//                                        the output tree equals the one a one-shot generateImpl produces;
//   invalid-final-contents-leave-output-untouched, watcher-keeps-running, cwd-is-package-dir-when-idle.

import (
	"errors"
	"fmt"
	"os"
	"path/filepath"
	"sort"
	"strings"
	"time"

	"github.com/fsnotify/fsnotify"
	"github.com/microsoft/yardl/tooling/pkg/dsl"
	"github.com/microsoft/yardl/tooling/pkg/packaging"
)

var c20vDirs = []string{"main", "imp", "v1", "impold", "v2"}

func c20vIsMainNamespace(dir string) bool { return dir == "main" || dir == "v1" || dir == "v2" }

// c20vModel: the text of model.yml.  Packages of namespace Main: record R {a: <ft>, b: Imp.R} and protocol P {r: R};
// packages of namespace Imp: record R {a: <ft>}.  The comment carries the tag.
func c20vModel(mainNs bool, ft string, tag uint64) string {
	if mainNs {
		return fmt.Sprintf("# %d\nR: !record\n  fields:\n    a: %s\n    b: Imp.R\nP: !protocol\n  sequence:\n    r: R\n", tag, ft)
	}
	return fmt.Sprintf("# %d\nR: !record\n  fields:\n    a: %s\n", tag, ft)
}

// c20vNamespace is what the ParsePackageContents seam returns for the text of model.yml.
func c20vNamespace(content string, ns string) (*dsl.Namespace, error) {
	toks := verifTokens(content)
	meta := func(line int) dsl.NodeMeta { return dsl.NodeMeta{File: "model.yml", Line: line, Column: 1} }
	comment, ft := "", ""
	for i, t := range toks {
		if i+1 >= len(toks) {
			break
		}
		if t == "#" && comment == "" {
			comment = toks[i+1]
		}
		if t == "a:" && ft == "" {
			ft = toks[i+1]
		}
	}
	if ft == "" {
		return nil, errors.New("unparseable model file")
	}
	rec := &dsl.RecordDefinition{DefinitionMeta: &dsl.DefinitionMeta{NodeMeta: meta(2), Name: "R", Namespace: ns, Comment: comment},
		Fields: dsl.Fields{&dsl.Field{NodeMeta: meta(4), Name: "a", Type: &dsl.SimpleType{NodeMeta: meta(4), Name: ft}}}}
	out := &dsl.Namespace{Name: ns, TypeDefinitions: dsl.TypeDefinitions{rec}}
	if ns == "Main" {
		rec.Fields = append(rec.Fields, &dsl.Field{NodeMeta: meta(5), Name: "b", Type: &dsl.SimpleType{NodeMeta: meta(5), Name: "Imp.R"}})
		out.Protocols = []*dsl.ProtocolDefinition{{DefinitionMeta: &dsl.DefinitionMeta{NodeMeta: meta(6), Name: "P", Namespace: ns},
			Sequence: dsl.ProtocolSteps{&dsl.ProtocolStep{NodeMeta: meta(8), Name: "r", Type: &dsl.SimpleType{NodeMeta: meta(8), Name: "R"}}}}}
	}
	return out, nil
}

func c20vSetup() {
	verifFsPut("/pk/main/_package.yml", "namespace: Main\nversions:\n  v1: ../v1\n  v2: ../v2\nimports:\n  - ../imp\n"+
		"cpp:\n  sourcesOutputDir: ../out/cpp\n  generateHDF5: false\n  generateNDJson: false\n  generateCMakeLists: false\n"+
		"json:\n  outputDir: ../out/json\n")
	verifFsPut("/pk/imp/_package.yml", "namespace: Imp\n")
	verifFsPut("/pk/v1/_package.yml", "namespace: Main\nimports:\n  - ../impold\n")
	verifFsPut("/pk/impold/_package.yml", "namespace: Imp\n")
	verifFsPut("/pk/v2/_package.yml", "namespace: Main\nimports:\n  - ../imp\n")
	for _, d := range c20vDirs {
		verifFsPut("/pk/"+d+"/model.yml", c20vModel(c20vIsMainNamespace(d), "int", 7))
	}
	verifFsPut("/pk/out/.keep", "x")
	packaging.VerifReadPkgHook = packaging.VerifC20vReadPackageInfo
	dsl.VerifParseHook = func(pkgInfo *packaging.PackageInfo) (*dsl.Namespace, error) {
		b, err := os.ReadFile(filepath.Join(pkgInfo.PackageDir(), "model.yml"))
		if err != nil {
			return nil, err
		}
		return c20vNamespace(string(b), pkgInfo.Namespace)
	}
}

// c20vOutput: everything the generators wrote.  Under gosym the two files the (stand-in) generators write;
// natively the whole output tree (names and contents).
func c20vOutput(root string) string {
	if !verifNative() {
		a, _ := verifFsGet("/pk/out/json/model.json")
		b, _ := verifFsGet("/pk/out/cpp/protocols.cc")
		return a + "\n--\n" + b
	}
	var names []string
	filepath.Walk(filepath.Join(root, "out"), func(p string, info os.FileInfo, err error) error {
		if err == nil && !info.IsDir() {
			names = append(names, p)
		}
		return nil
	})
	sort.Strings(names)
	var b strings.Builder
	for _, p := range names {
		c, _ := os.ReadFile(p)
		fmt.Fprintf(&b, "== %s\n%s\n", strings.TrimPrefix(p, root), c)
	}
	return b.String()
}

// c20vNativeWait (native only): wait until the output tree has been stable for `quiet`.
func c20vNativeWait(root string, quiet time.Duration) {
	if !verifNative() {
		return
	}
	VerifQuiesceFn = func() {}
	last, lastChange := "", time.Now()
	deadline := time.Now().Add(60 * time.Second)
	for time.Now().Before(deadline) {
		var b strings.Builder
		filepath.Walk(filepath.Join(root, "out"), func(p string, info os.FileInfo, err error) error {
			if err == nil && !info.IsDir() {
				fmt.Fprintf(&b, "%s %d %d;", p, info.Size(), info.ModTime().UnixNano())
			}
			return nil
		})
		if cur := b.String(); cur != last {
			last, lastChange = cur, time.Now()
		}
		if time.Since(lastChange) >= quiet {
			return
		}
		time.Sleep(20 * time.Millisecond)
	}
}

// VerifC20Versions(nsaves, impatient, bound, ntypes): the editor saves nsaves times; impatient = 0: it waits for
// the watcher to go idle between saves, 1: it does not (every interleaving within `bound` preemptions); ntypes:
// the field type of a saved model ranges over the first ntypes of {long, NoSuchType, int} (int = the initial type).
func VerifC20Versions(nsaves, impatient, bound, ntypes int) {
	verifUseRepl("readPackageInfo", "ParsePackageContents", "updatePackageInfoFromArgs", "Generate")
	verifSchedBound(bound)
	// the editor's plan (where each save lands and what it writes) is an input of the whole run
	savePath, saveContent := make([]string, nsaves), make([]string, nsaves)
	for i := 0; i < nsaves; i++ {
		d := c20vDirs[verifChoose(fmt.Sprintf("save%d-dir", i), len(c20vDirs))]
		ft := []string{"long", "NoSuchType", "int"}[verifChoose(fmt.Sprintf("save%d-type", i), ntypes)]
		savePath[i] = "/pk/" + d + "/model.yml"
		saveContent[i] = c20vModel(c20vIsMainNamespace(d), ft, verifUint64(fmt.Sprintf("save%d-tag", i)))
	}
	root := verifPath("/pk")
	mainDir := filepath.Join(root, "main")
	c20vSetup()
	os.Chdir(mainDir)

	w, werr := fsnotify.NewWatcher()
	verifAssert("watcher-created", werr == nil)
	if werr != nil {
		return
	}
	completed := make(chan error, 1)
	w.Add(".")
	go dedupLoop(map[string]string{}, w, completed)
	c20vNativeWait(root, 400*time.Millisecond)
	verifQuiesce()
	first, ok := verifFsGet("/pk/out/json/model.json")
	verifAssert("initial-generation-wrote-output", ok && first != "")
	verifAssert("cwd-is-package-dir-when-idle", verifCwd() == mainDir)

	// static obligation: the directory of every package of the closure is being watched
	watched := w.WatchList()
	for _, d := range c20vDirs {
		found := false
		for _, x := range watched {
			if ax, err := filepath.Abs(x); err == nil && ax == filepath.Join(root, d) { // the command itself watches "."
				found = true
			}
		}
		verifOut("watched-"+d, found)
		verifAssert("every-referenced-directory-watched", found)
	}

	for i := 0; i < nsaves; i++ {
		path, content := savePath[i], saveContent[i]
		verifFsPut(path, content)
		c20Notify(w, path)
		if impatient == 0 {
			c20vNativeWait(root, 400*time.Millisecond)
			verifQuiesce()
			verifAssert("cwd-is-package-dir-when-idle", verifCwd() == mainDir)
		} else if verifNative() {
			time.Sleep(60 * time.Millisecond)
		}
	}
	c20vNativeWait(root, 1500*time.Millisecond)
	verifQuiesce()

	crashes := verifCrashes()
	verifAssert("watcher-keeps-running", len(crashes) == 0 && len(completed) == 0)
	verifAssert("cwd-is-package-dir-when-idle", verifCwd() == mainDir)
	got := c20vOutput(root)

	// reference: the one-shot command on the final contents, run now that nothing else is running
	os.Chdir(mainDir)
	_, _, err := generateImpl(map[string]string{})
	want := c20vOutput(root)
	verifOut("one-shot-accepts-final-contents", err == nil)
	if err != nil {
		verifAssert("invalid-final-contents-leave-output-untouched", got == want)
	} else {
		verifAssert("converged-to-one-shot-output", got == want)
	}
	c20NativeStop(w)
	verifReach("c20-versions-end")
}
