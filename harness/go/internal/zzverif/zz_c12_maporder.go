package zzverif

// C12: generated text must not depend on Go map iteration order ("repeated runs give byte-identical
// results ... each execution randomises Go map iteration order").
//
// The real evolution pass and the real C++ file generators run on a model with >= 2 previous versions
// (so that ns.DefinitionChanges, p.Versions, the per-step change maps, the union-arity set ... hold >= 2
// entries) once with every map range in insertion order and once with the iteration order of one map
// range of >= 2 entries -- WHICH one is symbolic (every range executed is covered, obligation
// every-map-range-covered) -- a decision (verifSetMapOrder(-2-i): gosym forks over all permutations of
// that range, 3 orders for maps of more than 3 entries); every generated file must be byte-identical.
// Natively a particular order cannot be selected: Go randomises it, so the native twin confirms a reported
// dependence by repeating the run until Go's own order shows a difference (32 tries).

import (
	"fmt"
	"os"
	"strings"

	cppbinary "github.com/microsoft/yardl/tooling/internal/cpp/binary"
	cppndjson "github.com/microsoft/yardl/tooling/internal/cpp/ndjson"
	cppprotocols "github.com/microsoft/yardl/tooling/internal/cpp/protocols"
	cpptypes "github.com/microsoft/yardl/tooling/internal/cpp/types"
	python "github.com/microsoft/yardl/tooling/internal/python"
	"github.com/microsoft/yardl/tooling/pkg/dsl"
	"github.com/microsoft/yardl/tooling/pkg/packaging"
)

var c12Generators = []string{"cpp/binary.WriteBinary", "cpp/types.WriteTypes", "cpp/protocols.WriteProtocols", "cpp/ndjson.WriteNdJson", "python.Generate"}

// c12Unions: two more steps with unions of different arity in every version (the C++ binary generator
// collects the set of union arities in a map), and a second protocol that changes too.
func c12Unions(ns *dsl.Namespace, file string, old bool) *dsl.Namespace {
	b := &mb{file: file, line: 1000}
	p := ns.Protocols[0]
	p.Sequence = append(p.Sequence,
		b.step("u", b.gt(nil, b.st("int"), b.st("string"))),
		b.step("w", b.gt(nil, b.st("int"), b.st("string"), b.st("float"))))
	q := "long"
	if old {
		q = "int"
	}
	ns.Protocols = append(ns.Protocols, b.protocol(NS, "Q", b.step("x", b.st(q)), b.step("r", b.strm(b.st("Rec")))))
	return ns
}

func c12Generate(gen int, env *dsl.Environment, dir string) error {
	opts := packaging.CppCodegenOptions{SourcesOutputDir: verifPath(dir), GenerateNDJson: true}
	if err := os.MkdirAll(opts.SourcesOutputDir, 0775); err != nil { // as cpp.Generate does before calling the writers
		return err
	}
	switch gen {
	case 4:
		return python.VerifGenerate(env, packaging.PythonCodegenOptions{OutputDir: verifPath(dir), GenerateNDJson: true})
	case 0:
		return cppbinary.WriteBinary(env, opts)
	case 1:
		return cpptypes.WriteTypes(env, opts)
	case 2:
		return cppprotocols.WriteProtocols(env, opts)
	}
	return cppndjson.WriteNdJson(env, opts)
}

// c12Pipeline: fresh models -> ValidateEvolution -> one generator.  permute: 0 nothing, 1 the map ranges of
// the generator, 2 the map ranges of ValidateEvolution and of the generator.
func c12Pipeline(gen int, labels []string, kinds []int, shape int, dir string, permute int, which int) (files map[string]string, permuted, seen int, ok bool) {
	cur, err := dsl.Validate([]*dsl.Namespace{c12Unions(c05Model("model.yml", shape, 1, 0, true), "model.yml", false)})
	if err != nil {
		return nil, 0, 0, false
	}
	olds := make([]*dsl.Environment, len(labels))
	for j := range olds {
		olds[j], err = dsl.Validate([]*dsl.Namespace{c12Unions(c05Model(labels[j]+"/model.yml", shape, 1, kinds[j], false), labels[j]+"/model.yml", kinds[j] != c05Absent)})
		if err != nil {
			return nil, 0, 0, false
		}
	}
	if permute == 2 {
		verifSetMapOrder(-2 - which)
	}
	_, _, err = dsl.ValidateEvolution(cur, olds, labels)
	if err != nil {
		verifSetMapOrder(0)
		return nil, 0, 0, false
	}
	if permute == 1 {
		verifSetMapOrder(-2 - which)
	}
	err = c12Generate(gen, cur, dir)
	if permute != 0 {
		permuted = verifMapRangesPermuted()
		seen = verifMapRangesSeen()
	}
	verifSetMapOrder(0)
	if err != nil {
		return nil, 0, 0, false
	}
	files = map[string]string{}
	for _, f := range verifFsList() {
		if strings.HasPrefix(f, dir+"/") {
			text, _ := verifFsGet(f)
			files[f[len(dir):]] = text
		}
	}
	return files, permuted, seen, true
}

func sameFiles(a, b map[string]string) bool {
	if len(a) != len(b) {
		return false
	}
	for k, v := range a {
		if w, ok := b[k]; !ok || w != v {
			return false
		}
	}
	return true
}

// C12MapOrder(m, gens, maxBinary, maxOther, kindsN): m previous versions, each (symbolic, first kindsN of:)
// with a changed record + stream item type / with another step changed / lacking the stream step; one of
// the first `gens` generators (symbolic); one map range of ValidateEvolution or of the generator (symbolic
// index below maxBinary for cpp/binary, maxOther for the others -- checked to cover every range executed)
// runs in a different order.
func C12MapOrder(m, gens, maxBinary, maxOther, kindsN int) {
	const phase = 2
	verifUseRepl("CopyEmbeddedStaticFiles")
	labels := c05Labels[m-2][:m]
	gen := verifChoose("generator", gens)
	verifOut("generator", c12Generators[gen])
	maxRanges := maxOther
	if gen == 0 {
		maxRanges = maxBinary
	}
	kinds := make([]int, m)
	for j := range kinds {
		kinds[j] = []int{c05Changed, c05OtherStep, c05Absent}[verifChoose(fmt.Sprintf("kind%d", j), kindsN)]
	}
	shape := 0
	ref, _, _, ok := c12Pipeline(gen, labels, kinds, shape, "/ref", 0, 0)
	verifAssert("reference-run-succeeds", ok && len(ref) > 0)
	if !ok {
		return
	}
	which := verifChoose("permuted-map-range", maxRanges)
	alt, permuted, seen, ok2 := c12Pipeline(gen, labels, kinds, shape, "/alt", phase, which)
	verifAssert("run-succeeds-in-every-map-order", ok2)
	if !ok2 {
		return
	}
	verifOut("map-ranges", seen)
	verifAssert("every-map-range-covered", seen <= maxRanges)
	if permuted == 0 {
		// every range ran in insertion order: the same execution as the reference run
		verifReach("c12-map-order-identity")
		return
	}
	same := sameFiles(ref, alt)
	sameInt := 0
	if same {
		sameInt = 1
	}
	// what gosym found for the order chosen on this path; a native run cannot select that order
	symbolicSame := verifRecord("same-output-under-chosen-order", sameInt) == 1
	if verifNative() {
		same = true
		for i := 0; i < 32 && same && !symbolicSame; i++ {
			// confirm a reported dependence: Go's own randomised order must show a difference
			again, _, _, ok3 := c12Pipeline(gen, labels, kinds, shape, "/alt", 0, 0)
			same = ok3 && sameFiles(ref, again)
		}
	}
	verifAssert("output-independent-of-map-iteration-order", same)
	verifReach("c12-map-order-end")
}
