package zzverif

// C07 (C++): the state checks the protocol emitter writes into every generated writer/reader
// method, read back as guarded commands over `state_` and compared with the declaration-order
// automaton by a one-step simulation from an arbitrary reachable state.

import (
	"fmt"
	"strconv"
	"strings"

	cppprotocols "github.com/microsoft/yardl/tooling/internal/cpp/protocols"
	"github.com/microsoft/yardl/tooling/pkg/dsl"
)

type cppMethod struct {
	class, name string
	vectorArg   bool
	body        []string
}

func parseCppMethods(text string) []*cppMethod {
	var out []*cppMethod
	lines := strings.Split(text, "\n")
	for i := 0; i < len(lines); i++ {
		l := lines[i]
		if !(strings.HasPrefix(l, "void ") || strings.HasPrefix(l, "bool ")) || !strings.HasSuffix(l, "{") || !strings.Contains(l, "::") {
			continue
		}
		sig := l[strings.Index(l, " ")+1:]
		cls := sig[:strings.Index(sig, "::")]
		rest := sig[strings.Index(sig, "::")+2:]
		name := rest[:strings.Index(rest, "(")]
		m := &cppMethod{class: cls, name: name, vectorArg: strings.Contains(rest, "std::vector<")}
		depth := 1
		for i++; i < len(lines) && depth > 0; i++ {
			t := strings.TrimSpace(lines[i])
			if t == "" {
				continue
			}
			depth += strings.Count(t, "{") - strings.Count(t, "}")
			if depth > 0 {
				m.body = append(m.body, t)
			}
		}
		i--
		out = append(out, m)
	}
	return out
}

// stateBits reads the width of the emitted `state_` member from the class declarations.
func stateBits(decls string) uint {
	switch {
	case strings.Contains(decls, "uint8_t state_"):
		return 8
	case strings.Contains(decls, "uint16_t state_"):
		return 16
	case strings.Contains(decls, "uint32_t state_"):
		return 32
	case strings.Contains(decls, "size_t state_"), strings.Contains(decls, "uint64_t state_"):
		return 64
	}
	return 0
}

func truncState(n int, bits uint) uint64 {
	if bits >= 64 {
		return uint64(n)
	}
	return uint64(n) & ((uint64(1) << bits) - 1)
}

type cppRun struct {
	bits       uint
	state      uint64 // the unsigned `state_` member, width as declared
	threw      bool
	implCalled bool
	returned   bool
	retFalse   bool // `return false` / `return result` with result false / `return values.size() > 0` (treated as data-dependent)
	implResult bool // what the Impl call returned (symbolic)
	unknown    string
}

func intAfter(s, prefix string) (int, bool) {
	i := strings.Index(s, prefix)
	if i < 0 {
		return 0, false
	}
	s = s[i+len(prefix):]
	j := 0
	for j < len(s) && s[j] >= '0' && s[j] <= '9' {
		j++
	}
	n, err := strconv.Atoi(s[:j])
	return n, err == nil
}

// blockEnd: index of the line closing the block opened at lines[i] (which ends with "{").
func blockEnd(lines []string, i int) int {
	depth := 0
	for k := i; k < len(lines); k++ {
		if k == i && strings.HasPrefix(lines[k], "} else") {
			depth = 1 // the else line closes the then-block and opens its own
			continue
		}
		depth += strings.Count(lines[k], "{") - strings.Count(lines[k], "}")
		if depth == 0 {
			return k
		}
		if depth == 1 && k > i && strings.HasPrefix(lines[k], "} else") {
			return k
		}
	}
	return len(lines)
}

func (r *cppRun) cond(c string) bool {
	switch {
	case strings.HasPrefix(c, "!skip_completed_check_ && unlikely(state_ != "):
		n, _ := intAfter(c, "state_ != ")
		return r.state != uint64(n) // skip_completed_check_ is false unless CopyTo sets it
	case strings.HasPrefix(c, "unlikely(state_ != ") || strings.HasPrefix(c, "state_ != "):
		n, _ := intAfter(c, "state_ != ")
		return r.state != uint64(n) // C++: the member is promoted/converted, the non-negative literal compared by value
	case strings.HasPrefix(c, "state_ == "):
		n, _ := intAfter(c, "state_ == ")
		return r.state == uint64(n)
	case c == "!result":
		return !r.implResult
	case strings.HasPrefix(c, "!") && strings.Contains(c, "Impl(values)"):
		r.implCalled = true
		r.implResult = verifBool("impl-batch-result")
		return !r.implResult
	case c == "values.capacity() == 0":
		return false
	}
	r.unknown = "condition: " + c
	return false
}

func (r *cppRun) exec(lines []string) {
	for i := 0; i < len(lines) && !r.threw && !r.returned && r.unknown == ""; i++ {
		l := lines[i]
		switch {
		case strings.HasPrefix(l, "if (") && strings.HasSuffix(l, ") {"):
			c := l[4 : len(l)-3]
			end := blockEnd(lines, i)
			thenBlock := lines[i+1 : end]
			var elseBlock []string
			next := end
			if end < len(lines) && strings.HasPrefix(lines[end], "} else {") {
				e2 := blockEnd(lines, end)
				elseBlock = lines[end+1 : e2]
				next = e2
			}
			if r.cond(c) {
				r.exec(thenBlock)
			} else {
				r.exec(elseBlock)
			}
			i = next
		case strings.HasPrefix(l, "state_ = "):
			n, ok := intAfter(l, "state_ = ")
			if !ok {
				r.unknown = l
			}
			r.state = truncState(n, r.bits) // assignment to the unsigned member truncates
		case strings.Contains(l, "InvalidState("), strings.HasPrefix(l, "throw "):
			r.threw = true
		case strings.HasPrefix(l, "bool result = ") && strings.Contains(l, "Impl("):
			r.implCalled = true
			r.implResult = verifBool("impl-result")
		case strings.HasPrefix(l, "return"):
			r.returned = true
			r.retFalse = l == "return false;" || (l == "return result;" && !r.implResult)
		case strings.HasSuffix(l, "Impl(value);"), strings.HasSuffix(l, "Impl(values);"), strings.HasSuffix(l, "Impl();"):
			r.implCalled = true
		case l == "values.clear();":
		default:
			r.unknown = "statement: " + l
		}
	}
}

func c07Protocol(n int, flags []bool) (*dsl.Environment, bool) {
	b := &mb{file: "model.yml"}
	var steps []*dsl.ProtocolStep
	for i := 0; i < n; i++ {
		var t dsl.Type = b.st("int")
		if flags[i] {
			t = b.strm(b.st("int"))
		}
		steps = append(steps, b.step(fmt.Sprintf("s%d", i), t))
	}
	ns := &dsl.Namespace{Name: "Ns", IsTopLevel: true, Protocols: []*dsl.ProtocolDefinition{b.protocol("Ns", "P", steps...)}}
	env, err := dsl.Validate([]*dsl.Namespace{ns})
	return env, err == nil
}

func findMethod(ms []*cppMethod, class, name string, vectorArg bool) *cppMethod {
	for _, m := range ms {
		if m.class == class && m.name == name && m.vectorArg == vectorArg {
			return m
		}
	}
	return nil
}

// C07CppWriter: one-step simulation of the generated C++ writer against the declaration-order automaton.
func C07CppWriter(n int, allStreams int) {
	flags := make([]bool, n)
	for i := range flags {
		if allStreams == 1 {
			flags[i] = true
		} else if allStreams == 0 {
			flags[i] = verifChoose(fmt.Sprintf("stream%d", i), 2) == 1
		}
	}
	env, ok := c07Protocol(n, flags)
	verifAssert("protocol-validates", ok)
	if !ok {
		return
	}
	ms := parseCppMethods(cppprotocols.VerifWriteDefinitions(env.Namespaces[0], env.SymbolTable))
	bits := stateBits(cppprotocols.VerifWriteDeclarations(env.Namespaces[0]))
	verifAssert("state-member-declared", bits > 0)
	// arbitrary reachable state: next step index 0..n (n = all steps done)
	pre := verifInt("next-step")
	verifAssume(pre >= 0 && pre <= n)
	k := 0 // target step; n = Close
	if n > 8 {
		// long protocols: only the last steps (where the 8-bit state could wrap) and calls near them
		verifAssume(pre >= n-2)
		k = n - verifChoose("target-step-from-end", 4)
	} else {
		k = verifChoose("target-step", n+1)
	}
	kind := 0                            // 0 write value, 1 write batch, 2 end stream
	if k < n && flags[k] {
		kind = verifChoose("call-kind", 3)
	}
	var m *cppMethod
	switch {
	case k == n:
		m = findMethod(ms, "PWriterBase", "Close", false)
	case kind == 2:
		m = findMethod(ms, "PWriterBase", fmt.Sprintf("EndS%d", k), false)
	default:
		m = findMethod(ms, "PWriterBase", fmt.Sprintf("WriteS%d", k), kind == 1)
	}
	verifAssert("method-emitted", m != nil)
	if m == nil {
		return
	}
	r := &cppRun{bits: bits}
	r.state = uint64(pre) // the value the member holds after the history leading to `pre`
	if bits < 64 {
		r.state &= (uint64(1) << bits) - 1
	}
	r.exec(m.body)
	verifOut("unknown-form", r.unknown)
	verifAssert("only-known-statement-forms", r.unknown == "")
	accept := pre == k
	verifAssert("raises-iff-out-of-order", r.threw == !accept)
	verifAssert("impl-called-iff-accepted", r.implCalled == accept)
	if accept {
		post := pre
		if k < n && (!flags[k] || kind == 2) {
			post = pre + 1
		}
		verifAssert("post-state-is-next-step", r.state == uint64(post))
	}
	verifReach("c07-cpp-writer-end")
}

// C07CppReader: same for the reader. Abstract state: next step i, plus "stream i-1 was completed by a
// batch read whose completion has not been observed yet" (concrete 2i-1).
func C07CppReader(n int, allStreams int) {
	flags := make([]bool, n)
	for i := range flags {
		if allStreams == 1 {
			flags[i] = true
		} else if allStreams == 0 {
			flags[i] = verifChoose(fmt.Sprintf("stream%d", i), 2) == 1
		}
	}
	env, ok := c07Protocol(n, flags)
	verifAssert("protocol-validates", ok)
	if !ok {
		return
	}
	ms := parseCppMethods(cppprotocols.VerifWriteDefinitions(env.Namespaces[0], env.SymbolTable))
	bits := stateBits(cppprotocols.VerifWriteDeclarations(env.Namespaces[0]))
	verifAssert("state-member-declared", bits > 0)
	next := 0 // 0..n
	if n > 8 {
		next = n - verifChoose("next-step-from-end", 3)
	} else {
		next = verifInt("next-step")
		verifAssume(next >= 0 && next <= n)
	}
	unobserved := false // stream next-1 finished inside a batch read, not yet observed
	if next >= 1 && flags[next-1] {
		unobserved = verifBool("unobserved-completion")
	}
	concrete := 2 * next
	if unobserved {
		concrete = 2*next - 1
	}
	k := 0
	if n > 8 {
		k = n - verifChoose("target-step-from-end", 4)
	} else {
		k = verifChoose("target-step", n+1)
	}
	batch := false
	if k < n && flags[k] {
		batch = verifChoose("batch-overload", 2) == 1
	}
	var m *cppMethod
	if k == n {
		m = findMethod(ms, "PReaderBase", "Close", false)
	} else {
		m = findMethod(ms, "PReaderBase", fmt.Sprintf("ReadS%d", k), batch)
	}
	verifAssert("method-emitted", m != nil)
	if m == nil {
		return
	}
	r := &cppRun{bits: bits, state: truncState(concrete, bits)}
	r.exec(m.body)
	verifOut("unknown-form", r.unknown)
	verifAssert("only-known-statement-forms", r.unknown == "")
	// specification
	accept := k == next
	alreadyEnded := false // calling the stream read again after a batch read reported its end: returns false, no impl call
	if k < n && flags[k] && k == next-1 && unobserved {
		accept, alreadyEnded = true, true
	}
	verifAssert("raises-iff-out-of-order", r.threw == !accept)
	if !accept {
		verifReach("c07-cpp-reader-rejected")
		return
	}
	if alreadyEnded {
		verifAssert("ended-stream-reports-end-without-reading", !r.implCalled && r.retFalse && r.state == uint64(2*next))
		verifReach("c07-cpp-reader-ended")
		return
	}
	if k == n {
		verifAssert("close-calls-impl", r.implCalled)
		verifReach("c07-cpp-reader-closed")
		return
	}
	verifAssert("impl-called-iff-accepted", r.implCalled)
	switch {
	case !flags[k]:
		verifAssert("post-state-is-next-step", r.state == uint64(2*(k+1)))
	case !batch:
		if r.implResult {
			verifAssert("stream-continues", r.state == uint64(2*k) && !r.retFalse)
		} else {
			verifAssert("stream-end-observed", r.state == uint64(2*(k+1)) && r.retFalse)
		}
	default:
		if r.implResult {
			verifAssert("stream-continues", r.state == uint64(2*k))
		} else {
			verifAssert("batch-end-recorded-as-unobserved", r.state == uint64(2*k+1))
		}
	}
	verifReach("c07-cpp-reader-accepted")
}
