package zzverif

// C05: the conversion emitted for an accepted floating-point -> integer type change either throws or delivers a value of
// the target type - also AT the boundary of the target's range, where the target's max() is not representable in the source
// type and is rounded UP when the emitted comparison converts it (static_cast<double>(INT64_MAX) == 2^63).
//
// The source value ranges over the powers of two x = +-2^k, k symbolic in [0, 100] (exactly representable in float and
// double, round(x) == x): that is where every boundary lies.  The emitted statement forms are read back and given the meaning
// C++ gives them:
//   src > std::numeric_limits<T>::max()         T's max() = 2^d - 1 (d = numeric_limits<T>::digits) is converted to the type of
//                                               src: it stays 2^d - 1 if d <= the mantissa width of that type, else becomes 2^d
//   src < std::numeric_limits<T>::lowest()      lowest() = -2^d (signed) / 0 (unsigned): exact
//   !(std::round(src) >= static_cast<S>(std::numeric_limits<T>::lowest()) && std::round(src) < std::ldexp(static_cast<S>(1), std::numeric_limits<T>::digits))
//                                               the value lies outside [lowest, 2^d)
// Obligations: the conversion throws iff +-2^k does not fit the target (no silent overflow - converting an out-of-range
// floating-point value to an integer is undefined behaviour in C++ - and no spurious error), the assignment casts the
// rounded value to the target type, and nothing else is emitted.

import (
	"strings"

	cppbinary "github.com/microsoft/yardl/tooling/internal/cpp/binary"
	"github.com/microsoft/yardl/tooling/pkg/dsl"
)

func c05fDigits(p string) int {
	w := primWidth(p)
	if isSignedInt(p) {
		return w - 1
	}
	return w
}

// C05FloatToInt(write)
func C05FloatToInt(write int) {
	from := verifOneOf("from", "float32", "float64")
	to := verifOneOf("to", intPrimsC05...)
	k := verifInt("exponent")
	verifAssume(k >= 0)
	verifAssume(k <= 100)
	negative := verifBool("negative")
	verifOut("from", from)
	verifOut("to", to)
	oldT, newT := primType(from), primType(to)
	var tc dsl.TypeChange = &dsl.TypeChangeNumberToNumber{TypePair: dsl.TypePair{Old: oldT, New: newT}}
	isWrite := write == 1
	if isWrite {
		tc = &dsl.TypeChangeNumberToNumber{TypePair: dsl.TypePair{Old: newT, New: oldT}}
	}
	text := cppbinary.VerifWriteTypeConversion(tc, "src", "dst", isWrite)
	verifOut("code", text)
	mant := 24
	cppFloat := "float"
	if from == "float64" {
		mant, cppFloat = 53, "double"
	}
	d := c05fDigits(to)
	signed := isSignedInt(to)
	limit := "std::numeric_limits<" + cppIntType(to) + ">::"
	oldUpper := strings.Contains(text, "src > "+limit+"max()")
	oldLowest := strings.Contains(text, "src < "+limit+"lowest()")
	newForm := strings.Contains(text, "!(std::round(src) >= static_cast<"+cppFloat+">("+limit+"lowest()) && std::round(src) < std::ldexp(static_cast<"+cppFloat+">(1), "+limit+"digits))")
	throws := strings.Contains(text, "throw std::runtime_error(")
	verifAssert("guard-is-a-known-form", throws && (newForm != (oldUpper || oldLowest)) && strings.Count(text, "if (") == 1)
	verifAssert("guard-mentions-only-the-target-type", strings.Count(text, "std::numeric_limits<") == strings.Count(text, limit))
	verifAssert("assigns-the-rounded-value-cast-to-the-target", strings.Contains(text, "dst = static_cast<"+cppIntType(to)+">(std::round(src));"))
	// does +-2^k fit the target?
	fits := false
	if !negative {
		fits = k < d
	} else if signed {
		fits = k <= d
	}
	fires := false
	switch {
	case newForm:
		if !negative {
			fires = k >= d
		} else if signed {
			fires = k > d
		} else {
			fires = true
		}
	default:
		if oldUpper && !negative {
			if d > mant {
				fires = k > d // max() was rounded up to 2^d by the conversion to the source type
			} else {
				fires = k >= d
			}
		}
		if oldLowest && negative {
			if signed {
				fires = k > d
			} else {
				fires = true // x < 0
			}
		}
	}
	verifOut("fits", fits)
	verifOut("fires", fires)
	verifAssert("no-silent-out-of-range-conversion", fires || fits)
	verifAssert("no-spurious-overflow-error", !fires || !fits)
	verifReach("c05-float-to-int-end")
}
