package zzverif

import (
	"strings"

	python "github.com/microsoft/yardl/tooling/internal/python"
	"github.com/microsoft/yardl/tooling/pkg/dsl"
	"github.com/microsoft/yardl/tooling/pkg/packaging"
)

// C08PythonPackage: for every option combination the Python generator completes, and every module a
// generated __init__.py imports from its own package is a module the generator wrote.
func C08PythonPackage() {
	verifUseRepl("CopyEmbeddedStaticFiles")
	bDep := &mb{file: "dep/dep.yml"}
	bMain := &mb{file: "main/model.yml"}
	dep := baseModel(bDep, "Dep")
	dep.IsTopLevel = false
	dep.Protocols = nil
	main := baseModel(bMain, "Main")
	main.References = []*dsl.Namespace{dep}
	main.TypeDefinitions = append(main.TypeDefinitions, bMain.alias("Main", "Remote", nil, bMain.vec(bMain.st("Dep.Point"))))
	if verifChoose("main-has-protocols", 2) == 0 {
		main.Protocols = nil
	}
	env, err := dsl.Validate([]*dsl.Namespace{dep, main})
	verifAssert("model-validates", err == nil)
	if err != nil {
		verifOut("err", err.Error())
		return
	}
	opts := packaging.PythonCodegenOptions{OutputDir: verifPath("/out/py"), GenerateNDJson: verifBool("generate-ndjson")}
	var gerr error
	msg, panicked := verifPanics(func() { gerr = python.VerifGenerate(env, opts) })
	verifOut("panic", msg)
	verifAssert("generation-does-not-panic", !panicked)
	verifAssert("generation-succeeds", gerr == nil)
	files := verifFsList()
	has := map[string]bool{}
	for _, f := range files {
		has[f] = true
	}
	ninit := 0
	for _, f := range files {
		if !strings.HasSuffix(f, "/__init__.py") {
			continue
		}
		ninit++
		dir := strings.TrimSuffix(f, "/__init__.py")
		text, _ := verifFsGet(f)
		for _, line := range strings.Split(text, "\n") {
			line = strings.TrimSpace(line)
			mod := ""
			switch {
			case strings.HasPrefix(line, "from . import "):
				mod = strings.TrimPrefix(line, "from . import ")
			case strings.HasPrefix(line, "from ."):
				rest := strings.TrimPrefix(line, "from .")
				if i := strings.Index(rest, " import"); i > 0 && !strings.HasPrefix(rest, ".") {
					mod = rest[:i]
				}
			}
			switch mod {
			case "types", "protocols", "binary", "ndjson":
				verifOut("import", dir+":"+mod)
				verifAssert("imported-module-was-generated", has[dir+"/"+mod+".py"])
			}
		}
	}
	verifAssert("init-files-written", ninit == 2)
	verifAssert("ndjson-written-iff-enabled", has["/out/py/main/ndjson.py"] == opts.GenerateNDJson)
	verifReach("c08-python-package-end")
}
