package zzverif

// C04 / C05 / C15 (C++ emitter level): the schema tables of the emitted protocols.cc.
//
// docs/cpp/evolution.md: "To write a protocol such that it can be read by v1, instantiate a
// ProtocolWriter with the version v1"; docs/reference/binary.md: the stream header is the magic
// bytes, the format version and the protocol's schema.  The generated binary writer constructed for
// `Version x` writes `XWriterBase::SchemaFromVersion(x)` into the header, the generated reader picks
// the conversions of `XReaderBase::VersionFromSchema(schema read from the header)`.  Both functions
// and the tables they consult (`schema_`, `previous_schemas_`, `enum class Version`) are emitted by
// cpp/protocols (writeDeclarations / writeDefinitions).
//
// Here the emitted header + definitions are read back as ONE C++ translation unit (token level:
// comments, preprocessor lines, string and raw string literals, namespaces, class bodies, enum
// definitions, function definitions, definitions of namespace-scope / static-member objects) and
// given the C++ meaning:
//
//   * objects with static storage duration defined in one translation unit are dynamically
//     initialised in the order of their definitions ([basic.start.dynamic]); before that they are
//     zero-initialised, so an initialiser that reads an object defined later (or itself) sees an
//     empty string / empty vector.  Such a read is reported (static-initialised-before-use) and the
//     evaluation continues with the empty value, as the compiled program does;
//   * an unqualified name inside the definition of `C::m` is looked up in the scope of class C;
//   * `switch` jumps to the case whose enumerator has the value of the operand and falls through
//     until `break` / `return` / `throw`; an `if ... else if ...` chain takes the first true branch;
//     `v[i]` outside the bounds of `v` is undefined (table-index-in-bounds).
//
// Obligations, for a namespace with m previous versions whose labels are symbolic strings (pairwise
// distinct, out of a set whose lexicographic order differs from many declaration orders) and whose
// models are, per version (symbolic), identical to the current one / differ in one of several
// accepted ways (changes produced by the real dsl.ValidateEvolution):
//
//   for every enumerator L of `Version`, SchemaFromVersion(Version::L) is the schema text of version
//   L's OWN model (the real dsl.GetProtocolSchemaString of that version's independently validated
//   model; the current model for Current), and VersionFromSchema(that text) is a version with the
//   same schema text (L itself whenever the texts are pairwise different); a text that is no
//   version's schema -- in particular the empty one -- is refused.

import (
	"fmt"
	"strings"

	cppprotocols "github.com/microsoft/yardl/tooling/internal/cpp/protocols"
	"github.com/microsoft/yardl/tooling/pkg/dsl"
)

// ---- tokens -------------------------------------------------------------------------------------

type c04sTok struct {
	k byte // 'i' identifier / keyword, 'n' number, 's' string literal (t = contents), 'p' punctuation
	t string
}

func c04sIdentByte(c byte, first bool) bool {
	if c == '_' || (c >= 'a' && c <= 'z') || (c >= 'A' && c <= 'Z') {
		return true
	}
	return !first && c >= '0' && c <= '9'
}

var c04sTwoChar = []string{"::", "->", "==", "!=", "<=", ">=", "&&", "||", "++", "--", "+=", "-="}

// c04sLex: C++ tokens of src.  Comments and preprocessor lines are dropped; adjacent string
// literals are NOT merged (the expression reader does that).
func c04sLex(src string) ([]c04sTok, string) {
	var out []c04sTok
	n := len(src)
	lineStart := true
	for i := 0; i < n; {
		c := src[i]
		if c == '\n' {
			lineStart = true
			i++
			continue
		}
		if c == ' ' || c == '\t' || c == '\r' {
			i++
			continue
		}
		if c == '#' && lineStart {
			// preprocessor line (with continuations)
			for {
				e := strings.Index(src[i:], "\n")
				if e < 0 {
					i = n
					break
				}
				cont := e > 0 && src[i+e-1] == '\\'
				i += e + 1
				if !cont {
					break
				}
			}
			continue
		}
		lineStart = false
		if c == '/' && i+1 < n && src[i+1] == '/' {
			e := strings.Index(src[i:], "\n")
			if e < 0 {
				i = n
			} else {
				i += e
			}
			continue
		}
		if c == '/' && i+1 < n && src[i+1] == '*' {
			e := strings.Index(src[i+2:], "*/")
			if e < 0 {
				return out, "unterminated comment"
			}
			i += 2 + e + 2
			continue
		}
		if c == 'R' && i+1 < n && src[i+1] == '"' {
			// raw string literal R"delim( ... )delim"
			p := strings.Index(src[i+2:], "(")
			if p < 0 || p > 16 {
				return out, "malformed raw string literal"
			}
			closer := ")" + src[i+2:i+2+p] + "\""
			start := i + 2 + p + 1
			e := strings.Index(src[start:], closer)
			if e < 0 {
				return out, "unterminated raw string literal"
			}
			out = append(out, c04sTok{'s', src[start : start+e]})
			i = start + e + len(closer)
			continue
		}
		if c == '"' || c == '\'' {
			j := i + 1
			var b strings.Builder
			for j < n && src[j] != c {
				if src[j] == '\n' {
					return out, "newline in literal"
				}
				if src[j] == '\\' && j+1 < n {
					switch src[j+1] {
					case 'n':
						b.WriteByte('\n')
					case 't':
						b.WriteByte('\t')
					default:
						b.WriteByte(src[j+1])
					}
					j += 2
					continue
				}
				b.WriteByte(src[j])
				j++
			}
			if j >= n {
				return out, "unterminated literal"
			}
			if c == '"' {
				out = append(out, c04sTok{'s', b.String()})
			} else {
				out = append(out, c04sTok{'n', "'" + b.String() + "'"})
			}
			i = j + 1
			continue
		}
		if c04sIdentByte(c, true) {
			j := i + 1
			for j < n && c04sIdentByte(src[j], false) {
				j++
			}
			out = append(out, c04sTok{'i', src[i:j]})
			i = j
			continue
		}
		if c >= '0' && c <= '9' {
			j := i + 1
			for j < n && (c04sIdentByte(src[j], false) || src[j] == '.') {
				j++
			}
			out = append(out, c04sTok{'n', src[i:j]})
			i = j
			continue
		}
		if i+1 < n {
			two := src[i : i+2]
			hit := false
			for _, t := range c04sTwoChar {
				if t == two {
					hit = true
					break
				}
			}
			if hit {
				out = append(out, c04sTok{'p', two})
				i += 2
				continue
			}
		}
		out = append(out, c04sTok{'p', src[i : i+1]})
		i++
	}
	return out, ""
}

// ---- syntax -------------------------------------------------------------------------------------

type c04sExpr struct {
	k  string      // "str", "num", "name", "list", "index", "eq"
	s  string      // str: contents; num: text
	q  []string    // name: qualified-name components
	xs []*c04sExpr // list: elements; index: base, subscript; eq: operands
}

type c04sCase struct {
	def   bool
	label *c04sExpr
	at    int // position in the switch body the label stands before
}

type c04sStmt struct {
	k     string // "switch", "if", "return", "throw", "break", "block"
	e     *c04sExpr
	body  []*c04sStmt
	els   []*c04sStmt
	cases []*c04sCase
}

// c04sObj: the definition of an object with static storage duration, in textual order.
type c04sObj struct {
	typ         string
	class, name string
	init        *c04sExpr // nil: default-initialised
}

type c04sFunc struct {
	class, name string
	params      []c04sTok
	lo, hi      int // token range of the body (between the braces)
}

type c04sEnum struct {
	name  string
	items []string
}

type c04sTU struct {
	objs  []*c04sObj
	funcs []*c04sFunc
	enums []*c04sEnum
}

type c04sParser struct {
	toks []c04sTok
	pos  int
	bad  string
}

func (p *c04sParser) fail(msg string) {
	if p.bad == "" {
		at := ""
		for i := p.pos; i < len(p.toks) && i < p.pos+6; i++ {
			at += " " + p.toks[i].t
		}
		p.bad = msg + " at:" + at
	}
}

func (p *c04sParser) is(k byte, t string) bool {
	return p.pos < len(p.toks) && p.toks[p.pos].k == k && p.toks[p.pos].t == t
}

func (p *c04sParser) isP(t string) bool { return p.is('p', t) }
func (p *c04sParser) isI(t string) bool { return p.is('i', t) }

func (p *c04sParser) eat(k byte, t string) bool {
	if p.is(k, t) {
		p.pos++
		return true
	}
	p.fail("expected '" + t + "'")
	return false
}

// skipBalanced: p.pos is just after an opening brace; returns the position of the matching closing
// brace and moves past it.
func (p *c04sParser) skipBalanced() int {
	depth := 1
	for p.pos < len(p.toks) {
		t := p.toks[p.pos]
		if t.k == 'p' && t.t == "{" {
			depth++
		} else if t.k == 'p' && t.t == "}" {
			depth--
			if depth == 0 {
				p.pos++
				return p.pos - 1
			}
		}
		p.pos++
	}
	p.fail("unbalanced braces")
	return p.pos
}

// qualifiedTail: the qualified name `a::b::c` ending just before toks[end]; returns its components
// and the position of its first token.
func c04sQualifiedTail(toks []c04sTok, lo, end int) ([]string, int) {
	var rev []string
	i := end - 1
	for i >= lo && toks[i].k == 'i' {
		rev = append(rev, toks[i].t)
		if i-1 >= lo && toks[i-1].k == 'p' && toks[i-1].t == "::" && i-2 >= lo && toks[i-2].k == 'i' {
			i -= 2
			continue
		}
		break
	}
	if len(rev) == 0 {
		return nil, end
	}
	q := make([]string, len(rev))
	for k := range rev {
		q[len(rev)-1-k] = rev[k]
	}
	return q, i
}

func c04sJoinToks(toks []c04sTok) string {
	parts := make([]string, len(toks))
	for i, t := range toks {
		parts[i] = t.t
	}
	return strings.Join(parts, " ")
}

func c04sParseTU(toks []c04sTok) (*c04sTU, string) {
	p := &c04sParser{toks: toks}
	tu := &c04sTU{}
	nsDepth := 0
	for p.pos < len(toks) && p.bad == "" {
		switch {
		case p.isP(";"):
			p.pos++
		case p.isP("}"):
			if nsDepth == 0 {
				p.fail("unbalanced '}'")
				break
			}
			nsDepth--
			p.pos++
		case p.isI("namespace"):
			p.pos++
			for p.pos < len(toks) && (toks[p.pos].k == 'i' || p.isP("::")) {
				p.pos++
			}
			if p.eat('p', "{") {
				nsDepth++
			}
		case p.isI("enum"):
			p.pos++
			if p.isI("class") || p.isI("struct") {
				p.pos++
			}
			e := &c04sEnum{}
			if p.pos < len(toks) && toks[p.pos].k == 'i' {
				e.name = toks[p.pos].t
				p.pos++
			}
			if p.isP(":") { // underlying type
				for p.pos < len(toks) && !p.isP("{") && !p.isP(";") {
					p.pos++
				}
			}
			if p.isP(";") {
				break
			}
			if !p.eat('p', "{") {
				break
			}
			for p.bad == "" && !p.isP("}") {
				if p.pos >= len(toks) || toks[p.pos].k != 'i' {
					p.fail("enumerator expected")
					break
				}
				e.items = append(e.items, toks[p.pos].t)
				p.pos++
				if p.isP("=") {
					p.fail("enumerator with an explicit value")
					break
				}
				if p.isP(",") {
					p.pos++
				} else if !p.isP("}") {
					p.fail("',' or '}' expected in enum")
				}
			}
			p.eat('p', "}")
			tu.enums = append(tu.enums, e)
		case p.isI("class") || p.isI("struct"):
			// class definition or forward declaration: members are declarations, not definitions
			for p.pos < len(toks) && !p.isP("{") && !p.isP(";") {
				p.pos++
			}
			if p.isP("{") {
				p.pos++
				p.skipBalanced()
			}
		case p.isI("using") || p.isI("typedef") || p.isI("static_assert") || p.isI("template"):
			p.fail("unsupported declaration")
		default:
			p.declaration(tu)
		}
	}
	if p.bad == "" && nsDepth != 0 {
		p.bad = "unterminated namespace"
	}
	return tu, p.bad
}

// declaration: a function definition / declaration or an object definition at namespace scope.
func (p *c04sParser) declaration(tu *c04sTU) {
	toks := p.toks
	lo := p.pos
	depth := 0
	firstParen := -1
	for p.pos < len(toks) {
		t := toks[p.pos]
		if t.k == 'p' {
			if t.t == "(" || t.t == "[" {
				if t.t == "(" && depth == 0 && firstParen < 0 {
					firstParen = p.pos
				}
				depth++
			} else if t.t == ")" || t.t == "]" {
				depth--
			} else if depth == 0 && (t.t == "=" || t.t == "{" || t.t == ";") {
				break
			}
		}
		p.pos++
	}
	if p.pos >= len(toks) {
		p.fail("unterminated declaration")
		return
	}
	end := p.pos
	switch toks[end].t {
	case ";":
		p.pos++
		if firstParen >= 0 {
			return // function declaration
		}
		q, at := c04sQualifiedTail(toks, lo, end)
		if len(q) == 0 || at == lo {
			p.pos = lo
			p.fail("unrecognised declaration")
			return
		}
		tu.objs = append(tu.objs, c04sNewObj(toks[lo:at], q))
	case "=":
		if firstParen >= 0 {
			p.fail("unrecognised declarator")
			return
		}
		q, at := c04sQualifiedTail(toks, lo, end)
		if len(q) == 0 || at == lo {
			p.pos = lo
			p.fail("unrecognised object definition")
			return
		}
		p.pos++
		o := c04sNewObj(toks[lo:at], q)
		o.init = p.expr()
		p.eat('p', ";")
		tu.objs = append(tu.objs, o)
	case "{":
		if firstParen < 0 {
			// T name{...};
			q, at := c04sQualifiedTail(toks, lo, end)
			if len(q) == 0 || at == lo {
				p.pos = lo
				p.fail("unrecognised brace-initialised definition")
				return
			}
			o := c04sNewObj(toks[lo:at], q)
			o.init = p.expr()
			p.eat('p', ";")
			tu.objs = append(tu.objs, o)
			return
		}
		q, _ := c04sQualifiedTail(toks, lo, firstParen)
		if len(q) == 0 {
			p.pos = lo
			p.fail("unrecognised function definition")
			return
		}
		// parameter list
		d, j := 1, firstParen+1
		for j < end && d > 0 {
			if toks[j].k == 'p' && (toks[j].t == "(") {
				d++
			} else if toks[j].k == 'p' && toks[j].t == ")" {
				d--
			}
			j++
		}
		f := &c04sFunc{name: q[len(q)-1], params: toks[firstParen+1 : j-1]}
		if len(q) >= 2 {
			f.class = q[len(q)-2]
		}
		p.pos = end + 1
		f.lo = p.pos
		f.hi = p.skipBalanced()
		tu.funcs = append(tu.funcs, f)
	}
}

func c04sNewObj(typ []c04sTok, q []string) *c04sObj {
	o := &c04sObj{typ: c04sJoinToks(typ), name: q[len(q)-1]}
	if len(q) >= 2 {
		o.class = q[len(q)-2]
	}
	return o
}

// expr: primary ('[' expr ']')* ('==' primary ('[' expr ']')*)?
func (p *c04sParser) expr() *c04sExpr {
	l := p.postfix()
	if p.bad == "" && p.isP("==") {
		p.pos++
		r := p.postfix()
		return &c04sExpr{k: "eq", xs: []*c04sExpr{l, r}}
	}
	return l
}

func (p *c04sParser) postfix() *c04sExpr {
	e := p.primary()
	for p.bad == "" && p.isP("[") {
		p.pos++
		ix := p.expr()
		p.eat('p', "]")
		e = &c04sExpr{k: "index", xs: []*c04sExpr{e, ix}}
	}
	return e
}

func (p *c04sParser) primary() *c04sExpr {
	if p.pos >= len(p.toks) {
		p.fail("expression expected")
		return &c04sExpr{k: "str"}
	}
	t := p.toks[p.pos]
	switch {
	case t.k == 's':
		e := &c04sExpr{k: "str"}
		for p.pos < len(p.toks) && p.toks[p.pos].k == 's' { // adjacent literals are concatenated
			e.s += p.toks[p.pos].t
			p.pos++
		}
		return e
	case t.k == 'n':
		p.pos++
		return &c04sExpr{k: "num", s: t.t}
	case t.k == 'i':
		e := &c04sExpr{k: "name", q: []string{t.t}}
		p.pos++
		for p.isP("::") && p.pos+1 < len(p.toks) && p.toks[p.pos+1].k == 'i' {
			e.q = append(e.q, p.toks[p.pos+1].t)
			p.pos += 2
		}
		if p.isP("(") || p.isP("<") || p.isP("{") {
			p.fail("unsupported call / template / construction in expression")
		}
		return e
	case t.k == 'p' && t.t == "{":
		p.pos++
		e := &c04sExpr{k: "list"}
		for p.bad == "" && !p.isP("}") {
			e.xs = append(e.xs, p.expr())
			if p.isP(",") {
				p.pos++
			} else if !p.isP("}") {
				p.fail("',' or '}' expected in initialiser list")
			}
		}
		p.eat('p', "}")
		return e
	case t.k == 'p' && t.t == "(":
		p.pos++
		e := p.expr()
		p.eat('p', ")")
		return e
	}
	p.fail("unsupported expression")
	return &c04sExpr{k: "str"}
}

// stmts: statements up to (not including) the closing brace; inside a switch body case labels are
// recorded in sw.
func (p *c04sParser) stmts(sw *c04sStmt) []*c04sStmt {
	var out []*c04sStmt
	for p.bad == "" && p.pos < len(p.toks) && !p.isP("}") {
		if sw != nil && p.isI("case") {
			p.pos++
			l := p.expr()
			p.eat('p', ":")
			sw.cases = append(sw.cases, &c04sCase{label: l, at: len(out)})
			continue
		}
		if sw != nil && p.isI("default") {
			p.pos++
			p.eat('p', ":")
			sw.cases = append(sw.cases, &c04sCase{def: true, at: len(out)})
			continue
		}
		out = append(out, p.stmt())
	}
	return out
}

func (p *c04sParser) block() []*c04sStmt {
	if p.isP("{") {
		p.pos++
		b := p.stmts(nil)
		p.eat('p', "}")
		return b
	}
	return []*c04sStmt{p.stmt()}
}

func (p *c04sParser) stmt() *c04sStmt {
	switch {
	case p.isP(";"):
		p.pos++
		return &c04sStmt{k: "block"}
	case p.isP("{"):
		return &c04sStmt{k: "block", body: p.block()}
	case p.isI("switch"):
		p.pos++
		s := &c04sStmt{k: "switch"}
		p.eat('p', "(")
		s.e = p.expr()
		p.eat('p', ")")
		p.eat('p', "{")
		s.body = p.stmts(s)
		p.eat('p', "}")
		return s
	case p.isI("if"):
		p.pos++
		s := &c04sStmt{k: "if"}
		p.eat('p', "(")
		s.e = p.expr()
		p.eat('p', ")")
		s.body = p.block()
		if p.isI("else") {
			p.pos++
			s.els = p.block()
		}
		return s
	case p.isI("return"):
		p.pos++
		s := &c04sStmt{k: "return"}
		if !p.isP(";") {
			s.e = p.expr()
		}
		p.eat('p', ";")
		return s
	case p.isI("throw"):
		for p.pos < len(p.toks) && !p.isP(";") {
			if p.isP("{") || p.isP("}") {
				p.fail("unsupported throw expression")
				break
			}
			p.pos++
		}
		p.eat('p', ";")
		return &c04sStmt{k: "throw"}
	case p.isI("break"):
		p.pos++
		p.eat('p', ";")
		return &c04sStmt{k: "break"}
	}
	p.fail("unsupported statement")
	return &c04sStmt{k: "block"}
}

// ---- meaning ------------------------------------------------------------------------------------

type c04sVal struct {
	k byte // 's' string, 'l' vector of strings, 'e' enumerator (n), 'b' bool (n != 0), 'n' integer (n)
	s string
	l []string
	n int
}

type c04sMachine struct {
	tu      *c04sTU
	enum    *c04sEnum
	objs    map[string]*c04sVal // "Class::name" -> current value
	inited  map[string]bool
	early   []string // reads of objects whose dynamic initialisation has not run yet
	oob     []string // subscripts outside the vector
	bad     string
	class   string // class scope of the definition being evaluated
	locals  map[string]*c04sVal
	current string // object being initialised (for diagnostics)
}

func (m *c04sMachine) fail(msg string) *c04sVal {
	if m.bad == "" {
		m.bad = msg
	}
	return &c04sVal{k: 's'}
}

func (m *c04sMachine) readObj(key string) *c04sVal {
	if !m.inited[key] {
		m.early = append(m.early, m.current+" reads "+key)
	}
	return m.objs[key]
}

func (m *c04sMachine) eval(e *c04sExpr) *c04sVal {
	switch e.k {
	case "str":
		return &c04sVal{k: 's', s: e.s}
	case "num":
		n, ok := verifAtoi(e.s)
		if !ok {
			return m.fail("unsupported numeric literal " + e.s)
		}
		return &c04sVal{k: 'n', n: int(n)}
	case "name":
		q := e.q
		if len(q) == 1 {
			if v, ok := m.locals[q[0]]; ok {
				return v
			}
			if _, ok := m.objs[m.class+"::"+q[0]]; ok {
				return m.readObj(m.class + "::" + q[0])
			}
			return m.fail("unknown name " + q[0])
		}
		// the enclosing namespaces of the emitted unit may qualify a name further: only the last two components matter here
		cls, name := q[len(q)-2], q[len(q)-1]
		if m.enum != nil && cls == m.enum.name {
			for i, it := range m.enum.items {
				if it == name {
					return &c04sVal{k: 'e', n: i}
				}
			}
			return m.fail("unknown enumerator " + cls + "::" + name)
		}
		if _, ok := m.objs[cls+"::"+name]; ok {
			return m.readObj(cls + "::" + name)
		}
		return m.fail("unknown name " + cls + "::" + name)
	case "list":
		v := &c04sVal{k: 'l'}
		for _, x := range e.xs {
			xv := m.eval(x)
			if xv.k != 's' {
				return m.fail("initialiser list element is not a string")
			}
			v.l = append(v.l, xv.s)
		}
		return v
	case "index":
		b, ix := m.eval(e.xs[0]), m.eval(e.xs[1])
		if b.k != 'l' || ix.k != 'n' {
			return m.fail("unsupported subscript")
		}
		if ix.n < 0 || ix.n >= len(b.l) {
			m.oob = append(m.oob, fmt.Sprintf("%s[%d] of %d", strings.Join(e.xs[0].q, "::"), ix.n, len(b.l)))
			return &c04sVal{k: 's'}
		}
		return &c04sVal{k: 's', s: b.l[ix.n]}
	case "eq":
		a, b := m.eval(e.xs[0]), m.eval(e.xs[1])
		if a.k != b.k || (a.k != 's' && a.k != 'e' && a.k != 'n') {
			return m.fail("unsupported comparison")
		}
		r := 0
		if a.s == b.s && a.n == b.n {
			r = 1
		}
		return &c04sVal{k: 'b', n: r}
	}
	return m.fail("unsupported expression kind " + e.k)
}

// c04sInit: zero-initialisation of every object, then dynamic initialisation in definition order.
func c04sInit(tu *c04sTU) *c04sMachine {
	m := &c04sMachine{tu: tu, objs: map[string]*c04sVal{}, inited: map[string]bool{}}
	for _, e := range tu.enums {
		if e.name == "Version" {
			m.enum = e
		}
	}
	for _, o := range tu.objs {
		key := o.class + "::" + o.name
		if _, dup := m.objs[key]; dup {
			m.fail("object defined twice: " + key)
		}
		if strings.Contains(o.typ, "vector") {
			m.objs[key] = &c04sVal{k: 'l'}
		} else if strings.HasSuffix(o.typ, "string") {
			m.objs[key] = &c04sVal{k: 's'}
		} else {
			m.fail("object of unsupported type " + o.typ + ": " + key)
		}
	}
	for _, o := range tu.objs {
		key := o.class + "::" + o.name
		if m.bad != "" {
			break
		}
		if o.init != nil {
			m.class, m.current, m.locals = o.class, key, nil
			v := m.eval(o.init)
			if v.k != m.objs[key].k {
				m.fail("initialiser of " + key + " has another type than the object")
				break
			}
			m.objs[key] = &c04sVal{k: v.k, s: v.s, l: append([]string(nil), v.l...)}
		}
		m.inited[key] = true
	}
	return m
}

const (
	c04sFell = iota
	c04sReturned
	c04sThrew
	c04sBroke
)

func (m *c04sMachine) exec(ss []*c04sStmt) (int, *c04sVal) {
	for _, s := range ss {
		if m.bad != "" {
			return c04sThrew, nil
		}
		switch s.k {
		case "block":
			if o, v := m.exec(s.body); o != c04sFell {
				return o, v
			}
		case "return":
			if s.e == nil {
				return c04sReturned, nil
			}
			return c04sReturned, m.eval(s.e)
		case "throw":
			return c04sThrew, nil
		case "break":
			return c04sBroke, nil
		case "if":
			c := m.eval(s.e)
			if c.k != 'b' {
				m.fail("condition is not a comparison")
				return c04sThrew, nil
			}
			br := s.els
			if c.n != 0 {
				br = s.body
			}
			if o, v := m.exec(br); o != c04sFell {
				return o, v
			}
		case "switch":
			x := m.eval(s.e)
			start := -1
			for _, c := range s.cases {
				if c.def {
					continue
				}
				l := m.eval(c.label)
				if l.k != x.k || (l.k != 'e' && l.k != 'n') {
					m.fail("case label of another type than the switch operand")
					return c04sThrew, nil
				}
				if l.n == x.n {
					if start >= 0 {
						m.fail("duplicate case label")
						return c04sThrew, nil
					}
					start = c.at
				}
			}
			if start < 0 {
				for _, c := range s.cases {
					if c.def {
						start = c.at
					}
				}
			}
			if start >= 0 {
				o, v := m.exec(s.body[start:])
				if o == c04sReturned || o == c04sThrew {
					return o, v
				}
			}
		default:
			m.fail("unsupported statement kind " + s.k)
		}
	}
	return c04sFell, nil
}

// call: run the function `name` with its single parameter bound to arg.
func (m *c04sMachine) call(toks []c04sTok, f *c04sFunc, arg *c04sVal) (int, *c04sVal) {
	p := &c04sParser{toks: toks[:f.hi], pos: f.lo}
	body := p.stmts(nil)
	if p.bad == "" && p.pos != f.hi {
		p.fail("statement list ends early")
	}
	if p.bad != "" {
		m.fail(f.class + "::" + f.name + ": " + p.bad)
		return c04sThrew, nil
	}
	param := ""
	for _, t := range f.params {
		if t.k == 'i' {
			param = t.t
		}
	}
	m.class, m.current = f.class, f.class+"::"+f.name
	m.locals = map[string]*c04sVal{param: arg}
	return m.exec(body)
}

// ---- models -------------------------------------------------------------------------------------

const (
	c04sSame       = iota // the version's model is the current one: both protocols are unchanged
	c04sStepInt           // step o of P was int
	c04sRecSmaller        // Rec lacked its optional field (both protocols changed)
	c04sStepAbsent        // the last step of P did not exist yet
	c04sStepUint          // step o of P was uint
	// Not registered (the unchanged tree violates header-schema-is-that-versions-schema / schema-of-listed-version-accepted
	// for it: reported as a suspected genuine defect): the version spelled the type of step o through an alias the current
	// model no longer has ("Adding or removing aliases to types" is a documented compatible change).
	c04sAliasRemoved
	c04sKinds
)

// c04sModel: protocol P { o: <number>, r: Rec, n: string? } and protocol Q { q: Rec } (Q only differs when Rec does).
func c04sModel(file string, kind int) *dsl.Namespace {
	b := &mb{file: file}
	o := "long"
	switch kind {
	case c04sStepInt:
		o = "int"
	case c04sStepUint:
		o = "uint"
	case c04sAliasRemoved:
		o = "Num"
	}
	steps := []*dsl.ProtocolStep{b.step("o", b.st(o)), b.step("r", b.st("Rec"))}
	if kind != c04sStepAbsent {
		steps = append(steps, b.step("n", b.opt(b.st("string"))))
	}
	fields := []*dsl.Field{b.field("a", b.st("int"))}
	if kind != c04sRecSmaller {
		fields = append(fields, b.field("c", b.opt(b.st("string"))))
	}
	tds := dsl.TypeDefinitions{b.record(NS, "Rec", nil, fields...)}
	if kind == c04sAliasRemoved {
		tds = append(tds, b.alias(NS, "Num", nil, b.st("long")))
	}
	return &dsl.Namespace{Name: NS, IsTopLevel: true,
		TypeDefinitions: tds,
		Protocols: []*dsl.ProtocolDefinition{
			b.protocol(NS, "P", steps...),
			b.protocol(NS, "Q", b.step("q", b.vec(b.st("Rec")))),
		}}
}

var c04sLabelPool = []string{"v9", "v10", "a", "B", "Current", "class"}

var c04sCppKeyword = map[string]bool{"class": true, "default": true, "new": true, "delete": true, "int": true, "switch": true, "case": true, "namespace": true,
	"template": true, "typename": true, "union": true, "enum": true, "struct": true, "auto": true, "const": true, "static": true, "void": true, "return": true}

// c04sConc: the text as a concrete string (a symbolic text is forked over the finite domains of its atoms).
func c04sConc(s string) string { return strings.Join(strings.Split(s, "\n"), "\n") }

// C04CppSchemas(m, kinds, nLabels): m previous versions, each of the first `kinds` kinds (symbolic), labels symbolic
// (pairwise distinct, out of the first nLabels of c04sLabelPool).
func C04CppSchemas(m, kinds, nLabels int) {
	labels := make([]string, m)
	for j := range labels {
		labels[j] = verifOneOf(fmt.Sprintf("label-%d", j), c04sLabelPool[:nLabels]...)
		for i := 0; i < j; i++ {
			verifAssume(labels[i] != labels[j])
		}
	}
	kind := make([]int, m)
	for j := range kind {
		kind[j] = verifChoose(fmt.Sprintf("kind-%d", j), kinds)
	}
	cur, err := dsl.Validate([]*dsl.Namespace{c04sModel("model.yml", c04sSame)})
	verifAssert("models-validate", err == nil)
	if err != nil {
		return
	}
	olds := make([]*dsl.Environment, m)
	for j := range olds {
		olds[j], err = dsl.Validate([]*dsl.Namespace{c04sModel(fmt.Sprintf("prev%d/model.yml", j), kind[j])})
		verifAssert("models-validate", err == nil)
		if err != nil {
			return
		}
	}
	// the oracle: each version's schema text from its own model, before ValidateEvolution touches the models
	np := len(cur.Namespaces[0].Protocols)
	wantCur := make([]string, np)
	wantOld := make([][]string, np)
	for pi, p := range cur.Namespaces[0].Protocols {
		wantCur[pi] = dsl.GetProtocolSchemaString(p, cur.SymbolTable)
		wantOld[pi] = make([]string, m)
		for j := range olds {
			wantOld[pi][j] = dsl.GetProtocolSchemaString(olds[j].Namespaces[0].Protocols[pi], olds[j].SymbolTable)
		}
	}
	var everr error
	msg, panicked := verifPanics(func() { _, _, everr = dsl.ValidateEvolution(cur, olds, labels) })
	verifOut("panic", msg)
	verifAssert("documented-compatible-changes-accepted", !panicked && everr == nil)
	if panicked || everr != nil {
		verifOut("err", errText(everr))
		return
	}
	ns := cur.Namespaces[0]
	unit := c04sConc(cppprotocols.VerifWriteDeclarations(ns) + "\n" + cppprotocols.VerifWriteDefinitions(ns, cur.SymbolTable))
	cl := make([]string, m)
	for j := range cl {
		cl[j] = c04sConc(labels[j])
		verifOut("version-"+cl[j], kind[j])
	}

	toks, bad := c04sLex(unit)
	var tu *c04sTU
	if bad == "" {
		tu, bad = c04sParseTU(toks)
	}
	verifOut("unit", bad)
	verifAssert("emitted-unit-understood", bad == "")
	if bad != "" {
		return
	}
	mc := c04sInit(tu)
	verifOut("static-initialisation", mc.bad)
	verifAssert("emitted-unit-understood", mc.bad == "" && mc.enum != nil)
	if mc.bad != "" || mc.enum == nil {
		return
	}
	verifOut("read-before-initialisation", strings.Join(mc.early, "; "))
	verifAssert("static-initialised-before-use", len(mc.early) == 0)

	// enum class Version: one enumerator per label, in declaration order, then Current; pairwise distinct and usable as
	// C++ identifiers (a label may be `Current` or a C++ keyword: the emitter has to escape it)
	seen := map[string]int{}
	for _, it := range mc.enum.items {
		seen[it]++
	}
	enumOk := len(mc.enum.items) == m+1 && mc.enum.items[m] == "Current"
	for _, it := range mc.enum.items {
		enumOk = enumOk && seen[it] == 1 && !c04sCppKeyword[it]
	}
	verifAssert("version-enum-lists-each-label-once", enumOk)
	if !enumOk {
		return
	}

	for pi, p := range ns.Protocols {
		w, r := p.Name+"WriterBase", p.Name+"ReaderBase"
		wantOf := func(version string) string {
			// enumerators stand for the labels in declaration order
			for j := range cl {
				if mc.enum.items[j] == version {
					return wantOld[pi][j]
				}
			}
			return wantCur[pi]
		}
		for _, c := range []string{w, r} {
			v, ok := mc.objs[c+"::schema_"]
			verifAssert("schema-member-carries-current-schema", ok && v.k == 's' && v.s == wantCur[pi])
		}
		var sfv, vfs *c04sFunc
		for _, f := range tu.funcs {
			if f.class == w && f.name == "SchemaFromVersion" {
				sfv = f
			}
			if f.class == r && f.name == "VersionFromSchema" {
				vfs = f
			}
		}
		verifAssert("emitted-unit-understood", sfv != nil && vfs != nil)
		if sfv == nil || vfs == nil {
			return
		}
		for i, version := range mc.enum.items {
			// the writer constructed for `version` puts SchemaFromVersion(version) into the stream header
			o, v := mc.call(toks, sfv, &c04sVal{k: 'e', n: i})
			verifOut("SchemaFromVersion", mc.bad)
			verifAssert("emitted-unit-understood", mc.bad == "")
			if mc.bad != "" {
				return
			}
			verifAssert("header-schema-is-that-versions-schema", o == c04sReturned && v != nil && v.k == 's' && v.s == wantOf(version))
			// the reader of a stream written by that version's own release finds a version with that wire format
			o, v = mc.call(toks, vfs, &c04sVal{k: 's', s: wantOf(version)})
			verifOut("VersionFromSchema", mc.bad)
			verifAssert("emitted-unit-understood", mc.bad == "")
			if mc.bad != "" {
				return
			}
			found := o == c04sReturned && v != nil && v.k == 'e'
			verifAssert("schema-of-listed-version-accepted", found)
			if found {
				verifAssert("reader-selects-version-of-that-schema", wantOf(mc.enum.items[v.n]) == wantOf(version))
			}
		}
		for _, foreign := range []string{"", wantCur[pi] + " ", "{\"protocol\":{\"name\":\"Other\",\"sequence\":[]},\"types\":null}"} {
			o, _ := mc.call(toks, vfs, &c04sVal{k: 's', s: foreign})
			verifAssert("emitted-unit-understood", mc.bad == "")
			if mc.bad != "" {
				return
			}
			verifAssert("foreign-schema-refused", o == c04sThrew)
		}
	}
	verifOut("subscripts-out-of-bounds", strings.Join(mc.oob, "; "))
	verifAssert("table-index-in-bounds", len(mc.oob) == 0)
	verifReach("c04s-end")
}
